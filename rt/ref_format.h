// Reference renderer for ST::format fields (C11), field/format-string
// generators shared by the format harnesses (C10, C11, C17), and the typed
// argument "shapes" through which the variadic entry points are called.
// Written from the C11 statement; shares no code with the library.
#pragma once
#include "vrt.h"
#include "ref_unicode.h"
#include <string>
#include <vector>
#include <string_view>

namespace fmtref {

typedef std::string S;

struct Arg {
    enum Kind { SInt, UInt, Text, Bool, Char, WChar, Char16, Char32, Char8 } kind;
    long long s = 0;
    unsigned long long u = 0;
    S text;             // UTF-8 bytes for Text
    const char *type = "";
    bool is_integer() const { return kind != Text && kind != Bool; }
};

struct Field {
    char align = 0;          // 0, '<', '>'
    int padkind = 0;         // 0 none, 1 "_c", 2 "0" flag  - the pad specification in force (the last one written)
    char padc = ' ';
    int overridden = 0;      // an earlier pad specification in the same field that the one above replaces: 0 none, 1 "_c", 2 "0" flag
    char overridden_c = '#';
    int width = 0;           // 0 = none
    int precision = -1;
    bool alt = false;        // '#'
    bool plus = false;       // '+'
    char cls = 0;            // 0, d x X o b c
    int argref = 0;          // 0 = sequential, else &N
    std::vector<int> order;  // token order
};

// tokens: 0 align 1 pad 2 alt 3 plus 4 width 5 precision 6 class 7 argref
inline S field_text(const Field &f)
{
    S out = "{";
    bool last_was_number = false;
    // a bare digit run (width, '0' flag) right after another number would merge
    // into it: separate them with a harmless repeat of a flag that is already in force
    auto sep = [&]() {
        if (last_was_number) out += f.align ? f.align : (f.cls ? f.cls : (f.plus ? '+' : (f.alt ? '#' : 'd')));
        last_was_number = false;
    };
    for (int t : f.order) {
        switch (t) {
        case 0: if (f.align) { out += f.align; last_was_number = false; } break;
        case 1:
            if (f.padkind != 0 && f.overridden == 1) { out += '_'; out += f.overridden_c; last_was_number = false; }
            else if (f.padkind != 0 && f.overridden == 2) { sep(); out += '0'; last_was_number = false; }
            if (f.padkind == 1) { out += '_'; out += f.padc; last_was_number = false; }
            else if (f.padkind == 2) { sep(); out += '0'; }
            break;
        case 2: if (f.alt) { out += '#'; last_was_number = false; } break;
        case 3: if (f.plus) { out += '+'; last_was_number = false; } break;
        case 4: if (f.width) { sep(); out += vrt::sfmt("%d", f.width); last_was_number = true; } break;
        case 5: if (f.precision >= 0) { out += vrt::sfmt(".%d", f.precision); last_was_number = true; } break;
        case 6: if (f.cls) { out += f.cls; last_was_number = false; } break;
        case 7: if (f.argref) { out += vrt::sfmt("&%d", f.argref); last_was_number = true; } break;
        }
    }
    return out + "}";
}
// note: the filler character inserted before a '0' flag after a number is
// only used when cls == 0 and nothing else is set: 'd' (decimal class) does
// not change the rendering of integers, and for text arguments class letters
// are ignored by the library and by this model alike.

enum Outcome { RENDERED, CONTRACT_ASSERT };

inline S digits(unsigned long long mag, int base, bool upper)
{
    if (!mag) return "0";
    S o;
    while (mag) {
        unsigned d = static_cast<unsigned>(mag % base);
        o.insert(o.begin(), static_cast<char>(d < 10 ? '0' + d : (upper ? 'A' : 'a') + d - 10));
        mag /= base;
    }
    return o;
}

inline S pad_text(const Field &f, const S &body, bool number)
{
    if (f.width <= static_cast<int>(body.size())) return body;
    char pad = f.padkind == 1 ? f.padc : f.padkind == 2 ? '0' : ' ';
    S fill(static_cast<size_t>(f.width) - body.size(), pad);
    char a = f.align ? f.align : (number ? '>' : '<');
    return a == '>' ? fill + body : body + fill;
}

// rendering of one field; CONTRACT_ASSERT for padding applied to a character conversion
inline Outcome render_field(const Field &f, const Arg &a, S &out)
{
    out.clear();
    if (a.kind == Arg::Text || a.kind == Arg::Bool) {
        S t = a.kind == Arg::Bool ? (a.u ? "true" : "false") : a.text;
        if (f.precision >= 0 && t.size() > static_cast<size_t>(f.precision)) t.resize(f.precision);
        out = pad_text(f, t, false);
        return RENDERED;
    }
    if (f.cls == 'c') {
        if (f.width != 0 || f.padkind != 0) return CONTRACT_ASSERT;
        if (a.kind == Arg::Char8) { out += static_cast<char>(a.u); return RENDERED; }   // a UTF-8 code unit is copied as is
        long long v;
        switch (a.kind) {
        case Arg::UInt: v = a.u > 0x10FFFF ? -1 : static_cast<long long>(a.u); break;
        case Arg::Char16: v = static_cast<long long>(a.u); break;
        case Arg::Char32: v = a.u > 0x10FFFF ? -1 : static_cast<long long>(a.u); break;
        default: v = a.s; break;                                                         // SInt, Char, WChar
        }
        if (v < 0 || v > 0x10FFFF) ref::enc_utf8(out, 0xFFFD);
        else ref::enc_utf8(out, static_cast<unsigned long>(v));
        return RENDERED;
    }
    // numeric rendering
    bool neg = false;
    unsigned long long mag;
    if (a.kind == Arg::SInt || a.kind == Arg::Char || a.kind == Arg::WChar) {
        neg = a.s < 0;
        mag = neg ? 0ull - static_cast<unsigned long long>(a.s) : static_cast<unsigned long long>(a.s);
    } else mag = a.u;
    int base = 10;
    bool upper = false;
    S prefix;
    switch (f.cls) {
    case 'x': base = 16; prefix = "0x"; break;
    case 'X': base = 16; upper = true; prefix = "0X"; break;
    case 'o': base = 8; prefix = "0"; break;
    case 'b': base = 2; prefix = "0b"; break;
    default: break;
    }
    S head;
    if (neg) head += '-';
    else if (f.plus) head += '+';
    if (f.alt && mag != 0) head += prefix;
    S dg = digits(mag, base, upper);
    if (f.padkind == 2) {
        // zero padding goes between sign/prefix and digits, always right-aligned
        size_t len = head.size() + dg.size();
        S zeros(f.width > static_cast<int>(len) ? static_cast<size_t>(f.width) - len : 0, '0');
        out = head + zeros + dg;
    } else {
        out = pad_text(f, head + dg, true);
    }
    return RENDERED;
}

// ---------------------------------------------------------------- generators
inline Field random_field(vrt::Rng &r, bool allow_char_class_padding)
{
    Field f;
    static const char aligns[] = {0, 0, '<', '>'};
    f.align = r.pick(aligns);
    switch (r.below(5)) {
    case 0: { static const char pads[] = {'*', '_', '.', '#', 'x', '-', '~', ' ', '0', 'c', '+', '<', '&'}; f.padkind = 1; f.padc = r.pick(pads); break; }
    case 1: f.padkind = 2; break;
    default: break;
    }
    // two pad specifications in one field: the later one is in force ("in every field order")
    if (f.padkind != 0 && r.chance(1, 4)) { f.overridden = static_cast<int>(1 + r.below(2)); static const char oc[] = {'#', '0', '!', ' '}; f.overridden_c = r.pick(oc); }
    if (r.chance(2, 3)) f.width = static_cast<int>(r.chance(1, 8) ? 1 + r.below(300) : 1 + r.below(24));
    if (r.chance(1, 4)) f.precision = static_cast<int>(r.below(12));
    f.alt = r.chance(1, 3);
    f.plus = r.chance(1, 3);
    static const char classes[] = {0, 0, 0, 'd', 'x', 'X', 'o', 'b', 'c'};
    f.cls = r.pick(classes);
    if (f.cls == 'c' && !allow_char_class_padding) { f.width = 0; f.padkind = 0; }
    f.order = {0, 1, 2, 3, 4, 5, 6, 7};
    for (size_t i = f.order.size(); i > 1; --i) std::swap(f.order[i - 1], f.order[r.below(i)]);
    return f;
}

inline S random_literal(vrt::Rng &r)
{
    static const char *const toks[] = {"", "", "a", "Z", " ", "{{", "}}", "}", "\xC3\xA9", "\xE2\x82\xAC", "\xF0\x9F\x98\x80", "x=", "[", "]", "%d", "\\", "&1", ".", "_", "0"};
    S out;
    for (size_t n = r.below(4); n-- > 0;) out += r.pick(toks);
    return out;
}
// what the literal contributes to the output
inline S literal_output(const S &lit)
{
    S out;
    for (size_t i = 0; i < lit.size(); ++i) {
        if ((lit[i] == '{' || lit[i] == '}') && i + 1 < lit.size() && lit[i + 1] == lit[i]) { out += lit[i]; ++i; }
        else out += lit[i];
    }
    return out;
}

// ---------------------------------------------------------------- typed values and call shapes
struct Values {
    signed char sc; unsigned char uc; short s; unsigned short us; int i; unsigned int u; long l; unsigned long ul; long long ll; unsigned long long ull;
    char c; wchar_t wc; char16_t c16; char32_t c32; char8_t c8; bool b;
    S text, text2;                 // backing storage
    std::wstring wtext; std::u16string u16text; std::u32string u32text; std::u8string u8text;
    // backing buffers of the string_view members: the views are interior sub-ranges, so the unit
    // after a view's end is never a terminator
    S svback; std::wstring wback; std::u16string u16back; std::u32string u32back; std::u8string u8back;
    const char *cstr; ST::string st; std::string ss; std::string_view sv;
    const wchar_t *wstr; const char16_t *u16; const char32_t *u32; const char8_t *u8;
    std::wstring ws; std::u16string s16; std::u32string s32; std::u8string s8;
    std::wstring_view wsv; std::u16string_view sv16; std::u32string_view sv32; std::u8string_view sv8;
};

inline Arg describe(signed char v) { Arg a; a.kind = Arg::SInt; a.s = v; a.type = "signed char"; return a; }
inline Arg describe(short v) { Arg a; a.kind = Arg::SInt; a.s = v; a.type = "short"; return a; }
inline Arg describe(int v) { Arg a; a.kind = Arg::SInt; a.s = v; a.type = "int"; return a; }
inline Arg describe(long v) { Arg a; a.kind = Arg::SInt; a.s = v; a.type = "long"; return a; }
inline Arg describe(long long v) { Arg a; a.kind = Arg::SInt; a.s = v; a.type = "long long"; return a; }
inline Arg describe(unsigned char v) { Arg a; a.kind = Arg::UInt; a.u = v; a.type = "unsigned char"; return a; }
inline Arg describe(unsigned short v) { Arg a; a.kind = Arg::UInt; a.u = v; a.type = "unsigned short"; return a; }
inline Arg describe(unsigned int v) { Arg a; a.kind = Arg::UInt; a.u = v; a.type = "unsigned int"; return a; }
inline Arg describe(unsigned long v) { Arg a; a.kind = Arg::UInt; a.u = v; a.type = "unsigned long"; return a; }
inline Arg describe(unsigned long long v) { Arg a; a.kind = Arg::UInt; a.u = v; a.type = "unsigned long long"; return a; }
inline Arg describe(char v) { Arg a; a.kind = Arg::Char; a.s = v; a.type = "char"; return a; }
inline Arg describe(wchar_t v) { Arg a; a.kind = Arg::WChar; a.s = static_cast<int>(v); a.type = "wchar_t"; return a; }
inline Arg describe(char16_t v) { Arg a; a.kind = Arg::Char16; a.u = v; a.type = "char16_t"; return a; }
inline Arg describe(char32_t v) { Arg a; a.kind = Arg::Char32; a.u = v; a.s = static_cast<int>(v); a.type = "char32_t"; return a; }
inline Arg describe(char8_t v) { Arg a; a.kind = Arg::Char8; a.u = v; a.type = "char8_t"; return a; }
inline Arg describe(bool v) { Arg a; a.kind = Arg::Bool; a.u = v; a.type = "bool"; return a; }
inline Arg text_arg(const S &t, const char *type) { Arg a; a.kind = Arg::Text; a.text = t; a.type = type; return a; }
inline Arg describe(const char *v) { return text_arg(v ? S(v) : S(), "const char*"); }
inline Arg describe(const ST::string &v) { return text_arg(S(v.c_str(), v.size()), "ST::string"); }
inline Arg describe(const std::string &v) { return text_arg(v, "std::string"); }
inline Arg describe(const std::string_view &v) { return text_arg(S(v), "std::string_view"); }
inline Arg describe(const char8_t *v) { return text_arg(S(reinterpret_cast<const char *>(v)), "const char8_t*"); }
inline Arg describe(const std::u8string &v) { return text_arg(S(reinterpret_cast<const char *>(v.data()), v.size()), "std::u8string"); }
inline Arg describe(const std::u8string_view &v) { return text_arg(S(reinterpret_cast<const char *>(v.data()), v.size()), "std::u8string_view"); }
template <typename It> inline S utf8_of(It b, It e) { S o; for (; b != e; ++b) ref::enc_utf8(o, static_cast<unsigned long>(*b)); return o; }
inline S utf8_of16(const std::u16string_view &v)
{
    ref::Decoded d = ref::decode_utf16(v.data(), v.size());
    S o;
    ref::to_utf8(d, false, o);
    return o;
}
inline Arg describe(const wchar_t *v) { std::wstring_view w(v); return text_arg(utf8_of(w.begin(), w.end()), "const wchar_t*"); }
inline Arg describe(const char32_t *v) { std::u32string_view w(v); return text_arg(utf8_of(w.begin(), w.end()), "const char32_t*"); }
inline Arg describe(const char16_t *v) { return text_arg(utf8_of16(v), "const char16_t*"); }
inline Arg describe(const std::wstring &v) { return text_arg(utf8_of(v.begin(), v.end()), "std::wstring"); }
inline Arg describe(const std::u32string &v) { return text_arg(utf8_of(v.begin(), v.end()), "std::u32string"); }
inline Arg describe(const std::u16string &v) { return text_arg(utf8_of16(v), "std::u16string"); }
inline Arg describe(const std::wstring_view &v) { return text_arg(utf8_of(v.begin(), v.end()), "std::wstring_view"); }
inline Arg describe(const std::u32string_view &v) { return text_arg(utf8_of(v.begin(), v.end()), "std::u32string_view"); }
inline Arg describe(const std::u16string_view &v) { return text_arg(utf8_of16(v), "std::u16string_view"); }

// A user-defined argument type whose formatter renders through ST::format itself and forwards the text ("render, then
// pad as a string") - a format call that starts while another one is running on the same thread.
struct Nested {
    long a;
    ST::string b;
};
inline void format_type(const ST::format_spec &format, ST::format_writer &output, const Nested &v)
{
    const ST::string inner = ST::format("<{}:{}>", v.a, v.b);
    ST::format_string(format, output, inner.c_str(), inner.size());
}
inline Arg describe(const Nested &v) { return text_arg("<" + std::to_string(v.a) + ":" + S(v.b.c_str(), v.b.size()) + ">", "Nested (formatter calling ST::format)"); }

template <typename... T> inline std::vector<Arg> describe_all(const T &...a) { return std::vector<Arg>{describe(a)...}; }

static const int NSHAPES = 52;

// Calls `sink(fmt, args...)` with the typed arguments of `shape`; fills *desc.
template <typename Sink>
inline void call_shape(int shape, const Values &v, const char *fmt, std::vector<Arg> *desc, Sink &&sink)
{
#define SH(n, ...)                                                \
    case n:                                                       \
        if (desc) *desc = describe_all(__VA_ARGS__);              \
        sink(fmt __VA_OPT__(, ) __VA_ARGS__);                     \
        return;
    switch (shape) {
        SH(0)
        SH(1, v.i)
        SH(2, v.cstr)
        SH(3, v.st)
        SH(4, v.ul, v.ss)
        SH(5, v.i, v.st, v.ul, v.cstr)
        SH(6, v.ll, v.b, v.c)
        SH(7, v.sv, v.us, v.sc)
        SH(8, v.wstr, v.u16, v.u32)
        SH(9, v.c32, v.wc, v.c16, v.c8)
        SH(10, v.uc, v.s, v.l, v.u)
        SH(11, v.ull, v.ws, v.b)
        SH(12, v.s16, v.s32, v.s8)
        SH(13, v.u8, v.sv8, v.i)
        SH(14, v.wsv, v.sv16, v.sv32)
        SH(15, v.st, v.st)
        SH(16, v.sc)
        SH(17, v.uc)
        SH(18, v.s)
        SH(19, v.us)
        SH(20, v.u)
        SH(21, v.l)
        SH(22, v.ul)
        SH(23, v.ll)
        SH(24, v.ull)
        SH(25, v.c)
        SH(26, v.wc)
        SH(27, v.c16)
        SH(28, v.c32)
        SH(29, v.c8)
        SH(30, v.b)
        SH(31, v.ss)
        SH(32, v.sv)
        SH(33, v.wstr)
        SH(34, v.u16)
        SH(35, v.u32)
        SH(36, v.u8)
        SH(37, v.ws)
        SH(38, v.s16)
        SH(39, v.s32)
        SH(40, v.s8)
        SH(41, v.wsv)
        SH(42, v.sv16)
        SH(43, v.sv32)
        SH(44, v.sv8)
        SH(45, v.cstr, v.i)
        SH(46, v.b, v.ll, v.st)
        SH(47, v.i, v.i, v.i, v.i, v.i)
        SH(48, Nested{v.l, v.st})
        SH(49, v.i, Nested{v.ll, v.st}, v.b)
    case 50: {   // the same non-const lvalue objects passed for two parameters each
        ST::string a = v.st; std::string b = v.ss; std::wstring c = v.ws;
        if (desc) *desc = describe_all(a, a, b, b, c, c);
        sink(fmt, a, a, b, b, c, c);
        return;
    }
    case 51: {   // ... and named rvalue-capable locals mixed with their own copies
        ST::string a = v.st; std::u16string b = v.s16;
        if (desc) *desc = describe_all(a, v.i, a, b, b);
        sink(fmt, a, v.i, a, b, b);
        return;
    }
    // argument lists longer than 8 and 16 (scale phases; outside 0..NSHAPES-1, so the random phases never draw them)
        SH(200, v.i, v.st, v.ul, v.cstr, v.ss, v.sv, v.b, v.ll, v.ws, v.s16, v.c32, v.us, v.sv8, v.s32, v.wsv, v.u, v.sc, v.sv16, v.l, v.c)
        SH(201, v.i, v.l, v.u, v.s, v.ll, v.us, v.sc, v.ul, v.st)
        SH(202, v.i, v.b, v.l, v.ss, v.u, v.s, v.ll, v.us, v.sc, v.ul, v.uc, v.ull, v.sv, v.c16, v.wc, v.i, v.st)
    default: return;
    }
#undef SH
}

inline unsigned long random_cp(vrt::Rng &r)
{
    switch (r.below(5)) {
    case 0: return 0x20 + r.below(0x5f);
    case 1: return 0xA0 + r.below(0x700);
    case 2: { unsigned long c = 0x800 + r.below(0xF7FF); return (c >= 0xD800 && c <= 0xDFFF) ? 0x20AC : c; }
    case 3: return 0x10000 + r.below(0x100000);
    default: return 'a' + r.below(26);
    }
}

inline unsigned long long random_mag(vrt::Rng &r)
{
    switch (r.below(8)) {
    case 0: return 0;
    case 1: return 1 + r.below(9);
    case 2: return r.below(256);
    case 3: return r.next() >> (1 + r.below(63));
    case 4: return ~0ull >> r.below(64);                 // all-ones of every width
    case 5: return 1ull << r.below(64);                  // single bits (type minimums)
    case 6: return r.below(0x110000 + 64);               // around the code point range
    default: return r.next();
    }
}

// fills every member with a random value (texts are valid UTF-8 / UTF-16 / UTF-32)
inline void random_values(vrt::Rng &r, Values &v)
{
    auto mag = [&]() { return random_mag(r); };
    auto sgn = [&](unsigned long long m) { return r.chance(1, 2) ? static_cast<long long>(m) : static_cast<long long>(0ull - m); };
    v.sc = static_cast<signed char>(sgn(mag())); v.uc = static_cast<unsigned char>(mag());
    v.s = static_cast<short>(sgn(mag())); v.us = static_cast<unsigned short>(mag());
    v.i = static_cast<int>(sgn(mag())); v.u = static_cast<unsigned int>(mag());
    v.l = static_cast<long>(sgn(mag())); v.ul = static_cast<unsigned long>(mag());
    v.ll = sgn(mag()); v.ull = mag();
    v.c = static_cast<char>(r.chance(3, 4) ? 0x20 + r.below(0x5f) : r.below(256));
    v.wc = static_cast<wchar_t>(r.chance(3, 4) ? random_cp(r) : static_cast<unsigned long>(sgn(mag())));
    v.c16 = static_cast<char16_t>(r.chance(3, 4) ? (random_cp(r) & 0xFFFF) : mag());
    if (v.c16 >= 0xD800 && v.c16 <= 0xDFFF && r.chance(1, 2)) v.c16 = u'x';
    v.c32 = static_cast<char32_t>(r.chance(3, 4) ? random_cp(r) : mag());
    v.c8 = static_cast<char8_t>(r.chance(3, 4) ? 0x20 + r.below(0x5f) : r.below(256));
    v.b = r.chance(1, 2);
    auto text = [&](size_t maxlen) {
        S t;
        size_t n = r.chance(1, 6) ? 0 : r.below(maxlen);
        for (size_t k = 0; k < n; ++k) ref::enc_utf8(t, r.chance(2, 3) ? 'a' + r.below(26) : random_cp(r));
        return t;
    };
    v.text = text(r.chance(1, 5) ? 40 : 10);
    v.text2 = text(12);
    v.cstr = v.text.c_str();
    v.st = ST::string::from_validated(v.text2.data(), v.text2.size());
    v.ss = text(10);
    v.svback = "<" + v.text + ">tail";
    v.sv = std::string_view(v.svback).substr(1, v.text.size());
    std::u32string w32;
    for (size_t n = r.below(8); n-- > 0;) w32 += static_cast<char32_t>(random_cp(r));
    v.u32text = w32;
    v.wtext.assign(w32.begin(), w32.end());
    v.u16text.clear();
    for (char32_t c : w32) ref::enc_utf16(v.u16text, c);
    S u8t = text(9);
    v.u8text.assign(reinterpret_cast<const char8_t *>(u8t.data()), u8t.size());
    v.wstr = v.wtext.c_str(); v.u16 = v.u16text.c_str(); v.u32 = v.u32text.c_str(); v.u8 = v.u8text.c_str();
    v.ws = v.wtext; v.s16 = v.u16text; v.s32 = v.u32text; v.s8 = v.u8text;
    v.wback = L"<" + v.wtext + L">tail"; v.u16back = u"<" + v.u16text + u">tail"; v.u32back = U"<" + v.u32text + U">tail"; v.u8back = u8"<" + v.u8text + u8">tail";
    v.wsv = std::wstring_view(v.wback).substr(1, v.wtext.size());
    v.sv16 = std::u16string_view(v.u16back).substr(1, v.u16text.size());
    v.sv32 = std::u32string_view(v.u32back).substr(1, v.u32text.size());
    v.sv8 = std::u8string_view(v.u8back).substr(1, v.u8text.size());
}

inline S describe_values(const std::vector<Arg> &args)
{
    S o;
    for (size_t i = 0; i < args.size(); ++i) {
        const Arg &a = args[i];
        if (i) o += ", ";
        o += a.type;
        o += "=";
        switch (a.kind) {
        case Arg::Text: o += "\"" + vrt::hex(a.text.data(), a.text.size(), 1, 40) + "\"(hex)"; break;
        case Arg::Bool: o += a.u ? "true" : "false"; break;
        case Arg::SInt: case Arg::Char: case Arg::WChar: o += vrt::sfmt("%lld", a.s); break;
        default: o += vrt::sfmt("%llu", a.u); break;
        }
    }
    return o;
}

} // namespace fmtref

// ================================================================ scale phases of C10 / C11 / C17 =======================
// Generators for format calls whose format string, arguments, field renderings and pad runs are several KiB to about a
// MiB, with the places where something happens (an escape, a field, a stray brace, a multi-byte character, the end of
// the string, a precision cut, the end of a pad run, U+0000) on or next to multiples of the block sizes a chunked
// scanner / writer / sink is likely to use (rt/gen_scale.h).  The three harnesses feed what is built here to their own,
// unchanged per-input monitors.  Everything is a pure function of the case index and the case's Rng.
#include "gen_scale.h"
#include <algorithm>

namespace fmtref {

// ---- big texts in the members of Values ---------------------------------------------------------------------------
inline void set_texts_narrow(Values &v, const S &t)
{
    v.text = t; v.cstr = v.text.c_str(); v.text2 = t;
    v.st = ST::string::from_validated(t.data(), t.size());
    v.ss = t;
    v.svback = "<" + t + ">tail"; v.sv = std::string_view(v.svback).substr(1, t.size());
}
inline void set_texts_u8(Values &v, const S &t)
{
    v.u8text.assign(reinterpret_cast<const char8_t *>(t.data()), t.size()); v.u8 = v.u8text.c_str(); v.s8 = v.u8text;
    v.u8back = u8"<" + v.u8text + u8">tail"; v.sv8 = std::u8string_view(v.u8back).substr(1, v.u8text.size());
}
inline void set_texts_wide(Values &v, const std::u32string &w32)
{
    v.wtext.assign(w32.begin(), w32.end()); v.wstr = v.wtext.c_str(); v.ws = v.wtext;
    v.wback = L"<" + v.wtext + L">tail"; v.wsv = std::wstring_view(v.wback).substr(1, v.wtext.size());
}
inline void set_texts_u16(Values &v, const std::u32string &w32)
{
    v.u16text.clear();
    for (char32_t c : w32) ref::enc_utf16(v.u16text, c);
    v.u16 = v.u16text.c_str(); v.s16 = v.u16text;
    v.u16back = u"<" + v.u16text + u">tail"; v.sv16 = std::u16string_view(v.u16back).substr(1, v.u16text.size());
}
inline void set_texts_u32(Values &v, const std::u32string &w32)
{
    v.u32text = w32; v.u32 = v.u32text.c_str(); v.s32 = v.u32text;
    v.u32back = U"<" + v.u32text + U">tail"; v.sv32 = std::u32string_view(v.u32back).substr(1, v.u32text.size());
}
inline std::u32string utf32_of(const S &t)          // t is well-formed UTF-8
{
    std::u32string w;
    for (long cp : ref::decode_utf8(t)) w += static_cast<char32_t>(cp);
    return w;
}
// every text member (C strings, sized strings, views; UTF-8, UTF-16, UTF-32, wchar_t) holds the well-formed UTF-8 text t.
// t may contain U+0000: the sized members keep it, the C-string members end there (which describe() models).
inline void set_all_texts(Values &v, const S &t)
{
    const std::u32string w32 = utf32_of(t);
    set_texts_narrow(v, t); set_texts_u8(v, t); set_texts_wide(v, w32); set_texts_u16(v, w32); set_texts_u32(v, w32);
}
// only the members a single-argument text shape passes (a MiB-sized text is not copied into all twenty of them)
inline void set_texts_for_shape(Values &v, int shape, const S &t)
{
    switch (shape) {
    case 2: case 3: case 31: case 32: set_texts_narrow(v, t); break;
    case 36: case 40: case 44: set_texts_u8(v, t); break;
    case 33: case 37: case 41: set_texts_wide(v, utf32_of(t)); break;
    case 34: case 38: case 42: set_texts_u16(v, utf32_of(t)); break;
    case 35: case 39: case 43: set_texts_u32(v, utf32_of(t)); break;
    default: set_all_texts(v, t); break;
    }
}
inline bool sized_text_arg(const Arg &a) { return a.kind == Arg::Text && !strchr(a.type, '*'); }

// ---- text of an exact length with pieces at exact offsets ----------------------------------------------------------
enum Bg { BG_ASCII_CONST, BG_ASCII_RANDOM, BG_TWO, BG_THREE, BG_FOUR, BG_MIXED, BG_HIGH /* not UTF-8 */ };
struct Plant { size_t at; S bytes; };

inline S mb_char(vrt::Rng &r, unsigned width)
{
    static const unsigned long two[] = {0xE9, 0x7FF, 0x80, 0x3A9}, three[] = {0x20AC, 0x800, 0xFFFD, 0xD7FF, 0xE000, 0x4E2D}, four[] = {0x1F600, 0x10000, 0x10FFFF, 0x2070E};
    S s;
    ref::enc_utf8(s, width == 2 ? r.pick(two) : width == 3 ? r.pick(three) : width == 4 ? r.pick(four) : 'm');
    return s;
}
inline int pick_bg(vrt::Rng &r, bool allow_high = false)
{
    static const int w[] = {BG_ASCII_CONST, BG_ASCII_CONST, BG_ASCII_CONST, BG_ASCII_RANDOM, BG_ASCII_RANDOM, BG_TWO, BG_THREE, BG_FOUR, BG_MIXED, BG_MIXED};
    if (allow_high && r.chance(1, 14)) return BG_HIGH;
    return r.pick(w);
}
// exactly `len` bytes of background (never a brace; well-formed UTF-8 unless BG_HIGH) in which every plant that fits
// (in order, not overlapping) starts exactly at its offset - ASCII filler where a background character does not fit in
// front of it.  `plants` is reduced to the ones that were placed.
inline S compose(vrt::Rng &r, size_t len, int bg, std::vector<Plant> &plants)
{
    std::stable_sort(plants.begin(), plants.end(), [](const Plant &a, const Plant &b) { return a.at < b.at; });
    std::vector<Plant> kept;
    size_t busy = 0;
    for (const Plant &p : plants)
        if (p.at >= busy && p.at + p.bytes.size() <= len) { kept.push_back(p); busy = p.at + p.bytes.size(); }
    plants.swap(kept);
    S s;
    s.reserve(len + 8);
    const S c2 = mb_char(r, 2), c3 = mb_char(r, 3), c4 = mb_char(r, 4);
    static const char fillers[] = "ax _0.%&";
    const char a = fillers[r.below(sizeof(fillers) - 1)];
    const char high = r.chance(1, 2) ? '\xFF' : '\x80';
    auto fill = [&](size_t upto) {
        while (s.size() < upto) {
            const size_t left = upto - s.size();
            switch (bg) {
            case BG_ASCII_RANDOM: { static const char al[] = "abcxyzQ 0123456789_.%&\\-+#<>"; s += al[r.below(sizeof(al) - 1)]; break; }
            case BG_TWO: if (left >= 2) s += c2; else s += a; break;
            case BG_THREE: if (left >= 3) s += c3; else s += a; break;
            case BG_FOUR: if (left >= 4) s += c4; else s += a; break;
            case BG_MIXED: {
                const unsigned w = 1 + static_cast<unsigned>(r.below(4));
                if (w == 1 || left < w) s += static_cast<char>('a' + r.below(26));
                else s += w == 2 ? c2 : w == 3 ? c3 : c4;
                break;
            }
            case BG_HIGH: s.append(left, high); break;
            default: s.append(left, a); break;
            }
        }
    };
    for (const Plant &p : plants) { fill(p.at); s += p.bytes; }
    fill(len);
    return s;
}
inline S compose(vrt::Rng &r, size_t len, int bg) { std::vector<Plant> none; return compose(r, len, bg, none); }

// ---- a format string under construction -----------------------------------------------------------------------------
struct ScaleFmt {
    std::vector<S> lits{S()};          // lits.size() == fields.size() + 1
    std::vector<Field> fields;
    std::vector<size_t> starts, ends;  // offsets into text(): where each grid-planted token begins / just behind it
    size_t len = 0;                    // length of text() so far
    void lit(const S &t) { lits.back() += t; len += t.size(); }
    void field(const Field &f) { len += field_text(f).size(); fields.push_back(f); lits.push_back(S()); }
    S text() const
    {
        S o = lits[0];
        for (size_t i = 0; i < fields.size(); ++i) { o += field_text(fields[i]); o += lits[i + 1]; }
        return o;
    }
};
inline Field plain_field(int argref)
{
    Field f;
    f.argref = argref;
    f.order = {0, 1, 2, 3, 4, 5, 6, 7};
    return f;
}
// a short field on argument 1..nargs
inline Field small_field(vrt::Rng &r, size_t nargs)
{
    Field f = random_field(r, false);
    if (f.width > 40) f.width = static_cast<int>(1 + r.below(40));
    f.argref = static_cast<int>(1 + r.below(nargs ? nargs : 1));
    return f;
}

// ---- (1) long literal runs: a token that begins at  q * B - k  from the start of the run / of the string ------------------
enum Tok { TOK_OPEN_ESC, TOK_CLOSE_ESC, TOK_FIELD, TOK_STRAY_CLOSE, TOK_MB2, TOK_MB3, TOK_MB4, TOK_END, N_TOK };
inline const char *tok_name(int t)
{
    static const char *const n[] = {"escape{{", "escape}}", "field", "stray}", "2-byte-character", "3-byte-character", "4-byte-character", "end-of-string"};
    return t >= 0 && t < N_TOK ? n[t] : "other";
}
struct LiteralPlan {
    size_t B, q0, k0;
    int kind;
    uint64_t rot;
};
// the case index walks block size x token kind first (so that every tier visits all of them), then k (bytes of the token
// in front of the multiple) and the multiple q
inline LiteralPlan literal_plan(uint64_t i, int nkinds)
{
    const std::vector<size_t> &BL = scale::blocks();
    LiteralPlan p;
    p.B = BL[i % BL.size()];
    p.kind = static_cast<int>((i / BL.size()) % static_cast<uint64_t>(nkinds));
    p.rot = i / (BL.size() * static_cast<uint64_t>(nkinds));
    p.k0 = p.rot % 4;
    p.q0 = 1 + (p.rot / 4) % 8;
    return p;
}
// run-resetting separator: a field or an escaped brace
inline void emit_separator(vrt::Rng &r, size_t nargs, ScaleFmt &out)
{
    switch (nargs ? r.below(3) : 1 + r.below(2)) {
    case 0: out.field(small_field(r, nargs)); break;
    case 1: out.lit("{{"); break;
    default: out.lit("}}"); break;
    }
}
inline void emit_token(vrt::Rng &r, int kind, size_t nargs, ScaleFmt &out)
{
    switch (kind) {
    case TOK_OPEN_ESC: out.lit("{{"); break;
    case TOK_CLOSE_ESC: out.lit("}}"); break;
    case TOK_FIELD: if (nargs) out.field(small_field(r, nargs)); else out.lit("{{"); break;
    case TOK_STRAY_CLOSE: out.lit("}"); break;
    case TOK_MB2: out.lit(mb_char(r, 2)); break;
    case TOK_MB3: out.lit(mb_char(r, 3)); break;
    case TOK_MB4: out.lit(mb_char(r, 4)); break;
    default: break;
    }
}
inline size_t tok_len(int kind) { return kind == TOK_STRAY_CLOSE ? 1 : kind == TOK_MB3 ? 3 : kind == TOK_MB4 ? 4 : kind == TOK_END ? 0 : 2; }

// A chain of up to four segments "literal run + token"; segment j's token begins q_j * B - k_j bytes behind the point
// distances are measured from: the start of the run (= the end of the previous token / separator) or, for the first
// segment, optionally the start of the string with a run that starts later.  q_j = q0, q0+2, ... (mod 8), k_j = k0, k0+1, ...
// (mod 4), as many as fit under `cap`.  Returns false when not even the first segment fits.  `kind` in 0..N_TOK-1.
inline bool scale_literal_chain(vrt::Rng &r, const LiteralPlan &p, int kind, size_t nargs, size_t cap, bool allow_high, ScaleFmt &out)
{
    if (p.q0 * p.B + 64 > cap) return false;
    const int bg = pick_bg(r, allow_high);
    // prefix: 0 none; 1 run-resetting prefix, measured from the start of the run; 2 short plain prefix (no reset), measured from
    // the start of the string; 3 run-resetting prefix, measured from the start of the string
    static const unsigned modes[] = {0, 0, 1, 1, 2, 3};
    const unsigned mode = r.pick(modes);
    if (mode == 1 || mode == 3) {
        if (r.chance(1, 2)) out.lit(compose(r, 1 + r.below(6), BG_ASCII_RANDOM));
        emit_separator(r, nargs, out);
    } else if (mode == 2) {
        out.lit(r.chance(1, 2) ? compose(r, 1 + r.below(6), BG_ASCII_RANDOM) : mb_char(r, 2 + static_cast<unsigned>(r.below(3))));
    }
    size_t anchor = (mode == 2 || mode == 3) ? 0 : out.len;
    vrt::count(anchor == 0 && out.len != 0 ? "scale.literal.measured_from_start_of_string_behind_a_prefix" : out.len == 0 ? "scale.literal.measured_from_start_of_string" : "scale.literal.measured_from_start_of_run");
    // how many segments fit
    size_t nseg = 0, total = out.len;
    for (size_t j = 0; j < 4; ++j) {
        const size_t q = 1 + (p.q0 - 1 + 2 * j) % 8;
        if (total + q * p.B + 64 > cap) break;
        total += q * p.B + 16;
        ++nseg;
    }
    if (nseg == 0) nseg = 1;
    for (size_t j = 0; j < nseg; ++j) {
        const size_t q = 1 + (p.q0 - 1 + 2 * j) % 8, k = (p.k0 + j) % 4;
        size_t target = anchor + q * p.B - std::min(k, q * p.B);
        if (k == 0 && r.chance(1, 3)) { target += 1 + r.below(2); vrt::count("scale.literal.token_starts_just_behind_a_multiple"); }      // ... or one / two bytes behind the multiple
        while (target < out.len) target += p.B;
        out.lit(compose(r, target - out.len, bg));
        out.starts.push_back(out.len);
        const bool last = j + 1 == nseg;
        int t = kind;
        if (kind == TOK_END && !last) t = static_cast<int>(r.below(3));       // {{, }} or a field stands at the grid offset
        emit_token(r, t, nargs, out);
        out.ends.push_back(out.len);
        if (k > 0 && k < tok_len(t)) vrt::count("scale.literal.token_straddles_a_multiple");
        else if (k == 0 && (out.starts.back() - (out.starts.back() >= anchor ? anchor : 0)) % p.B == 0) vrt::count("scale.literal.token_starts_on_a_multiple");
        else if (k == 0) vrt::count("scale.literal.token_starts_behind_a_multiple");
        else vrt::count("scale.literal.token_ends_on_or_before_a_multiple");
        vrt::count(S("scale.literal.token.") + tok_name(last ? kind : t));
        if (!last && t == TOK_STRAY_CLOSE) { if (r.chance(1, 2)) out.lit("{{"); else out.field(small_field(r, nargs)); }     // (not "}}": "}" + "}}" reads as "}}" + "}")
        else if (!last && (t == TOK_MB2 || t == TOK_MB3 || t == TOK_MB4)) emit_separator(r, nargs, out);
        anchor = out.len;
    }
    if (kind != TOK_END) {
        switch (r.below(4)) {
        case 1: out.lit(compose(r, 1 + r.below(20), r.chance(1, 2) ? BG_ASCII_RANDOM : BG_MIXED)); break;
        case 2: if (out.len + 6000 < cap) out.lit(compose(r, 1000 + r.below(4000), bg)); break;
        default: break;
        }
    }
    vrt::count("scale.literal.cases");
    vrt::count("scale.literal.segments", nseg);
    if (out.len >= 65536) vrt::count("scale.literal.format_string>=64KiB");
    if (out.len >= 262144) vrt::count("scale.literal.format_string>=256KiB");
    return true;
}

// ---- (2) hundreds to tens of thousands of fields in one format string ------------------------------------------------
// Mostly {&N} references (so that any number of fields is well-formed), with sequential {} fields at and behind the
// 255th / 256th / 65536th field: they must still select the next unused argument.  With out_of_range_tail the string
// ends in sequential fields one more than there are arguments (std::out_of_range expected).
inline void scale_many_fields(uint64_t i, vrt::Rng &r, size_t nargs, bool out_of_range_tail, ScaleFmt &out)
{
    static const size_t counts[] = {255, 256, 257, 300, 512, 1000, 1024, 4096, 65535, 65536, 65537, 70000};
    const size_t n = counts[i % 12];
    const unsigned style = static_cast<unsigned>((i / 12) % 4);
    size_t seq = 0;
    for (size_t idx = 0; idx < n; ++idx) {
        Field f = (style == 3 || (style == 2 && r.chance(1, 8))) ? small_field(r, nargs) : plain_field(0);
        if (f.width > 12) f.width = static_cast<int>(1 + r.below(12));
        f.argref = static_cast<int>(1 + (style == 0 ? idx % nargs : r.below(nargs)));
        const bool probe = idx == 254 || idx == 255 || idx == 256 || idx == 65534 || idx == 65535 || idx == 65536 || idx + 1 == n || r.chance(1, 300);
        if (style != 0 && probe && seq < nargs) { f.argref = 0; ++seq; if (idx >= 255) vrt::count("scale.fields.sequential_field_behind_255_others"); }
        out.field(f);
        if (style != 0 && r.chance(1, 3)) out.lit(random_literal(r));
    }
    if (out_of_range_tail) {
        for (; seq <= nargs; ++seq) out.field(plain_field(0));
        vrt::count("scale.fields.sequential_fields_one_more_than_arguments");
    }
    vrt::count("scale.fields.cases");
    if (n > 255) vrt::count("scale.fields.more_than_255_fields");
    if (n > 65535) vrt::count("scale.fields.more_than_65535_fields");
    if (nargs > 8) vrt::count("scale.fields.more_than_8_arguments");
    if (nargs > 16) vrt::count("scale.fields.more_than_16_arguments");
}

// ---- (3) big arguments, big renderings, long pad runs -----------------------------------------------------------------
static const size_t SCALE_MAX_WIDTH = 200000;

struct ArgCase {
    int shape = 3;
    ScaleFmt f;
    S what;
};
inline int pick_text_shape(vrt::Rng &r, bool sized_only, size_t text_len)
{
    static const int sized[] = {3, 31, 32, 37, 38, 39, 40, 41, 42, 43, 44}, pointer[] = {2, 33, 34, 35, 36}, multi[] = {5, 7, 4, 11, 12, 14, 13, 15, 46, 50, 51, 200, 201, 202};
    if (text_len <= 131072 && r.chance(1, 4)) return r.pick(multi);
    if (!sized_only && r.chance(1, 4)) return r.pick(pointer);
    return r.pick(sized);
}
// index (0-based) of a text argument of the shape, a sized one when wanted and there is one
inline size_t pick_text_arg(vrt::Rng &r, const std::vector<Arg> &args, bool want_sized)
{
    std::vector<size_t> sized, any;
    for (size_t k = 0; k < args.size(); ++k)
        if (args[k].kind == Arg::Text) { any.push_back(k); if (sized_text_arg(args[k])) sized.push_back(k); }
    if (want_sized && !sized.empty()) return r.pick(sized);
    return any.empty() ? 0 : r.pick(any);
}
inline void dress_text_field(vrt::Rng &r, Field &f)
{
    static const char aligns[] = {0, 0, '<', '>'};
    f.align = r.pick(aligns);
    switch (r.below(4)) {
    case 0: { static const char pads[] = {'*', '_', '.', '#', 'x', '-', ' ', '0', '~'}; f.padkind = 1; f.padc = r.pick(pads); break; }
    case 1: f.padkind = 2; break;
    default: break;
    }
}

// text arguments of `max_text` bytes at most, precisions of `max_precision` at most, widths of SCALE_MAX_WIDTH at most
inline void scale_arg_case(uint64_t i, vrt::Rng &r, Values &v, ArgCase &c, size_t max_text, size_t max_precision)
{
    static const size_t BA[] = {1000, 1024, 2048, 4096, 8192, 16384, 32768, 49152, 65535, 65536, 131072, 262144, 524288, 1048576};
    const size_t nb = sizeof(BA) / sizeof(BA[0]);
    size_t B = BA[i % nb];
    while (B > max_text) B /= 2;
    const unsigned var = static_cast<unsigned>((i / nb) % 6);
    const uint64_t rot = i / (nb * 6);
    const size_t qmax = std::max<size_t>(1, std::min<size_t>(8, max_text / B));
    const size_t q = 1 + rot % qmax;
    random_values(r, v);
    // (width class, bytes in front of the multiple): every way a character can touch or straddle it, and "nothing"
    // (the ones that leave exactly one byte behind the multiple first: every tier visits those at every block size)
    static const unsigned combos[][2] = {{4, 3}, {3, 2}, {2, 1}, {4, 1}, {4, 2}, {3, 1}, {4, 4}, {3, 3}, {2, 2}, {4, 0}, {3, 0}, {2, 0}, {0, 0}};
    const size_t ncombo = sizeof(combos) / sizeof(combos[0]);
    S text;
    std::vector<Plant> plants;
    Field f = plain_field(0);
    bool nul_planted = false;
    auto finish_text_case = [&](bool want_sized) {
        c.shape = pick_text_shape(r, want_sized, text.size());
        set_texts_for_shape(v, c.shape, text);
        std::vector<Arg> args;
        call_shape(c.shape, v, "", &args, [](const char *, auto &&...) {});
        const size_t idx = pick_text_arg(r, args, want_sized);
        f.argref = (idx == 0 && r.chance(1, 2)) ? 0 : static_cast<int>(idx + 1);
        if (text.size() >= 65536) vrt::count("scale.args.text_argument>=64KiB");
        if (text.size() >= 1000000) vrt::count("scale.args.text_argument>=1MB");
        if (args.size() > 8) vrt::count("scale.args.more_than_8_arguments");
        if (idx < args.size() && !sized_text_arg(args[idx])) vrt::count("scale.args.text_through_a_C_string_argument");
        else if (idx < args.size() && strstr(args[idx].type, "16")) vrt::count("scale.args.text_through_a_UTF-16_argument");
        else if (idx < args.size() && (strstr(args[idx].type, "32") || strstr(args[idx].type, "wstring") || strstr(args[idx].type, "wchar"))) vrt::count("scale.args.text_through_a_UTF-32/wchar_t_argument");
    };
    auto plant_combo = [&](size_t multiple, size_t which) {
        const unsigned w = combos[which][0], k = combos[which][1];
        if (w == 0 || multiple < k) return false;
        plants.push_back(Plant{multiple - k, mb_char(r, w)});
        if (k > 0 && k < w) vrt::count("scale.args.character_straddles_a_multiple");
        return true;
    };
    switch (var) {
    case 0: {   // the whole text goes through: a character touching / straddling q * B, more of them at later multiples
        const size_t which = static_cast<size_t>(rot % ncombo);
        const size_t M = q * B;
        const size_t margin = r.chance(1, 3) ? r.below(40) : r.chance(1, 2) ? 1000 + r.below(70000) : B + static_cast<size_t>(scale::nudge(r) + 9) - 9;
        const size_t L = std::min(M + 4 + margin, max_text + 64);
        const bool primary = plant_combo(M, which);
        if (!primary && r.chance(1, 2)) { plants.push_back(Plant{M - r.below(2), S(1, '\0')}); nul_planted = true; }
        if (r.chance(1, 2))
            for (size_t m = q + 1; m * B + 4 < L; ++m)
                if (r.chance(2, 3)) plant_combo(m * B, (which + m) % ncombo);
        text = compose(r, L, pick_bg(r), plants);
        if (r.chance(1, 5)) f.width = static_cast<int>(1 + r.below(100));
        if (r.chance(1, 5) && L + 1 <= max_precision) f.precision = static_cast<int>(L + r.below(2));
        finish_text_case(nul_planted);
        c.f.lit(r.chance(1, 2) ? "" : "<"); c.f.field(f); c.f.lit(r.chance(1, 2) ? "" : ">");
        vrt::count("scale.args.whole_text");
        c.what = vrt::sfmt("text of %zu bytes, %zu planted pieces, the first at %zu (block %zu x %zu)", L, plants.size(), plants.empty() ? 0 : plants[0].at, B, q);
        break;
    }
    case 1: {   // precision cut at q * B + d
        size_t C = q * B + static_cast<size_t>(scale::nudge(r) + 9) - 9;
        if (C > max_precision) C = (1 + rot % 3) * 65536 + static_cast<size_t>(scale::nudge(r) + 9) - 9;
        if (C > max_precision) C = max_precision;
        const size_t rest = r.chance(1, 3) ? 1 + r.below(64) : r.chance(1, 2) ? 1000 + r.below(70000) : std::min(C, max_text > C ? max_text - C : 1);
        const size_t L = C + std::max<size_t>(rest, 1);
        unsigned feature = static_cast<unsigned>(r.below(8));
        const bool sized = r.chance(4, 5);
        if (!sized && feature >= 1 && feature <= 4) feature += 4;
        if (feature > 7) feature = 7;
        switch (feature) {
        case 1: plants.push_back(Plant{C - 1, S(1, '\0')}); vrt::count("scale.args.NUL_is_the_last_kept_byte"); break;
        case 2: plants.push_back(Plant{C, S(1, '\0')}); vrt::count("scale.args.NUL_is_the_first_cut_byte"); break;
        case 3: plants.push_back(Plant{r.chance(1, 2) ? C / 2 : scale::offset(r, C - 1), S(1, '\0')}); if (r.chance(1, 2)) plants.push_back(Plant{C + r.below(L - C), S(1, '\0')}); vrt::count("scale.args.NUL_inside_the_kept_part"); break;
        case 4: plants.push_back(Plant{L - C > 1 ? C + 1 + r.below(L - C - 1) : C, S(1, '\0')}); vrt::count("scale.args.NUL_inside_the_cut_part"); break;
        case 5: { const S ch = mb_char(r, 2 + static_cast<unsigned>(r.below(3))); if (C >= ch.size()) plants.push_back(Plant{C - ch.size(), ch}); vrt::count("scale.args.character_ends_at_the_cut"); break; }
        case 6: plants.push_back(Plant{C, mb_char(r, 2 + static_cast<unsigned>(r.below(3)))}); vrt::count("scale.args.character_starts_at_the_cut"); break;
        case 7: { const unsigned w = 2 + static_cast<unsigned>(r.below(3)); const size_t k = 1 + r.below(w - 1); if (C >= k) plants.push_back(Plant{C - k, mb_char(r, w)}); vrt::count("scale.args.character_straddles_the_cut"); break; }
        default: break;
        }
        nul_planted = feature >= 1 && feature <= 4;
        text = compose(r, L, pick_bg(r), plants);
        f.precision = static_cast<int>(C);
        if (r.chance(1, 2)) {
            dress_text_field(r, f);
            f.width = static_cast<int>(r.chance(1, 2) ? C + 1 + r.below(300) : 1 + r.below(C));
            if (static_cast<size_t>(f.width) > SCALE_MAX_WIDTH) f.width = static_cast<int>(SCALE_MAX_WIDTH);
        }
        finish_text_case(sized);
        c.f.lit("["); c.f.field(f); c.f.lit("]");
        vrt::count("scale.args.precision_cut");
        if (C >= 4096) vrt::count("scale.args.precision>=4096");
        c.what = vrt::sfmt("text of %zu bytes cut by precision %zu (feature %u), width %d", L, C, feature, f.width);
        break;
    }
    case 2: case 3: {   // pad runs of q * Bp + d bytes behind / in front of a text (2) or a number / bool (3)
        size_t Bp = B > 131072 ? 65536 : B, qp = q;
        while (qp > 1 && qp * Bp + 16 > SCALE_MAX_WIDTH - 64) --qp;
        size_t pad = qp * Bp + static_cast<size_t>(scale::nudge(r) + 9) - 9;
        if (pad + 64 > SCALE_MAX_WIDTH) pad = SCALE_MAX_WIDTH - 64 - r.below(4);
        dress_text_field(r, f);
        if (var == 2) {
            size_t S0 = r.chance(1, 3) ? r.below(100) : r.chance(1, 2) ? scale::length(r, 60000, 1000) : r.below(5000);
            if (S0 + pad > SCALE_MAX_WIDTH) S0 = r.below(50);
            text = compose(r, S0, pick_bg(r));
            f.width = static_cast<int>(S0 + pad);
            finish_text_case(false);
            vrt::count("scale.args.text_with_pad_run");
            c.what = vrt::sfmt("text of %zu bytes padded to width %d (pad run %zu = %zu x %zu + d)", S0, f.width, pad, qp, Bp);
        } else {
            static const int shapes[] = {1, 16, 17, 18, 19, 20, 21, 22, 23, 24, 30, 6, 10, 47, 201, 202, 25, 27};
            c.shape = r.pick(shapes);
            std::vector<Arg> args;
            call_shape(c.shape, v, "", &args, [](const char *, auto &&...) {});
            const size_t idx = r.below(args.size());
            f.argref = (idx == 0 && r.chance(1, 2)) ? 0 : static_cast<int>(idx + 1);
            static const char classes[] = {0, 0, 'd', 'x', 'X', 'o', 'b'};
            f.cls = r.pick(classes);
            f.alt = r.chance(1, 3);
            f.plus = r.chance(1, 3);
            S nat;
            Field bare = f;
            bare.padkind = 0; bare.width = 0;
            render_field(bare, args[idx], nat);
            f.width = static_cast<int>(nat.size() + pad);
            if (static_cast<size_t>(f.width) > SCALE_MAX_WIDTH) f.width = static_cast<int>(SCALE_MAX_WIDTH);
            vrt::count("scale.args.number_with_pad_run");
            c.what = vrt::sfmt("%s padded to width %d (pad run %zu = %zu x %zu + d)", args[idx].type, f.width, pad, qp, Bp);
        }
        for (size_t k = f.order.size(); k > 1; --k) std::swap(f.order[k - 1], f.order[r.below(k)]);
        c.f.lit(r.chance(1, 2) ? "" : "|"); c.f.field(f); c.f.lit(r.chance(1, 2) ? "" : "|");
        if (pad >= 4096) vrt::count("scale.args.pad_run>=4096");
        if (pad >= 65536) vrt::count("scale.args.pad_run>=65536");
        break;
    }
    case 4: {   // lengths exactly on / next to q * B, width and precision next to the length
        const size_t L = std::min<size_t>(q * B + static_cast<size_t>(scale::nudge(r) + 9) - 9, max_text + 64);
        if (r.chance(1, 4)) { plants.push_back(Plant{r.chance(1, 2) ? L - 1 : 0, S(1, '\0')}); nul_planted = true; }
        text = compose(r, L, pick_bg(r), plants);
        if (r.chance(2, 3) && L + 1 <= SCALE_MAX_WIDTH) { dress_text_field(r, f); f.width = static_cast<int>(L + r.below(3)) - 1; if (f.width < 0) f.width = 0; }
        if (r.chance(1, 2) && L + 1 <= max_precision) { f.precision = static_cast<int>(L + r.below(3)) - 1; if (f.precision < 0) f.precision = 0; }
        finish_text_case(nul_planted);
        c.f.lit(r.chance(1, 2) ? "" : "("); c.f.field(f); c.f.lit(r.chance(1, 2) ? "" : ")");
        vrt::count("scale.args.text_of_block_length");
        c.what = vrt::sfmt("text of %zu bytes (block %zu x %zu + d), width %d precision %d", L, B, q, f.width, f.precision);
        break;
    }
    default: {  // a character that touches / straddles q * B counted in bytes of OUTPUT: literal + text + literal
        const size_t which = static_cast<size_t>(rot % (ncombo - 1));
        const unsigned w = combos[which][0], k = combos[which][1];
        const size_t M = q * B;
        const size_t lead = r.chance(1, 2) ? r.below(40) : std::min<size_t>(M / 2, 1000 + r.below(30000));
        const bool in_text = r.chance(1, 2);
        const S ch = mb_char(r, w);
        const int bg = pick_bg(r);
        c.f.lit(compose(r, lead, r.chance(1, 2) ? BG_ASCII_RANDOM : bg));
        if (in_text) {          // the character lies inside the argument
            const size_t at = M - k - lead;
            plants.push_back(Plant{at, ch});
            text = compose(r, at + ch.size() + (r.chance(1, 2) ? r.below(40) : 1000 + r.below(70000)), bg, plants);
            finish_text_case(false);
            c.f.field(f);
            c.f.lit(r.chance(1, 2) ? "" : compose(r, r.below(3000), bg));
        } else {                // ... or in the literal behind it
            const size_t tlen = std::min<size_t>(M - k - lead, r.chance(1, 2) ? 1 + r.below(5000) : (M - k - lead) / 2);
            text = compose(r, tlen, bg);
            finish_text_case(false);
            c.f.field(f);
            c.f.lit(compose(r, M - k - lead - tlen, bg));
            c.f.lit(ch);
            c.f.lit(compose(r, r.chance(1, 2) ? r.below(40) : 1000 + r.below(20000), bg));
        }
        // C-string arguments end at ... nothing here contains U+0000, so every argument kind carries the whole text
        if (k > 0 && k < w) vrt::count("scale.args.character_straddles_a_multiple_of_the_output");
        vrt::count("scale.args.output_offset");
        c.what = vrt::sfmt("literal of %zu bytes + text of %zu bytes + literal: a %u-byte character begins at output offset %zu x %zu - %u (%s)", lead, text.size(), w, B, q, k, in_text ? "inside the argument" : "inside the literal");
        break;
    }
    }
    vrt::count("scale.args.cases");
}

// ---- (4) U+0000 and the precision: sized string arguments (not C strings) are cut to the precision whatever the bytes are
// A short text with one to three U+0000 inside the kept part, at the cut (last kept / first cut byte) or in the cut part.
inline void nul_precision_case(vrt::Rng &r, Values &v, int &shape, ScaleFmt &out)
{
    random_values(r, v);
    const size_t L = 2 + r.below(r.chance(1, 6) ? 300 : 40);
    const size_t C = r.below(L);                       // precision < size: it really cuts
    std::vector<Plant> plants;
    const unsigned where = static_cast<unsigned>(r.below(5));
    switch (where) {
    case 0: if (C >= 1) plants.push_back(Plant{r.below(C), S(1, '\0')}); break;             // kept part
    case 1: if (C >= 1) plants.push_back(Plant{C - 1, S(1, '\0')}); break;                  // last kept byte
    case 2: plants.push_back(Plant{C, S(1, '\0')}); break;                                  // first cut byte
    case 3: plants.push_back(Plant{C + r.below(L - C), S(1, '\0')}); break;                 // cut part
    default: plants.push_back(Plant{0, S(1, '\0')}); if (C >= 2) plants.push_back(Plant{C - 1, S(1, '\0')}); plants.push_back(Plant{L - 1, S(1, '\0')}); break;
    }
    const S text = compose(r, L, r.chance(2, 3) ? BG_ASCII_RANDOM : pick_bg(r), plants);
    static const int shapes[] = {3, 31, 32, 37, 38, 39, 40, 41, 42, 43, 44, 5, 7, 4, 11, 12, 14, 13, 15, 46, 50, 51, 200, 201, 202};
    shape = r.pick(shapes);
    set_all_texts(v, text);
    std::vector<Arg> args;
    call_shape(shape, v, "", &args, [](const char *, auto &&...) {});
    const size_t idx = pick_text_arg(r, args, true);
    Field f = plain_field((idx == 0 && r.chance(1, 2)) ? 0 : static_cast<int>(idx + 1));
    f.precision = static_cast<int>(C);
    if (r.chance(1, 2)) { dress_text_field(r, f); f.width = static_cast<int>(r.chance(1, 2) ? C + 1 + r.below(12) : 1 + r.below(L + 4)); }
    for (size_t k = f.order.size(); k > 1; --k) std::swap(f.order[k - 1], f.order[r.below(k)]);
    out.lit(r.chance(1, 2) ? "[" : ""); out.field(f); out.lit(r.chance(1, 2) ? "]" : "");
    if (idx < args.size() && sized_text_arg(args[idx])) {
        const S &t = args[idx].text;
        const size_t nul = t.find('\0');
        if (t.size() > C && nul != S::npos && nul < C) vrt::count("nul_precision.U+0000_inside_the_kept_part_of_a_sized_string");
        if (t.size() > C && C >= 1 && t[C - 1] == '\0') vrt::count("nul_precision.U+0000_is_the_last_kept_byte");
        if (t.size() > C && t[C] == '\0') vrt::count("nul_precision.U+0000_is_the_first_cut_byte");
        if (t.size() > C && t.find('\0', C) != S::npos) vrt::count("nul_precision.U+0000_inside_the_cut_part");
        if (strstr(args[idx].type, "16") || strstr(args[idx].type, "32") || strstr(args[idx].type, "wstring")) vrt::count("nul_precision.converted_wide_string");
    }
    vrt::count("nul_precision.cases");
}

} // namespace fmtref

// ================================================================ history / placement phases of C10 / C11 / C17 ==========
// "State that survives a call" and "where the data lives" (DESIGN 8.7): user-defined argument types whose formatters call
// back into the library (two and three of them in one call, recursive ones whose nested calls have the argument signature
// of the call that is still running, nested calls that throw and are caught inside the formatter), and the placement of a
// call's format string and text arguments: on the caller's stack right above the library's own frames, behind foreign
// bytes in the same block at every start alignment, in one buffer that is rewritten in place between calls.  The three
// harnesses reach all of it through call_shape_x(), which they call where they used to call call_shape(): their monitors
// are unchanged.  Everything is a pure function of the case index and the case's Rng.
#include <sstream>
#include <cstdio>
#include <cstdlib>
#include <memory>

#ifdef VRT_HAVE_ASAN
// read by every instrumented function on entry: non-zero = put the frame on ASan's heap-like "fake stack"
extern "C" int __asan_option_detect_stack_use_after_return;
#define FMTREF_NO_ASAN __attribute__((no_sanitize_address))
#else
#define FMTREF_NO_ASAN
#endif

namespace fmtref {

// ---- (5) formatters that call back into the library ----------------------------------------------------------------
inline S dec(long v)
{
    const unsigned long long mag = v < 0 ? 0ull - static_cast<unsigned long long>(v) : static_cast<unsigned long long>(v);
    return S(v < 0 ? "-" : "") + digits(mag, 10, false);
}
// the reference rendering of a whole well-formed call (every argument index in range, no padded {c})
inline S ref_render(const std::vector<S> &lits, const std::vector<Field> &fields, const std::vector<Arg> &args)
{
    S out = literal_output(lits[0]);
    size_t seq = 0;
    for (size_t i = 0; i < fields.size(); ++i) {
        const size_t idx = fields[i].argref > 0 ? static_cast<size_t>(fields[i].argref) - 1 : seq++;
        S piece;
        render_field(fields[i], args.at(idx), piece);
        out += piece;
        out += literal_output(lits[i + 1]);
    }
    return out;
}
inline Field mkf(int argref, char align = 0, int padkind = 0, char padc = ' ', int width = 0, int precision = -1, char cls = 0, bool plus = false)
{
    Field f = plain_field(argref);
    f.align = align; f.padkind = padkind; f.padc = padc; f.width = width; f.precision = precision; f.cls = cls; f.plus = plus;
    return f;
}
// the format strings of the nested calls, as data: the formatter passes `text` to the library, the reference renders
// (lits, fields) over the children's reference texts
struct NestFmt {
    std::vector<S> lits;
    std::vector<Field> fields;
    S text, text_bad, text_oor;      // ... + a field the parser rejects / a field whose argument index is out of range
};
static const int NEST_STYLES = 3;
inline const NestFmt &nest_fmt(int kind, int style)
{
    static std::vector<NestFmt> tab[5];
    if (tab[1].empty()) {
        auto add = [&](int k, std::vector<S> lits, std::vector<Field> fields) {
            NestFmt n;
            n.lits = lits; n.fields = fields;
            n.text = lits[0];
            for (size_t i = 0; i < fields.size(); ++i) { n.text += field_text(fields[i]); n.text += lits[i + 1]; }
            n.text_bad = n.text + "{z}";
            n.text_oor = n.text + "{&9}";
            tab[k].push_back(n);
        };
        // one child
        add(1, {"[", "]"}, {mkf(0)});
        add(1, {"", "!"}, {mkf(0, '>', 1, '*', 12)});
        add(1, {"{{", "}}"}, {mkf(0)});
        add(1, {"", "~"}, {mkf(0, 0, 0, ' ', 0, 5)});                      // (style 3: only over ASCII children)
        // two children
        add(2, {"(", " ", ")"}, {mkf(0), mkf(0)});
        add(2, {"", "<-", ""}, {mkf(2), mkf(1)});
        add(2, {"", "", "|"}, {mkf(0), mkf(0, '<', 1, '.', 9)});
        // three children
        add(3, {"<", ",", ",", ">"}, {mkf(0), mkf(0), mkf(0)});
        add(3, {"", ".", ".", ""}, {mkf(3), mkf(1), mkf(2)});
        add(3, {"", "", "", ""}, {mkf(0), mkf(1), mkf(3)});
        // an int, one child, a C string
        add(4, {"", "/", "/", ""}, {mkf(0), mkf(0), mkf(0)});
        add(4, {"", ":", ":", ""}, {mkf(3), mkf(2), mkf(1, 0, 0, ' ', 0, -1, 'x')});
        add(4, {"", "", ""}, {mkf(0, 0, 0, ' ', 0, -1, 0, true), mkf(2)});
    }
    return tab[kind].at(static_cast<size_t>(style));
}

// A recursive user type: the formatter of a node renders its children with ONE nested library call that takes them as
// arguments - with `kind` children that call has exactly the argument signature of an outer call that passes `kind` trees
// (kind 4: an int, a tree, a C string), i.e. the same instantiation of the library's argument machinery is active twice
// (three, four times) on the thread.  The nested call goes through ST::format, ST::format(validation, ...), ST::writef
// into a private stream or ST::printf into a private memory file; with `fail` it is preceded by a call with the same
// arguments whose format string ends in a field that throws (caught inside the formatter).
struct Tree {
    ST::string label;
    long value = 0;
    int kind = 0;            // 0 leaf; 1, 2, 3 children; 4: (int, child, C string)
    int style = 0;
    int mode = 0;            // 0 ST::format, 1 ST::writef(std::ostringstream), 2 ST::printf(memory FILE*), 3 ST::format(ST::substitute_invalid, ...)
    int fail = 0;            // 1: ST::bad_format first, 2: std::out_of_range first
    int i = 0;
    const char *cs = "";
    std::vector<Tree> kids;
};
inline S tree_text(const Tree &t)
{
    if (t.kind == 0) return S(t.label.c_str(), t.label.size()) + "=" + dec(t.value);
    std::vector<Arg> args;
    if (t.kind == 4) { args.push_back(describe(t.i)); args.push_back(text_arg(tree_text(t.kids.at(0)), "Tree")); args.push_back(describe(t.cs)); }
    else for (const Tree &k : t.kids) args.push_back(text_arg(tree_text(k), "Tree"));
    const NestFmt &nf = nest_fmt(t.kind, t.style);
    return ref_render(nf.lits, nf.fields, args);
}
// how many calls with the argument signature of kind k are running on this thread right now
inline int *reent_active() { static int a[5] = {0, 0, 0, 0, 0}; return a; }
struct ActiveSig {
    int k;
    explicit ActiveSig(int kind) : k(kind) { if (k) ++reent_active()[k]; }
    ~ActiveSig() { if (k) --reent_active()[k]; }
};
struct MemFile {
    char *mem = nullptr;
    size_t n = 0;
    FILE *fp;
    MemFile() : fp(open_memstream(&mem, &n)) { if (!fp) { fprintf(stderr, "vrt: open_memstream failed\n"); _exit(98); } }
    S take() { if (fp) { fclose(fp); fp = nullptr; } return S(mem, n); }
    ~MemFile() { if (fp) fclose(fp); free(mem); }
};
// (the arguments are passed on as lvalues, like the harnesses' own sinks do: a nested call over `const Tree &` children
// instantiates the library for <const Tree &...>, as the outer call over `const Tree &` arguments does)
template <typename... A>
inline S nested_call(int mode, const char *f, A &&...a)
{
    switch (mode) {
    case 1: { std::ostringstream os; ST::writef(os, f, a...); static uint64_t &c = vrt::counter("reentrant.nested_call_through_writef"); ++c; return os.str(); }
    case 2: { MemFile m; ST::printf(m.fp, f, a...); static uint64_t &c = vrt::counter("reentrant.nested_call_through_printf"); ++c; return m.take(); }
    case 3: { const ST::string s = ST::format(ST::substitute_invalid, f, a...); return S(s.c_str(), s.size()); }
    default: { const ST::string s = ST::format(f, a...); return S(s.c_str(), s.size()); }
    }
}
template <typename... A>
inline S tree_nested(const Tree &t, const NestFmt &nf, A &&...a)
{
    static uint64_t &calls = vrt::counter("reentrant.nested_calls_of_recursive_formatters");
    static uint64_t &same = vrt::counter("reentrant.nested_call_with_the_signature_of_a_running_call");
    static uint64_t &same3 = vrt::counter("reentrant.nested_call_with_the_signature_of_two_or_more_running_calls");
    static uint64_t &caught = vrt::counter("reentrant.nested_call_threw_and_was_caught_in_the_formatter");
    ++calls;
    if (reent_active()[t.kind] >= 1) ++same;
    if (reent_active()[t.kind] >= 2) ++same3;
    ActiveSig as(t.kind);
    if (t.fail) {
        bool thrown = false;
        try {
            (void)nested_call(t.mode, t.fail == 1 ? nf.text_bad.c_str() : nf.text_oor.c_str(), a...);
        } catch (const ST::bad_format &) { thrown = t.fail == 1;
        } catch (const std::out_of_range &) { thrown = t.fail == 2; }
        if (!thrown) return "<the nested call did not throw>";
        ++caught;
    }
    return nested_call(t.mode, nf.text.c_str(), a...);
}
inline void format_type(const ST::format_spec &format, ST::format_writer &output, const Tree &t)
{
    S inner;
    if (t.kind == 0) {
        if (t.mode == 0) { const ST::string s = ST::format("{}={}", t.label, t.value); inner.assign(s.c_str(), s.size()); }
        else inner = S(t.label.c_str(), t.label.size()) + "=" + dec(t.value);
    } else {
        const NestFmt &nf = nest_fmt(t.kind, t.style);
        switch (t.kind) {
        case 1: inner = tree_nested(t, nf, t.kids.at(0)); break;
        case 2: inner = tree_nested(t, nf, t.kids.at(0), t.kids.at(1)); break;
        case 3: inner = tree_nested(t, nf, t.kids.at(0), t.kids.at(1), t.kids.at(2)); break;
        default: inner = tree_nested(t, nf, t.i, t.kids.at(0), t.cs); break;
        }
    }
    ST::format_string(format, output, inner.c_str(), inner.size());
}
inline Arg describe(const Tree &v) { return text_arg(tree_text(v), "Tree (recursive formatter)"); }

// A formatter whose first nested call throws (caught inside the formatter) and which then carries on with a second one.
struct Catcher {
    long a;
    int what;       // 0: ST::bad_format, 1 and 2: std::out_of_range
};
inline S catcher_text(const Catcher &v) { return S(v.what == 0 ? "bad_format" : "out_of_range") + "(" + dec(v.a) + ")"; }
inline void format_type(const ST::format_spec &format, ST::format_writer &output, const Catcher &v)
{
    S inner;
    try {
        const ST::string s = v.what == 0 ? ST::format("{}{z}", v.a) : v.what == 1 ? ST::format("{}{}", v.a) : ST::format("{&2}", v.a);
        inner = "<the nested call did not throw>";
    } catch (const ST::bad_format &) { inner = "bad_format";
    } catch (const std::out_of_range &) { inner = "out_of_range"; }
    static uint64_t &caught = vrt::counter("reentrant.nested_call_threw_and_was_caught_in_the_formatter");
    ++caught;
    const ST::string t = ST::format("({})", v.a);
    inner.append(t.c_str(), t.size());
    ST::format_string(format, output, inner.c_str(), inner.size());
}
inline Arg describe(const Catcher &v) { return text_arg(catcher_text(v), "Catcher (formatter catching a nested failure)"); }

// the values of these types for the current case (the harnesses are single-threaded)
struct Reent {
    Nested n1{0, ST::string()}, n2{0, ST::string()}, n3{0, ST::string()};
    Tree t1, t2, t3, tm;
    Catcher c1{0, 0}, c2{0, 1};
};
inline Reent *&reent_slot() { static Reent own; static Reent *p = &own; return p; }
inline Reent &reent() { return *reent_slot(); }
// makes *x the current values for a scope (a prepared call that is executed again later keeps its own)
struct ReentScope {
    Reent *saved;
    explicit ReentScope(Reent *x) : saved(reent_slot()) { reent_slot() = x; }
    ~ReentScope() { reent_slot() = saved; }
    ReentScope(const ReentScope &) = delete;
    ReentScope &operator=(const ReentScope &) = delete;
};

inline bool all_ascii(const S &s)
{
    for (unsigned char c : s) if (c & 0x80) return false;
    return true;
}
inline S reent_label(vrt::Rng &r)
{
    S t;
    const size_t n = r.chance(1, 10) ? 40 + r.below(140) : r.below(9);
    const bool plain = r.chance(1, 2);
    for (size_t k = 0; k < n; ++k) ref::enc_utf8(t, (plain || r.chance(3, 4)) ? 'a' + r.below(26) : random_cp(r));
    return t;
}
inline Tree random_tree(vrt::Rng &r, int depth, int main_kind)
{
    static const char *const strs[] = {"", "x", "caf\xC3\xA9", "a C string argument of the nested call", "\xF0\x9F\x98\x80"};
    Tree t;
    const S lab = reent_label(r);
    t.label = ST::string::from_validated(lab.data(), lab.size());
    const unsigned long long m = random_mag(r);
    t.value = static_cast<long>(r.chance(1, 2) ? m : 0ull - m);
    t.mode = r.chance(1, 2) ? 0 : static_cast<int>(r.below(4));
    t.i = static_cast<int>(random_mag(r));
    t.cs = r.pick(strs);
    if (depth <= 1) return t;
    t.kind = r.chance(3, 4) ? main_kind : 1 + static_cast<int>(r.below(4));
    const int nk = t.kind == 4 ? 1 : t.kind;
    bool ascii_kids = true;
    for (int k = 0; k < nk; ++k) {
        t.kids.push_back(random_tree(r, depth - 1 - (depth > 2 && r.chance(1, 5) ? 1 : 0), main_kind));
        if (!all_ascii(tree_text(t.kids.back()))) ascii_kids = false;
    }
    t.style = static_cast<int>(r.below(t.kind == 1 ? NEST_STYLES + 1 : NEST_STYLES));
    if (t.kind == 1 && t.style == 3 && !ascii_kids) t.style = 0;          // a precision never cuts inside a character here
    t.fail = r.chance(1, 5) ? 1 + static_cast<int>(r.below(2)) : 0;
    return t;
}
inline size_t tree_depth(const Tree &t)
{
    size_t d = 0;
    for (const Tree &k : t.kids) d = std::max(d, tree_depth(k));
    return d + 1;
}

// call shapes with such arguments
static const int REENT_SHAPES[] = {300, 301, 302, 303, 304, 305, 306, 307, 308, 48, 49};
static const int N_REENT_SHAPES = 11;
inline void random_reent(vrt::Rng &r, int shape)
{
    Reent &x = reent();
    auto nested = [&](Nested &n) {
        const S b = reent_label(r);
        n.a = static_cast<long>(random_mag(r));
        n.b = ST::string::from_validated(b.data(), b.size());
    };
    nested(x.n1); nested(x.n2); nested(x.n3);
    const int main_kind = shape == 302 ? 1 : shape == 303 ? 2 : shape == 304 ? 3 : shape == 305 ? 4 : 1 + static_cast<int>(r.below(4));
    auto depth = [&]() { return 2 + static_cast<int>(r.below(3)); };
    x.t1 = random_tree(r, depth(), main_kind);
    x.t2 = random_tree(r, depth(), main_kind);
    x.t3 = random_tree(r, r.chance(1, 4) ? 1 : depth(), main_kind);
    x.tm = random_tree(r, depth(), 4);
    x.c1 = Catcher{static_cast<long>(random_mag(r)), static_cast<int>(r.below(3))};
    x.c2 = Catcher{-static_cast<long>(r.below(100000)), static_cast<int>(r.below(3))};
    const size_t d = std::max(std::max(tree_depth(x.t1), tree_depth(x.t2)), std::max(tree_depth(x.t3), tree_depth(x.tm)));
    if (d >= 4) vrt::count("reentrant.values_with_a_tree_of_depth_4");
}

// call_shape() plus the shapes 300.. (arguments from reent())
template <typename Sink>
inline void call_shape_r(int shape, const Values &v, const char *fmt, std::vector<Arg> *desc, Sink &&sink)
{
    const Reent &x = reent();
#define SHX(n, kind, ...)                                         \
    case n:                                                       \
        if (desc) *desc = describe_all(__VA_ARGS__);              \
        { ActiveSig running(kind); sink(fmt, __VA_ARGS__); }      \
        return;
    switch (shape) {
        SHX(300, 0, x.n1, x.n2)
        SHX(301, 0, x.n1, v.i, x.n2, x.n3)
        SHX(302, 1, x.t1)
        SHX(303, 2, x.t1, x.t2)
        SHX(304, 3, x.t1, x.t2, x.t3)
        SHX(305, 4, v.i, x.tm, v.cstr)
        SHX(306, 0, x.c1, v.i)
        SHX(307, 0, v.cstr, x.c1, x.n1, v.st, x.t1, v.l)
        SHX(308, 0, x.t1, v.i, x.c2, x.t2)
    default: call_shape(shape, v, fmt, desc, sink); return;
    }
#undef SHX
}

// A format call over such arguments: 1..7 fields that select the arguments sequentially and by &N (so that a nested
// formatter runs two, three and more times in one call, and other fields follow it), literals with escapes in between.
// Text that is not ASCII is never cut by a precision (the nested formatters' texts are Text arguments for the reference).
inline void reentrant_case(vrt::Rng &r, Values &v, int &shape, ScaleFmt &out)
{
    random_values(r, v);
    shape = r.pick(REENT_SHAPES);
    random_reent(r, shape);
    std::vector<Arg> args;
    call_shape_r(shape, v, "", &args, [](const char *, auto &&...) {});
    const size_t nf = 1 + r.below(r.chance(1, 4) ? 7 : 4);
    size_t seq = 0;
    out.lit(random_literal(r));
    for (size_t k = 0; k < nf; ++k) {
        Field f = random_field(r, false);
        if (f.width > 40 && r.chance(3, 4)) f.width = static_cast<int>(1 + r.below(40));
        if (seq >= args.size() || r.chance(1, 3)) f.argref = static_cast<int>(1 + r.below(args.size()));
        const size_t idx = f.argref ? static_cast<size_t>(f.argref - 1) : seq++;
        if (args[idx].kind == Arg::Text && !all_ascii(args[idx].text)) f.precision = -1;
        if (args[idx].kind == Arg::Char8 && f.cls == 'c' && args[idx].u >= 0x80) f.cls = 0;
        out.field(f);
        out.lit(random_literal(r));
    }
    // the last field is not a nested one now and then: something the call still has to do after the last nested call returned
    vrt::count("reentrant.cases");
    vrt::count(vrt::sfmt("reentrant.shape.%d", shape));
}

// ---- (6) where the format string and the text arguments of a call live ------------------------------------------------------
struct Placement {
    int mode = 0;               // 0 as passed (exact-size heap blocks of the monitors); 1 caller's stack; 2 behind a prefix in the same block; 3 one buffer rewritten in place
    // mode 1
    size_t slot = 256;          // bytes per local array
    int depth = 0;              // trivial frames between the arrays and the call
    unsigned rot = 0;           // which array is the lowest one (the one next to the callee's frame)
    // mode 2
    S prefix;                   // the bytes directly in front of the format string
    size_t align = 0;           // address of the format string modulo 16 (modes 2 and 3)
    bool fill_with_prefix = false;
    // mode 3
    char *pbase = nullptr;
    size_t plen = 0, poff = 0;
};
inline Placement &placement() { static Placement p; return p; }
// resets the plan when the case is left (also by an exception)
struct PlacementScope {
    PlacementScope() { end(); }
    ~PlacementScope() { end(); }
    static void end()
    {
        Placement &p = placement();
        free(p.pbase);
        p = Placement();
    }
};

struct StackNote {
    const char *lowest = nullptr;       // start of the lowest local array that holds something
    const char *fmt = nullptr;          // the format string's array (nullptr: it did not fit)
};
inline StackNote &stack_note() { static StackNote n; return n; }
inline void stack_note_callee(const void *frame)
{
    StackNote &n = stack_note();
    auto bucket = [&](const char *what, const char *p) {
        if (!p) return;
        const ptrdiff_t d = p - static_cast<const char *>(frame);
        const char *b = d < 0 ? "below" : d < 512 ? "<512" : d < 1024 ? "<1024" : d < 2048 ? "<2048" : d < 4096 ? "<4096" : d < 16384 ? "<16384" : ">=16384";
        vrt::count(vrt::sfmt("stack.%s_bytes_above_the_frame_that_calls_the_library:%s", what, b));
        if (d >= 0 && d < 4096) vrt::count(vrt::sfmt("stack.%s_less_than_4096_bytes_above_the_call", what));
    };
    bucket("lowest_array", n.lowest);
    bucket("format_string", n.fmt);
}
struct RealStackScope {        // the frames of the library (and of everything else) entered inside go on the real stack
    int saved = 0;
    RealStackScope()
    {
#ifdef VRT_HAVE_ASAN
        saved = __asan_option_detect_stack_use_after_return;
        __asan_option_detect_stack_use_after_return = 0;
#endif
    }
    ~RealStackScope()
    {
#ifdef VRT_HAVE_ASAN
        __asan_option_detect_stack_use_after_return = saved;
#endif
    }
};
template <typename F>
__attribute__((noinline)) FMTREF_NO_ASAN void stack_descend(int depth, F &f)
{
    volatile char filler[40];
    filler[0] = static_cast<char>(depth);
    if (depth > 0) stack_descend(depth - 1, f);
    else f();
    filler[1] = filler[0];
}
// The caller's-stack placement: the format string and every pointer / view argument whose text fits are copied into local
// arrays of this function (not instrumented: its locals are on the machine stack, with nothing between them), and the call
// is made from here through `depth` trivial frames.  While it runs ASan's fake stack is switched off, so the library's
// own frames - ST::format's output stream with its in-object buffer - lie on the same stack right below these arrays,
// which is where they are in a program that is not built with the use-after-return detector.
template <typename Sink>
__attribute__((noinline)) FMTREF_NO_ASAN void call_on_stack(int shape, const Values &v, const char *fmt, Sink &sink, const Placement &pl)
{
    enum { K = 11 };
    const size_t slot = (pl.slot + 15) & ~static_cast<size_t>(15);
    char *pool = static_cast<char *>(__builtin_alloca(K * slot + 16));
    pool += (16 - reinterpret_cast<uintptr_t>(pool) % 16) % 16;
    Values w(v);
    StackNote &sn = stack_note();
    sn.lowest = nullptr; sn.fmt = nullptr;
    unsigned j = pl.rot;
    auto take = [&]() -> char * {
        char *p = pool + (j++ % K) * slot;
        if (!sn.lowest || p < sn.lowest) sn.lowest = p;
        return p;
    };
    // a C string of n units (terminator included in the copy) / a view of n units (a non-zero unit behind it)
    auto cstr = [&](auto *&member) {
        typedef std::remove_cv_t<std::remove_reference_t<decltype(*member)>> T;
        if (!member) return;
        const size_t n = std::char_traits<T>::length(member);
        if ((n + 1) * sizeof(T) > slot) return;
        T *p = reinterpret_cast<T *>(take());
        memcpy(p, member, (n + 1) * sizeof(T));
        member = p;
    };
    auto view = [&](auto &member) {
        typedef typename std::remove_reference_t<decltype(member)>::value_type T;
        const size_t n = member.size();
        if ((n + 1) * sizeof(T) > slot) return;
        T *p = reinterpret_cast<T *>(take());
        if (n) memcpy(p, member.data(), n * sizeof(T));
        p[n] = static_cast<T>('>');
        member = std::remove_reference_t<decltype(member)>(p, n);
    };
    const char *f = fmt;
    const size_t flen = strlen(fmt);
    // (the rotation decides which of them gets the lowest array)
    for (unsigned turn = 0; turn < 11; ++turn) {
        switch ((turn + pl.rot) % 11) {
        case 0: if (flen + 1 <= slot) { char *p = take(); memcpy(p, fmt, flen + 1); f = p; sn.fmt = p; } break;
        case 1: cstr(w.cstr); break;
        case 2: view(w.sv); break;
        case 3: cstr(w.u8); break;
        case 4: view(w.sv8); break;
        case 5: cstr(w.u16); break;
        case 6: view(w.sv16); break;
        case 7: cstr(w.wstr); break;
        case 8: view(w.wsv); break;
        case 9: cstr(w.u32); break;
        default: view(w.sv32); break;
        }
    }
    RealStackScope real_stack;
    auto noted = [&](const char *fs, auto &&...a) {
        stack_note_callee(__builtin_frame_address(0));
        sink(fs, a...);
    };
    auto go = [&]() { call_shape_r(shape, w, f, nullptr, noted); };
    static uint64_t &calls = vrt::counter("stack.calls_with_format_string_and_arguments_in_the_caller's_frame");
    ++calls;
    stack_descend(pl.depth, go);
}

// a block that ends with the format string's terminator and holds `prefix` directly in front of the string
struct PrefixedFmt {
    char *base;
    const char *str;
    PrefixedFmt(const Placement &pl, const char *fmt)
    {
        const size_t len = strlen(fmt);
        size_t off = pl.prefix.size();
        while (off % 16 != pl.align % 16) ++off;
        base = static_cast<char *>(malloc(off + len + 1));
        if (!base) { fprintf(stderr, "vrt: out of memory\n"); _exit(98); }
        // (the slack in front of the prefix: a neutral byte, or the prefix over and over, ending where the prefix begins)
        const size_t ps = pl.prefix.size();
        for (size_t k = 0; k < off; ++k) base[k] = (pl.fill_with_prefix && ps) ? pl.prefix[(ps - (off - k) % ps) % ps] : '~';
        memcpy(base + off - ps, pl.prefix.data(), ps);
        memcpy(base + off, fmt, len + 1);
        str = base + off;
    }
    ~PrefixedFmt() { free(base); }
    PrefixedFmt(const PrefixedFmt &) = delete;
    PrefixedFmt &operator=(const PrefixedFmt &) = delete;
};

// What the harnesses call instead of call_shape(): the same call, with the format string (and for the stack placement the
// arguments) where the current plan puts them.  Describe-only calls and null format strings pass through.
template <typename Sink>
inline void call_shape_x(int shape, const Values &v, const char *fmt, std::vector<Arg> *desc, Sink &&sink)
{
    Placement &pl = placement();
    if (!fmt || desc || pl.mode == 0) { call_shape_r(shape, v, fmt, desc, sink); return; }
    if (pl.mode == 1) { call_on_stack(shape, v, fmt, sink, pl); return; }
    if (pl.mode == 2) {
        PrefixedFmt b(pl, fmt);
        static uint64_t &c = vrt::counter("alignment.calls_with_a_format_string_behind_foreign_bytes");
        ++c;
        call_shape_r(shape, v, b.str, nullptr, sink);
        return;
    }
    // mode 3: one buffer per length, rewritten in place (the block ends with the terminator)
    const size_t len = strlen(fmt);
    if (!pl.pbase || pl.plen != len || pl.poff != pl.align % 16) {
        free(pl.pbase);
        pl.poff = pl.align % 16;
        pl.plen = len;
        pl.pbase = static_cast<char *>(malloc(pl.poff + len + 1));
        if (!pl.pbase) { fprintf(stderr, "vrt: out of memory\n"); _exit(98); }
        memset(pl.pbase, '~', pl.poff);
        pl.pbase[pl.poff] = 0;
        vrt::count("same_storage.format_string_buffers");
    }
    if (memcmp(pl.pbase + pl.poff, fmt, len + 1) != 0) {
        if (pl.pbase[pl.poff]) vrt::count("same_storage.format_string_rewritten_in_place");
        memcpy(pl.pbase + pl.poff, fmt, len + 1);
    }
    call_shape_r(shape, v, pl.pbase + pl.poff, nullptr, sink);
}

} // namespace fmtref

namespace fmtref {

// ---- (7) generators for the placement / history phases ---------------------------------------------------------------------
inline void append_fmt(ScaleFmt &a, const ScaleFmt &b)
{
    a.lits.back() += b.lits[0];
    for (size_t i = 0; i < b.fields.size(); ++i) { a.fields.push_back(b.fields[i]); a.lits.push_back(b.lits[i + 1]); }
    a.len += b.len;
}
// Appends fields, brace escapes, multi-byte characters and plain bytes until the format string is exactly `target` bytes
// long.  for_sinks: nothing C17's sink rules would have to rewrite (no precision, no {c}).  Sequential fields are used while
// there are arguments left (and one in `oor` times beyond that: std::out_of_range).
inline void token_fill(vrt::Rng &r, size_t nargs, size_t target, bool for_sinks, unsigned oor, ScaleFmt &out)
{
    size_t seq = 0;
    for (const Field &f : out.fields) if (!f.argref) ++seq;
    static const char plain[] = "abcxyzQ 0123456789_.%&\\-+#<>=:";
    while (out.len < target) {
        const size_t left = target - out.len;
        const unsigned what = static_cast<unsigned>(r.below(8));
        if (what == 0 && nargs) {
            Field f = small_field(r, nargs);
            if (for_sinks) { f.precision = -1; if (f.cls == 'c') f.cls = 'd'; }
            if ((seq < nargs && r.chance(1, 2)) || (oor && r.below(oor) == 0)) f.argref = 0;
            if (field_text(f).size() <= left) { if (!f.argref) ++seq; out.field(f); continue; }
        }
        if (what == 1 && left >= 2) { out.lit(r.chance(1, 2) ? "{{" : "}}"); continue; }
        if (what == 2 && left >= 4) { out.lit(mb_char(r, 2 + static_cast<unsigned>(r.below(3)))); continue; }
        if (what == 3 && left >= 2 && nargs && seq < nargs) { out.field(plain_field(0)); ++seq; continue; }
        out.lit(S(1, plain[r.below(sizeof(plain) - 1)]));
    }
}

// K format strings of exactly L bytes (L >= 33) that share their first 16 and last 16 bytes and differ in between: other
// fields, other escapes, other characters
inline void same_storage_formats(vrt::Rng &r, size_t nargs, size_t L, size_t K, bool for_sinks, std::vector<ScaleFmt> &out)
{
    ScaleFmt head, tail;
    token_fill(r, nargs, 16, for_sinks, 0, head);
    token_fill(r, nargs, 16, for_sinks, 0, tail);
    for (Field &f : tail.fields) if (!f.argref) f.argref = static_cast<int>(1 + r.below(nargs));     // (what a sequential field selects depends on the middle)
    out.clear();
    for (size_t k = 0; k < K; ++k) {
        ScaleFmt f;
        append_fmt(f, head);
        token_fill(r, nargs, L - 16, for_sinks, 12, f);
        append_fmt(f, tail);
        out.push_back(f);
    }
}
// K texts of exactly n bytes (well-formed UTF-8) that share their first and last 16 bytes (8 when n < 40) and differ in
// between: ASCII only, two-, three-, four-byte characters, mixed
inline void same_storage_texts(vrt::Rng &r, size_t n, size_t K, std::vector<S> &out)
{
    const size_t e = n >= 40 ? 16 : n >= 20 ? 8 : n / 3;
    const S head = compose(r, e, r.chance(1, 2) ? BG_ASCII_RANDOM : BG_MIXED), tail = compose(r, e, r.chance(1, 2) ? BG_ASCII_RANDOM : BG_MIXED);
    static const int bgs[] = {BG_ASCII_RANDOM, BG_TWO, BG_MIXED, BG_THREE, BG_ASCII_CONST, BG_FOUR, BG_MIXED};
    out.clear();
    const unsigned first = static_cast<unsigned>(r.below(7));
    for (size_t k = 0; k < K; ++k) out.push_back(head + compose(r, n - 2 * e, bgs[(first + k) % 7]) + tail);
}

// Text arguments in caller-side storage that is rewritten in place: one malloc'ed block per argument form (C string with its
// terminator, view without one; UTF-8, char8_t, UTF-16, UTF-32 / wchar_t), the text ends where the block ends, `align` bytes
// (whole units) of slack in front.  set() overwrites the blocks whose size is unchanged and replaces the others.
struct CallerTexts {
    enum { NB = 10 };
    void *block[NB];
    size_t bytes[NB];
    uint64_t rewritten = 0;
    CallerTexts() { for (int k = 0; k < NB; ++k) { block[k] = nullptr; bytes[k] = 0; } }
    ~CallerTexts() { for (int k = 0; k < NB; ++k) free(block[k]); }
    CallerTexts(const CallerTexts &) = delete;
    CallerTexts &operator=(const CallerTexts &) = delete;
    template <typename T>
    const T *put(int k, const T *src, size_t n, bool nul, size_t align)
    {
        const size_t shift = align % (16 / sizeof(T));
        const size_t want = (shift + n + (nul ? 1 : 0)) * sizeof(T);
        if (block[k] && bytes[k] == want) ++rewritten;
        else {
            free(block[k]);
            block[k] = malloc(want ? want : 1);
            if (!block[k]) { fprintf(stderr, "vrt: out of memory\n"); _exit(98); }
            bytes[k] = want;
            for (size_t q = 0; q < shift; ++q) static_cast<T *>(block[k])[q] = static_cast<T>('~');
        }
        T *p = static_cast<T *>(block[k]) + shift;
        if (n) memcpy(p, src, n * sizeof(T));
        if (nul) p[n] = T();
        return p;
    }
    // every text member of v holds t (well-formed UTF-8 without U+0000); the pointer / view members point into the blocks
    void set(Values &v, const S &t, size_t align)
    {
        const uint64_t before = rewritten;
        set_all_texts(v, t);
        v.cstr = put(0, t.data(), t.size(), true, align);
        v.sv = std::string_view(put(1, t.data(), t.size(), false, align), t.size());
        v.u8 = put(2, v.u8text.data(), v.u8text.size(), true, align);
        v.sv8 = std::u8string_view(put(3, v.u8text.data(), v.u8text.size(), false, align), v.u8text.size());
        v.u16 = put(4, v.u16text.data(), v.u16text.size(), true, align);
        v.sv16 = std::u16string_view(put(5, v.u16text.data(), v.u16text.size(), false, align), v.u16text.size());
        v.wstr = put(6, v.wtext.data(), v.wtext.size(), true, align);
        v.wsv = std::wstring_view(put(7, v.wtext.data(), v.wtext.size(), false, align), v.wtext.size());
        v.u32 = put(8, v.u32text.data(), v.u32text.size(), true, align);
        v.sv32 = std::u32string_view(put(9, v.u32text.data(), v.u32text.size(), false, align), v.u32text.size());
        if (rewritten != before) vrt::count("same_storage.argument_buffers_rewritten_in_place", rewritten - before);
    }
};
// the successor of the ST::string argument: the old one (moved into `prev` by the caller) is released and the new one (same
// size) built right away with every release parked, so that its heap block lands where the old one was (best effort; counted)
inline void succeed_st(Values &v, ST::string &prev, const S &t)
{
    const char *old = prev.size() >= 16 ? prev.c_str() : nullptr;
    const size_t old_size = prev.size();
    v.st = ST::string();
    vrt::placement_force_parks() = 4;
    prev = ST::string();
    v.st = ST::string::from_validated(t.data(), t.size());
    vrt::placement_force_parks() = 0;
    if (old && old_size == t.size()) {
        vrt::count("same_storage.ST::string_successors_of_the_same_size");
        if (v.st.c_str() == old) vrt::count("same_storage.ST::string_heap_block_at_the_address_of_its_predecessor");
    }
}

// shapes that pass text through a pointer or a view
static const int POINTER_TEXT_SHAPES[] = {2, 32, 45, 7, 5, 2, 32, 36, 44, 13, 34, 42, 33, 41, 35, 43, 8, 14, 200, 202};
inline bool pointer_text_arg(const Arg &a) { return a.kind == Arg::Text && (strchr(a.type, '*') || strstr(a.type, "view")); }

// A call whose format string and pointer / view arguments go on the caller's stack (Placement mode 1), built so that ONE
// append - a text argument or a literal run of P bytes - takes the output from B <= C to more than C bytes, C one of the
// capacities an output buffer that starts at 256 bytes and doubles goes through.
inline void stack_case(uint64_t i, vrt::Rng &r, Values &v, int &shape, ScaleFmt &out, Placement &pl, bool for_sinks)
{
    static const size_t slots[] = {64, 256, 1024, 4096, 8192};
    static const size_t caps[] = {256, 256, 256, 512, 256, 1024, 2048, 256, 4096, 8192};
    pl.mode = 1;
    pl.slot = slots[i % 5];
    pl.depth = static_cast<int>((i / 5) % 4);
    pl.rot = static_cast<unsigned>(r.below(11));
    const size_t C = caps[(i / 20) % 10];
    random_values(r, v);
    const unsigned piece_kind = static_cast<unsigned>(r.below(6));        // 0..2 a text argument, 3..4 a literal run (arrays of 256 bytes and more), 5 the digits of a number
    const bool literal_piece = (piece_kind == 3 || piece_kind == 4) && pl.slot >= 256;
    const bool number_piece = piece_kind == 5;
    static const int number_shapes[] = {5, 45, 13, 7, 200, 202};
    shape = number_piece ? r.pick(number_shapes) : r.pick(POINTER_TEXT_SHAPES);
    const bool wide = shape == 34 || shape == 42 || shape == 33 || shape == 41 || shape == 35 || shape == 43 || shape == 8 || shape == 14;
    std::vector<Arg> args;
    call_shape(shape, v, "", &args, [](const char *, auto &&...) {});
    // the piece: at most what fits an array (a wide argument: its units)
    const size_t pmax = literal_piece ? pl.slot - 40 : wide ? pl.slot / 4 - 1 : pl.slot - 1;
    size_t P = r.chance(1, 2) ? pmax - r.below(pmax / 4 + 1) : 1 + r.below(pmax);
    if (r.chance(1, 6)) P = pmax + 1 + r.below(64);                       // ... or just too big for it (stays in the heap)
    Field number_field = plain_field(0);
    if (number_piece) {
        std::vector<size_t> ints;
        for (size_t k = 0; k < args.size(); ++k) if (args[k].kind == Arg::SInt || args[k].kind == Arg::UInt) ints.push_back(k);
        static const char classes[] = {0, 'd', 'x', 'X', 'o', 'b', 'b'};
        number_field = mkf(static_cast<int>(r.pick(ints) + 1), 0, 0, ' ', 0, -1, r.pick(classes), r.chance(1, 3));
        number_field.alt = r.chance(1, 3);
        S digits_text;
        render_field(number_field, args[static_cast<size_t>(number_field.argref - 1)], digits_text);
        P = digits_text.size();
    }
    const size_t dmax = std::min(P - 1, C > 256 ? C / 2 - 1 : C);
    const size_t d = r.chance(1, 3) ? 0 : r.chance(1, 2) ? std::min<size_t>(dmax, 1 + r.below(8)) : r.below(dmax + 1);
    const size_t B = C - d;
    const S piece = number_piece ? S() : compose(r, P, (wide || r.chance(1, 2)) ? BG_ASCII_RANDOM : pick_bg(r));
    if (literal_piece || number_piece) set_all_texts(v, compose(r, r.below(12), BG_ASCII_RANDOM));
    else set_all_texts(v, piece);
    call_shape(shape, v, "", &args, [](const char *, auto &&...) {});
    std::vector<size_t> ptr_args;
    for (size_t k = 0; k < args.size(); ++k) if (pointer_text_arg(args[k])) ptr_args.push_back(k);
    const size_t tidx = ptr_args.empty() ? pick_text_arg(r, args, false) : r.pick(ptr_args);
    // B bytes of output first: a literal, or a field that is all padding (the text argument cut to nothing)
    const bool lead_by_field = literal_piece || r.chance(1, 2) || B + 16 > pl.slot;
    if (lead_by_field) {
        static const char pads[] = {'*', '.', ' ', '-', '0'};
        out.field(mkf(static_cast<int>(tidx + 1), r.chance(1, 2) ? '<' : '>', 1, r.pick(pads), static_cast<int>(B), 0));
        if (B == 0) out.fields.back().width = 0, out.fields.back().padkind = 0;
    } else out.lit(compose(r, B, r.chance(1, 2) ? BG_ASCII_RANDOM : BG_MIXED));
    if (literal_piece) {
        if (r.chance(1, 3)) { out.lit(r.chance(1, 2) ? "{{" : "}}"); }   // (one more byte in front: the run begins behind an escape)
        out.lit(piece);
        vrt::count("stack.piece_is_a_literal_run");
    } else if (number_piece) {
        out.field(number_field);
        vrt::count("stack.piece_is_the_rendering_of_a_number");
    } else {
        Field f = plain_field(static_cast<int>(tidx + 1));
        if (r.chance(1, 5)) { dress_text_field(r, f); f.width = static_cast<int>(P + r.below(40)); }
        out.field(f);
        vrt::count("stack.piece_is_a_text_argument");
    }
    switch (r.below(4)) {
    case 0: out.lit(random_literal(r)); break;
    case 1: { Field f = small_field(r, args.size()); if (for_sinks) { f.precision = -1; if (f.cls == 'c') f.cls = 'd'; } out.field(f); break; }
    case 2: out.lit(compose(r, 1 + r.below(300), BG_MIXED)); break;
    default: break;
    }
    vrt::count("stack.cases");
    vrt::count(vrt::sfmt("stack.output_crosses_%zu_bytes_in_one_append", C));
    if (d == 0) vrt::count("stack.output_is_exactly_at_the_capacity_before_the_append");
    vrt::count(vrt::sfmt("stack.arrays_of_%zu_bytes", pl.slot));
}

// A format string of 32..~200 bytes whose first brace token begins t bytes (0..16) behind its start, for the placement
// behind foreign bytes (Placement mode 2).  kind: what the token is.
inline void alignment_format(uint64_t i, vrt::Rng &r, size_t nargs, bool for_sinks, ScaleFmt &out)
{
    static const size_t lens[] = {32, 33, 39, 40, 47, 48, 63, 64, 65, 100, 130, 200};
    const size_t L = lens[i % 12];
    const size_t t = (i / 12) % 17;
    const unsigned kind = static_cast<unsigned>((i / (12 * 17)) % 5);
    out.lit(compose(r, t, r.chance(1, 2) ? BG_ASCII_RANDOM : BG_MIXED));
    switch (kind) {
    case 0: out.lit("{{"); break;
    case 1: out.lit("}}"); break;
    case 2: if (nargs) out.field(small_field(r, nargs)); break;
    case 3: if (nargs) out.field(plain_field(0)); break;
    default: break;                                                      // no brace at all in front of the filled part
    }
    if (for_sinks) for (Field &f : out.fields) { f.precision = -1; if (f.cls == 'c') f.cls = 'd'; }
    if (kind == 4 && r.chance(1, 2)) out.lit(compose(r, L > out.len ? L - out.len : 0, BG_ASCII_RANDOM));    // a string without any brace
    else token_fill(r, nargs, std::max(L, out.len), for_sinks, 0, out);
    vrt::count("alignment.format_strings");
}
static const char *const ALIGN_PREFIXES[] = {"{", "}", "{{", "}}", "{}", "}{"};
static const int N_ALIGN_PREFIXES = 6;

} // namespace fmtref
