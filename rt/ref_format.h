// Reference renderer for ST::format fields (C11), field/format-string
// generators shared by the format harnesses (C10, C11, C17), and the typed
// argument "shapes" through which the variadic entry points are called.
// Written from the C11 statement; shares no code with the library.
#pragma once
#include "vrt.h"
#include "ref_unicode.h"
#include <string>
#include <vector>
#include <string_view>

namespace fmtref {

typedef std::string S;

struct Arg {
    enum Kind { SInt, UInt, Text, Bool, Char, WChar, Char16, Char32, Char8 } kind;
    long long s = 0;
    unsigned long long u = 0;
    S text;             // UTF-8 bytes for Text
    const char *type = "";
    bool is_integer() const { return kind != Text && kind != Bool; }
};

struct Field {
    char align = 0;          // 0, '<', '>'
    int padkind = 0;         // 0 none, 1 "_c", 2 "0" flag  - the pad specification in force (the last one written)
    char padc = ' ';
    int overridden = 0;      // an earlier pad specification in the same field that the one above replaces: 0 none, 1 "_c", 2 "0" flag
    char overridden_c = '#';
    int width = 0;           // 0 = none
    int precision = -1;
    bool alt = false;        // '#'
    bool plus = false;       // '+'
    char cls = 0;            // 0, d x X o b c
    int argref = 0;          // 0 = sequential, else &N
    std::vector<int> order;  // token order
};

// tokens: 0 align 1 pad 2 alt 3 plus 4 width 5 precision 6 class 7 argref
inline S field_text(const Field &f)
{
    S out = "{";
    bool last_was_number = false;
    // a bare digit run (width, '0' flag) right after another number would merge
    // into it: separate them with a harmless repeat of a flag that is already in force
    auto sep = [&]() {
        if (last_was_number) out += f.align ? f.align : (f.cls ? f.cls : (f.plus ? '+' : (f.alt ? '#' : 'd')));
        last_was_number = false;
    };
    for (int t : f.order) {
        switch (t) {
        case 0: if (f.align) { out += f.align; last_was_number = false; } break;
        case 1:
            if (f.padkind != 0 && f.overridden == 1) { out += '_'; out += f.overridden_c; last_was_number = false; }
            else if (f.padkind != 0 && f.overridden == 2) { sep(); out += '0'; last_was_number = false; }
            if (f.padkind == 1) { out += '_'; out += f.padc; last_was_number = false; }
            else if (f.padkind == 2) { sep(); out += '0'; }
            break;
        case 2: if (f.alt) { out += '#'; last_was_number = false; } break;
        case 3: if (f.plus) { out += '+'; last_was_number = false; } break;
        case 4: if (f.width) { sep(); out += vrt::sfmt("%d", f.width); last_was_number = true; } break;
        case 5: if (f.precision >= 0) { out += vrt::sfmt(".%d", f.precision); last_was_number = true; } break;
        case 6: if (f.cls) { out += f.cls; last_was_number = false; } break;
        case 7: if (f.argref) { out += vrt::sfmt("&%d", f.argref); last_was_number = true; } break;
        }
    }
    return out + "}";
}
// note: the filler character inserted before a '0' flag after a number is
// only used when cls == 0 and nothing else is set: 'd' (decimal class) does
// not change the rendering of integers, and for text arguments class letters
// are ignored by the library and by this model alike.

enum Outcome { RENDERED, CONTRACT_ASSERT };

inline S digits(unsigned long long mag, int base, bool upper)
{
    if (!mag) return "0";
    S o;
    while (mag) {
        unsigned d = static_cast<unsigned>(mag % base);
        o.insert(o.begin(), static_cast<char>(d < 10 ? '0' + d : (upper ? 'A' : 'a') + d - 10));
        mag /= base;
    }
    return o;
}

inline S pad_text(const Field &f, const S &body, bool number)
{
    if (f.width <= static_cast<int>(body.size())) return body;
    char pad = f.padkind == 1 ? f.padc : f.padkind == 2 ? '0' : ' ';
    S fill(static_cast<size_t>(f.width) - body.size(), pad);
    char a = f.align ? f.align : (number ? '>' : '<');
    return a == '>' ? fill + body : body + fill;
}

// rendering of one field; CONTRACT_ASSERT for padding applied to a character conversion
inline Outcome render_field(const Field &f, const Arg &a, S &out)
{
    out.clear();
    if (a.kind == Arg::Text || a.kind == Arg::Bool) {
        S t = a.kind == Arg::Bool ? (a.u ? "true" : "false") : a.text;
        if (f.precision >= 0 && t.size() > static_cast<size_t>(f.precision)) t.resize(f.precision);
        out = pad_text(f, t, false);
        return RENDERED;
    }
    if (f.cls == 'c') {
        if (f.width != 0 || f.padkind != 0) return CONTRACT_ASSERT;
        if (a.kind == Arg::Char8) { out += static_cast<char>(a.u); return RENDERED; }   // a UTF-8 code unit is copied as is
        long long v;
        switch (a.kind) {
        case Arg::UInt: v = a.u > 0x10FFFF ? -1 : static_cast<long long>(a.u); break;
        case Arg::Char16: v = static_cast<long long>(a.u); break;
        case Arg::Char32: v = a.u > 0x10FFFF ? -1 : static_cast<long long>(a.u); break;
        default: v = a.s; break;                                                         // SInt, Char, WChar
        }
        if (v < 0 || v > 0x10FFFF) ref::enc_utf8(out, 0xFFFD);
        else ref::enc_utf8(out, static_cast<unsigned long>(v));
        return RENDERED;
    }
    // numeric rendering
    bool neg = false;
    unsigned long long mag;
    if (a.kind == Arg::SInt || a.kind == Arg::Char || a.kind == Arg::WChar) {
        neg = a.s < 0;
        mag = neg ? 0ull - static_cast<unsigned long long>(a.s) : static_cast<unsigned long long>(a.s);
    } else mag = a.u;
    int base = 10;
    bool upper = false;
    S prefix;
    switch (f.cls) {
    case 'x': base = 16; prefix = "0x"; break;
    case 'X': base = 16; upper = true; prefix = "0X"; break;
    case 'o': base = 8; prefix = "0"; break;
    case 'b': base = 2; prefix = "0b"; break;
    default: break;
    }
    S head;
    if (neg) head += '-';
    else if (f.plus) head += '+';
    if (f.alt && mag != 0) head += prefix;
    S dg = digits(mag, base, upper);
    if (f.padkind == 2) {
        // zero padding goes between sign/prefix and digits, always right-aligned
        size_t len = head.size() + dg.size();
        S zeros(f.width > static_cast<int>(len) ? static_cast<size_t>(f.width) - len : 0, '0');
        out = head + zeros + dg;
    } else {
        out = pad_text(f, head + dg, true);
    }
    return RENDERED;
}

// ---------------------------------------------------------------- generators
inline Field random_field(vrt::Rng &r, bool allow_char_class_padding)
{
    Field f;
    static const char aligns[] = {0, 0, '<', '>'};
    f.align = r.pick(aligns);
    switch (r.below(5)) {
    case 0: { static const char pads[] = {'*', '_', '.', '#', 'x', '-', '~', ' ', '0', 'c', '+', '<', '&'}; f.padkind = 1; f.padc = r.pick(pads); break; }
    case 1: f.padkind = 2; break;
    default: break;
    }
    // two pad specifications in one field: the later one is in force ("in every field order")
    if (f.padkind != 0 && r.chance(1, 4)) { f.overridden = static_cast<int>(1 + r.below(2)); static const char oc[] = {'#', '0', '!', ' '}; f.overridden_c = r.pick(oc); }
    if (r.chance(2, 3)) f.width = static_cast<int>(r.chance(1, 8) ? 1 + r.below(300) : 1 + r.below(24));
    if (r.chance(1, 4)) f.precision = static_cast<int>(r.below(12));
    f.alt = r.chance(1, 3);
    f.plus = r.chance(1, 3);
    static const char classes[] = {0, 0, 0, 'd', 'x', 'X', 'o', 'b', 'c'};
    f.cls = r.pick(classes);
    if (f.cls == 'c' && !allow_char_class_padding) { f.width = 0; f.padkind = 0; }
    f.order = {0, 1, 2, 3, 4, 5, 6, 7};
    for (size_t i = f.order.size(); i > 1; --i) std::swap(f.order[i - 1], f.order[r.below(i)]);
    return f;
}

inline S random_literal(vrt::Rng &r)
{
    static const char *const toks[] = {"", "", "a", "Z", " ", "{{", "}}", "}", "\xC3\xA9", "\xE2\x82\xAC", "\xF0\x9F\x98\x80", "x=", "[", "]", "%d", "\\", "&1", ".", "_", "0"};
    S out;
    for (size_t n = r.below(4); n-- > 0;) out += r.pick(toks);
    return out;
}
// what the literal contributes to the output
inline S literal_output(const S &lit)
{
    S out;
    for (size_t i = 0; i < lit.size(); ++i) {
        if ((lit[i] == '{' || lit[i] == '}') && i + 1 < lit.size() && lit[i + 1] == lit[i]) { out += lit[i]; ++i; }
        else out += lit[i];
    }
    return out;
}

// ---------------------------------------------------------------- typed values and call shapes
struct Values {
    signed char sc; unsigned char uc; short s; unsigned short us; int i; unsigned int u; long l; unsigned long ul; long long ll; unsigned long long ull;
    char c; wchar_t wc; char16_t c16; char32_t c32; char8_t c8; bool b;
    S text, text2;                 // backing storage
    std::wstring wtext; std::u16string u16text; std::u32string u32text; std::u8string u8text;
    // backing buffers of the string_view members: the views are interior sub-ranges, so the unit
    // after a view's end is never a terminator
    S svback; std::wstring wback; std::u16string u16back; std::u32string u32back; std::u8string u8back;
    const char *cstr; ST::string st; std::string ss; std::string_view sv;
    const wchar_t *wstr; const char16_t *u16; const char32_t *u32; const char8_t *u8;
    std::wstring ws; std::u16string s16; std::u32string s32; std::u8string s8;
    std::wstring_view wsv; std::u16string_view sv16; std::u32string_view sv32; std::u8string_view sv8;
};

inline Arg describe(signed char v) { Arg a; a.kind = Arg::SInt; a.s = v; a.type = "signed char"; return a; }
inline Arg describe(short v) { Arg a; a.kind = Arg::SInt; a.s = v; a.type = "short"; return a; }
inline Arg describe(int v) { Arg a; a.kind = Arg::SInt; a.s = v; a.type = "int"; return a; }
inline Arg describe(long v) { Arg a; a.kind = Arg::SInt; a.s = v; a.type = "long"; return a; }
inline Arg describe(long long v) { Arg a; a.kind = Arg::SInt; a.s = v; a.type = "long long"; return a; }
inline Arg describe(unsigned char v) { Arg a; a.kind = Arg::UInt; a.u = v; a.type = "unsigned char"; return a; }
inline Arg describe(unsigned short v) { Arg a; a.kind = Arg::UInt; a.u = v; a.type = "unsigned short"; return a; }
inline Arg describe(unsigned int v) { Arg a; a.kind = Arg::UInt; a.u = v; a.type = "unsigned int"; return a; }
inline Arg describe(unsigned long v) { Arg a; a.kind = Arg::UInt; a.u = v; a.type = "unsigned long"; return a; }
inline Arg describe(unsigned long long v) { Arg a; a.kind = Arg::UInt; a.u = v; a.type = "unsigned long long"; return a; }
inline Arg describe(char v) { Arg a; a.kind = Arg::Char; a.s = v; a.type = "char"; return a; }
inline Arg describe(wchar_t v) { Arg a; a.kind = Arg::WChar; a.s = static_cast<int>(v); a.type = "wchar_t"; return a; }
inline Arg describe(char16_t v) { Arg a; a.kind = Arg::Char16; a.u = v; a.type = "char16_t"; return a; }
inline Arg describe(char32_t v) { Arg a; a.kind = Arg::Char32; a.u = v; a.s = static_cast<int>(v); a.type = "char32_t"; return a; }
inline Arg describe(char8_t v) { Arg a; a.kind = Arg::Char8; a.u = v; a.type = "char8_t"; return a; }
inline Arg describe(bool v) { Arg a; a.kind = Arg::Bool; a.u = v; a.type = "bool"; return a; }
inline Arg text_arg(const S &t, const char *type) { Arg a; a.kind = Arg::Text; a.text = t; a.type = type; return a; }
inline Arg describe(const char *v) { return text_arg(v ? S(v) : S(), "const char*"); }
inline Arg describe(const ST::string &v) { return text_arg(S(v.c_str(), v.size()), "ST::string"); }
inline Arg describe(const std::string &v) { return text_arg(v, "std::string"); }
inline Arg describe(const std::string_view &v) { return text_arg(S(v), "std::string_view"); }
inline Arg describe(const char8_t *v) { return text_arg(S(reinterpret_cast<const char *>(v)), "const char8_t*"); }
inline Arg describe(const std::u8string &v) { return text_arg(S(reinterpret_cast<const char *>(v.data()), v.size()), "std::u8string"); }
inline Arg describe(const std::u8string_view &v) { return text_arg(S(reinterpret_cast<const char *>(v.data()), v.size()), "std::u8string_view"); }
template <typename It> inline S utf8_of(It b, It e) { S o; for (; b != e; ++b) ref::enc_utf8(o, static_cast<unsigned long>(*b)); return o; }
inline S utf8_of16(const std::u16string_view &v)
{
    ref::Decoded d = ref::decode_utf16(v.data(), v.size());
    S o;
    ref::to_utf8(d, false, o);
    return o;
}
inline Arg describe(const wchar_t *v) { std::wstring_view w(v); return text_arg(utf8_of(w.begin(), w.end()), "const wchar_t*"); }
inline Arg describe(const char32_t *v) { std::u32string_view w(v); return text_arg(utf8_of(w.begin(), w.end()), "const char32_t*"); }
inline Arg describe(const char16_t *v) { return text_arg(utf8_of16(v), "const char16_t*"); }
inline Arg describe(const std::wstring &v) { return text_arg(utf8_of(v.begin(), v.end()), "std::wstring"); }
inline Arg describe(const std::u32string &v) { return text_arg(utf8_of(v.begin(), v.end()), "std::u32string"); }
inline Arg describe(const std::u16string &v) { return text_arg(utf8_of16(v), "std::u16string"); }
inline Arg describe(const std::wstring_view &v) { return text_arg(utf8_of(v.begin(), v.end()), "std::wstring_view"); }
inline Arg describe(const std::u32string_view &v) { return text_arg(utf8_of(v.begin(), v.end()), "std::u32string_view"); }
inline Arg describe(const std::u16string_view &v) { return text_arg(utf8_of16(v), "std::u16string_view"); }

// A user-defined argument type whose formatter renders through ST::format itself and forwards the text ("render, then
// pad as a string") - a format call that starts while another one is running on the same thread.
struct Nested {
    long a;
    ST::string b;
};
inline void format_type(const ST::format_spec &format, ST::format_writer &output, const Nested &v)
{
    const ST::string inner = ST::format("<{}:{}>", v.a, v.b);
    ST::format_string(format, output, inner.c_str(), inner.size());
}
inline Arg describe(const Nested &v) { return text_arg("<" + std::to_string(v.a) + ":" + S(v.b.c_str(), v.b.size()) + ">", "Nested (formatter calling ST::format)"); }

template <typename... T> inline std::vector<Arg> describe_all(const T &...a) { return std::vector<Arg>{describe(a)...}; }

static const int NSHAPES = 52;

// Calls `sink(fmt, args...)` with the typed arguments of `shape`; fills *desc.
template <typename Sink>
inline void call_shape(int shape, const Values &v, const char *fmt, std::vector<Arg> *desc, Sink &&sink)
{
#define SH(n, ...)                                                \
    case n:                                                       \
        if (desc) *desc = describe_all(__VA_ARGS__);              \
        sink(fmt __VA_OPT__(, ) __VA_ARGS__);                     \
        return;
    switch (shape) {
        SH(0)
        SH(1, v.i)
        SH(2, v.cstr)
        SH(3, v.st)
        SH(4, v.ul, v.ss)
        SH(5, v.i, v.st, v.ul, v.cstr)
        SH(6, v.ll, v.b, v.c)
        SH(7, v.sv, v.us, v.sc)
        SH(8, v.wstr, v.u16, v.u32)
        SH(9, v.c32, v.wc, v.c16, v.c8)
        SH(10, v.uc, v.s, v.l, v.u)
        SH(11, v.ull, v.ws, v.b)
        SH(12, v.s16, v.s32, v.s8)
        SH(13, v.u8, v.sv8, v.i)
        SH(14, v.wsv, v.sv16, v.sv32)
        SH(15, v.st, v.st)
        SH(16, v.sc)
        SH(17, v.uc)
        SH(18, v.s)
        SH(19, v.us)
        SH(20, v.u)
        SH(21, v.l)
        SH(22, v.ul)
        SH(23, v.ll)
        SH(24, v.ull)
        SH(25, v.c)
        SH(26, v.wc)
        SH(27, v.c16)
        SH(28, v.c32)
        SH(29, v.c8)
        SH(30, v.b)
        SH(31, v.ss)
        SH(32, v.sv)
        SH(33, v.wstr)
        SH(34, v.u16)
        SH(35, v.u32)
        SH(36, v.u8)
        SH(37, v.ws)
        SH(38, v.s16)
        SH(39, v.s32)
        SH(40, v.s8)
        SH(41, v.wsv)
        SH(42, v.sv16)
        SH(43, v.sv32)
        SH(44, v.sv8)
        SH(45, v.cstr, v.i)
        SH(46, v.b, v.ll, v.st)
        SH(47, v.i, v.i, v.i, v.i, v.i)
        SH(48, Nested{v.l, v.st})
        SH(49, v.i, Nested{v.ll, v.st}, v.b)
    case 50: {   // the same non-const lvalue objects passed for two parameters each
        ST::string a = v.st; std::string b = v.ss; std::wstring c = v.ws;
        if (desc) *desc = describe_all(a, a, b, b, c, c);
        sink(fmt, a, a, b, b, c, c);
        return;
    }
    case 51: {   // ... and named rvalue-capable locals mixed with their own copies
        ST::string a = v.st; std::u16string b = v.s16;
        if (desc) *desc = describe_all(a, v.i, a, b, b);
        sink(fmt, a, v.i, a, b, b);
        return;
    }
    // argument lists longer than 8 and 16 (scale phases; outside 0..NSHAPES-1, so the random phases never draw them)
        SH(200, v.i, v.st, v.ul, v.cstr, v.ss, v.sv, v.b, v.ll, v.ws, v.s16, v.c32, v.us, v.sv8, v.s32, v.wsv, v.u, v.sc, v.sv16, v.l, v.c)
        SH(201, v.i, v.l, v.u, v.s, v.ll, v.us, v.sc, v.ul, v.st)
        SH(202, v.i, v.b, v.l, v.ss, v.u, v.s, v.ll, v.us, v.sc, v.ul, v.uc, v.ull, v.sv, v.c16, v.wc, v.i, v.st)
    default: return;
    }
#undef SH
}

inline unsigned long random_cp(vrt::Rng &r)
{
    switch (r.below(5)) {
    case 0: return 0x20 + r.below(0x5f);
    case 1: return 0xA0 + r.below(0x700);
    case 2: { unsigned long c = 0x800 + r.below(0xF7FF); return (c >= 0xD800 && c <= 0xDFFF) ? 0x20AC : c; }
    case 3: return 0x10000 + r.below(0x100000);
    default: return 'a' + r.below(26);
    }
}

inline unsigned long long random_mag(vrt::Rng &r)
{
    switch (r.below(8)) {
    case 0: return 0;
    case 1: return 1 + r.below(9);
    case 2: return r.below(256);
    case 3: return r.next() >> (1 + r.below(63));
    case 4: return ~0ull >> r.below(64);                 // all-ones of every width
    case 5: return 1ull << r.below(64);                  // single bits (type minimums)
    case 6: return r.below(0x110000 + 64);               // around the code point range
    default: return r.next();
    }
}

// fills every member with a random value (texts are valid UTF-8 / UTF-16 / UTF-32)
inline void random_values(vrt::Rng &r, Values &v)
{
    auto mag = [&]() { return random_mag(r); };
    auto sgn = [&](unsigned long long m) { return r.chance(1, 2) ? static_cast<long long>(m) : static_cast<long long>(0ull - m); };
    v.sc = static_cast<signed char>(sgn(mag())); v.uc = static_cast<unsigned char>(mag());
    v.s = static_cast<short>(sgn(mag())); v.us = static_cast<unsigned short>(mag());
    v.i = static_cast<int>(sgn(mag())); v.u = static_cast<unsigned int>(mag());
    v.l = static_cast<long>(sgn(mag())); v.ul = static_cast<unsigned long>(mag());
    v.ll = sgn(mag()); v.ull = mag();
    v.c = static_cast<char>(r.chance(3, 4) ? 0x20 + r.below(0x5f) : r.below(256));
    v.wc = static_cast<wchar_t>(r.chance(3, 4) ? random_cp(r) : static_cast<unsigned long>(sgn(mag())));
    v.c16 = static_cast<char16_t>(r.chance(3, 4) ? (random_cp(r) & 0xFFFF) : mag());
    if (v.c16 >= 0xD800 && v.c16 <= 0xDFFF && r.chance(1, 2)) v.c16 = u'x';
    v.c32 = static_cast<char32_t>(r.chance(3, 4) ? random_cp(r) : mag());
    v.c8 = static_cast<char8_t>(r.chance(3, 4) ? 0x20 + r.below(0x5f) : r.below(256));
    v.b = r.chance(1, 2);
    auto text = [&](size_t maxlen) {
        S t;
        size_t n = r.chance(1, 6) ? 0 : r.below(maxlen);
        for (size_t k = 0; k < n; ++k) ref::enc_utf8(t, r.chance(2, 3) ? 'a' + r.below(26) : random_cp(r));
        return t;
    };
    v.text = text(r.chance(1, 5) ? 40 : 10);
    v.text2 = text(12);
    v.cstr = v.text.c_str();
    v.st = ST::string::from_validated(v.text2.data(), v.text2.size());
    v.ss = text(10);
    v.svback = "<" + v.text + ">tail";
    v.sv = std::string_view(v.svback).substr(1, v.text.size());
    std::u32string w32;
    for (size_t n = r.below(8); n-- > 0;) w32 += static_cast<char32_t>(random_cp(r));
    v.u32text = w32;
    v.wtext.assign(w32.begin(), w32.end());
    v.u16text.clear();
    for (char32_t c : w32) ref::enc_utf16(v.u16text, c);
    S u8t = text(9);
    v.u8text.assign(reinterpret_cast<const char8_t *>(u8t.data()), u8t.size());
    v.wstr = v.wtext.c_str(); v.u16 = v.u16text.c_str(); v.u32 = v.u32text.c_str(); v.u8 = v.u8text.c_str();
    v.ws = v.wtext; v.s16 = v.u16text; v.s32 = v.u32text; v.s8 = v.u8text;
    v.wback = L"<" + v.wtext + L">tail"; v.u16back = u"<" + v.u16text + u">tail"; v.u32back = U"<" + v.u32text + U">tail"; v.u8back = u8"<" + v.u8text + u8">tail";
    v.wsv = std::wstring_view(v.wback).substr(1, v.wtext.size());
    v.sv16 = std::u16string_view(v.u16back).substr(1, v.u16text.size());
    v.sv32 = std::u32string_view(v.u32back).substr(1, v.u32text.size());
    v.sv8 = std::u8string_view(v.u8back).substr(1, v.u8text.size());
}

inline S describe_values(const std::vector<Arg> &args)
{
    S o;
    for (size_t i = 0; i < args.size(); ++i) {
        const Arg &a = args[i];
        if (i) o += ", ";
        o += a.type;
        o += "=";
        switch (a.kind) {
        case Arg::Text: o += "\"" + vrt::hex(a.text.data(), a.text.size(), 1, 40) + "\"(hex)"; break;
        case Arg::Bool: o += a.u ? "true" : "false"; break;
        case Arg::SInt: case Arg::Char: case Arg::WChar: o += vrt::sfmt("%lld", a.s); break;
        default: o += vrt::sfmt("%llu", a.u); break;
        }
    }
    return o;
}

} // namespace fmtref

// ================================================================ scale phases of C10 / C11 / C17 =======================
// Generators for format calls whose format string, arguments, field renderings and pad runs are several KiB to about a
// MiB, with the places where something happens (an escape, a field, a stray brace, a multi-byte character, the end of
// the string, a precision cut, the end of a pad run, U+0000) on or next to multiples of the block sizes a chunked
// scanner / writer / sink is likely to use (rt/gen_scale.h).  The three harnesses feed what is built here to their own,
// unchanged per-input monitors.  Everything is a pure function of the case index and the case's Rng.
#include "gen_scale.h"
#include <algorithm>

namespace fmtref {

// ---- big texts in the members of Values ---------------------------------------------------------------------------
inline void set_texts_narrow(Values &v, const S &t)
{
    v.text = t; v.cstr = v.text.c_str(); v.text2 = t;
    v.st = ST::string::from_validated(t.data(), t.size());
    v.ss = t;
    v.svback = "<" + t + ">tail"; v.sv = std::string_view(v.svback).substr(1, t.size());
}
inline void set_texts_u8(Values &v, const S &t)
{
    v.u8text.assign(reinterpret_cast<const char8_t *>(t.data()), t.size()); v.u8 = v.u8text.c_str(); v.s8 = v.u8text;
    v.u8back = u8"<" + v.u8text + u8">tail"; v.sv8 = std::u8string_view(v.u8back).substr(1, v.u8text.size());
}
inline void set_texts_wide(Values &v, const std::u32string &w32)
{
    v.wtext.assign(w32.begin(), w32.end()); v.wstr = v.wtext.c_str(); v.ws = v.wtext;
    v.wback = L"<" + v.wtext + L">tail"; v.wsv = std::wstring_view(v.wback).substr(1, v.wtext.size());
}
inline void set_texts_u16(Values &v, const std::u32string &w32)
{
    v.u16text.clear();
    for (char32_t c : w32) ref::enc_utf16(v.u16text, c);
    v.u16 = v.u16text.c_str(); v.s16 = v.u16text;
    v.u16back = u"<" + v.u16text + u">tail"; v.sv16 = std::u16string_view(v.u16back).substr(1, v.u16text.size());
}
inline void set_texts_u32(Values &v, const std::u32string &w32)
{
    v.u32text = w32; v.u32 = v.u32text.c_str(); v.s32 = v.u32text;
    v.u32back = U"<" + v.u32text + U">tail"; v.sv32 = std::u32string_view(v.u32back).substr(1, v.u32text.size());
}
inline std::u32string utf32_of(const S &t)          // t is well-formed UTF-8
{
    std::u32string w;
    for (long cp : ref::decode_utf8(t)) w += static_cast<char32_t>(cp);
    return w;
}
// every text member (C strings, sized strings, views; UTF-8, UTF-16, UTF-32, wchar_t) holds the well-formed UTF-8 text t.
// t may contain U+0000: the sized members keep it, the C-string members end there (which describe() models).
inline void set_all_texts(Values &v, const S &t)
{
    const std::u32string w32 = utf32_of(t);
    set_texts_narrow(v, t); set_texts_u8(v, t); set_texts_wide(v, w32); set_texts_u16(v, w32); set_texts_u32(v, w32);
}
// only the members a single-argument text shape passes (a MiB-sized text is not copied into all twenty of them)
inline void set_texts_for_shape(Values &v, int shape, const S &t)
{
    switch (shape) {
    case 2: case 3: case 31: case 32: set_texts_narrow(v, t); break;
    case 36: case 40: case 44: set_texts_u8(v, t); break;
    case 33: case 37: case 41: set_texts_wide(v, utf32_of(t)); break;
    case 34: case 38: case 42: set_texts_u16(v, utf32_of(t)); break;
    case 35: case 39: case 43: set_texts_u32(v, utf32_of(t)); break;
    default: set_all_texts(v, t); break;
    }
}
inline bool sized_text_arg(const Arg &a) { return a.kind == Arg::Text && !strchr(a.type, '*'); }

// ---- text of an exact length with pieces at exact offsets ----------------------------------------------------------
enum Bg { BG_ASCII_CONST, BG_ASCII_RANDOM, BG_TWO, BG_THREE, BG_FOUR, BG_MIXED, BG_HIGH /* not UTF-8 */ };
struct Plant { size_t at; S bytes; };

inline S mb_char(vrt::Rng &r, unsigned width)
{
    static const unsigned long two[] = {0xE9, 0x7FF, 0x80, 0x3A9}, three[] = {0x20AC, 0x800, 0xFFFD, 0xD7FF, 0xE000, 0x4E2D}, four[] = {0x1F600, 0x10000, 0x10FFFF, 0x2070E};
    S s;
    ref::enc_utf8(s, width == 2 ? r.pick(two) : width == 3 ? r.pick(three) : width == 4 ? r.pick(four) : 'm');
    return s;
}
inline int pick_bg(vrt::Rng &r, bool allow_high = false)
{
    static const int w[] = {BG_ASCII_CONST, BG_ASCII_CONST, BG_ASCII_CONST, BG_ASCII_RANDOM, BG_ASCII_RANDOM, BG_TWO, BG_THREE, BG_FOUR, BG_MIXED, BG_MIXED};
    if (allow_high && r.chance(1, 14)) return BG_HIGH;
    return r.pick(w);
}
// exactly `len` bytes of background (never a brace; well-formed UTF-8 unless BG_HIGH) in which every plant that fits
// (in order, not overlapping) starts exactly at its offset - ASCII filler where a background character does not fit in
// front of it.  `plants` is reduced to the ones that were placed.
inline S compose(vrt::Rng &r, size_t len, int bg, std::vector<Plant> &plants)
{
    std::stable_sort(plants.begin(), plants.end(), [](const Plant &a, const Plant &b) { return a.at < b.at; });
    std::vector<Plant> kept;
    size_t busy = 0;
    for (const Plant &p : plants)
        if (p.at >= busy && p.at + p.bytes.size() <= len) { kept.push_back(p); busy = p.at + p.bytes.size(); }
    plants.swap(kept);
    S s;
    s.reserve(len + 8);
    const S c2 = mb_char(r, 2), c3 = mb_char(r, 3), c4 = mb_char(r, 4);
    static const char fillers[] = "ax _0.%&";
    const char a = fillers[r.below(sizeof(fillers) - 1)];
    const char high = r.chance(1, 2) ? '\xFF' : '\x80';
    auto fill = [&](size_t upto) {
        while (s.size() < upto) {
            const size_t left = upto - s.size();
            switch (bg) {
            case BG_ASCII_RANDOM: { static const char al[] = "abcxyzQ 0123456789_.%&\\-+#<>"; s += al[r.below(sizeof(al) - 1)]; break; }
            case BG_TWO: if (left >= 2) s += c2; else s += a; break;
            case BG_THREE: if (left >= 3) s += c3; else s += a; break;
            case BG_FOUR: if (left >= 4) s += c4; else s += a; break;
            case BG_MIXED: {
                const unsigned w = 1 + static_cast<unsigned>(r.below(4));
                if (w == 1 || left < w) s += static_cast<char>('a' + r.below(26));
                else s += w == 2 ? c2 : w == 3 ? c3 : c4;
                break;
            }
            case BG_HIGH: s.append(left, high); break;
            default: s.append(left, a); break;
            }
        }
    };
    for (const Plant &p : plants) { fill(p.at); s += p.bytes; }
    fill(len);
    return s;
}
inline S compose(vrt::Rng &r, size_t len, int bg) { std::vector<Plant> none; return compose(r, len, bg, none); }

// ---- a format string under construction -----------------------------------------------------------------------------
struct ScaleFmt {
    std::vector<S> lits{S()};          // lits.size() == fields.size() + 1
    std::vector<Field> fields;
    std::vector<size_t> starts, ends;  // offsets into text(): where each grid-planted token begins / just behind it
    size_t len = 0;                    // length of text() so far
    void lit(const S &t) { lits.back() += t; len += t.size(); }
    void field(const Field &f) { len += field_text(f).size(); fields.push_back(f); lits.push_back(S()); }
    S text() const
    {
        S o = lits[0];
        for (size_t i = 0; i < fields.size(); ++i) { o += field_text(fields[i]); o += lits[i + 1]; }
        return o;
    }
};
inline Field plain_field(int argref)
{
    Field f;
    f.argref = argref;
    f.order = {0, 1, 2, 3, 4, 5, 6, 7};
    return f;
}
// a short field on argument 1..nargs
inline Field small_field(vrt::Rng &r, size_t nargs)
{
    Field f = random_field(r, false);
    if (f.width > 40) f.width = static_cast<int>(1 + r.below(40));
    f.argref = static_cast<int>(1 + r.below(nargs ? nargs : 1));
    return f;
}

// ---- (1) long literal runs: a token that begins at  q * B - k  from the start of the run / of the string ------------------
enum Tok { TOK_OPEN_ESC, TOK_CLOSE_ESC, TOK_FIELD, TOK_STRAY_CLOSE, TOK_MB2, TOK_MB3, TOK_MB4, TOK_END, N_TOK };
inline const char *tok_name(int t)
{
    static const char *const n[] = {"escape{{", "escape}}", "field", "stray}", "2-byte-character", "3-byte-character", "4-byte-character", "end-of-string"};
    return t >= 0 && t < N_TOK ? n[t] : "other";
}
struct LiteralPlan {
    size_t B, q0, k0;
    int kind;
    uint64_t rot;
};
// the case index walks block size x token kind first (so that every tier visits all of them), then k (bytes of the token
// in front of the multiple) and the multiple q
inline LiteralPlan literal_plan(uint64_t i, int nkinds)
{
    const std::vector<size_t> &BL = scale::blocks();
    LiteralPlan p;
    p.B = BL[i % BL.size()];
    p.kind = static_cast<int>((i / BL.size()) % static_cast<uint64_t>(nkinds));
    p.rot = i / (BL.size() * static_cast<uint64_t>(nkinds));
    p.k0 = p.rot % 4;
    p.q0 = 1 + (p.rot / 4) % 8;
    return p;
}
// run-resetting separator: a field or an escaped brace
inline void emit_separator(vrt::Rng &r, size_t nargs, ScaleFmt &out)
{
    switch (nargs ? r.below(3) : 1 + r.below(2)) {
    case 0: out.field(small_field(r, nargs)); break;
    case 1: out.lit("{{"); break;
    default: out.lit("}}"); break;
    }
}
inline void emit_token(vrt::Rng &r, int kind, size_t nargs, ScaleFmt &out)
{
    switch (kind) {
    case TOK_OPEN_ESC: out.lit("{{"); break;
    case TOK_CLOSE_ESC: out.lit("}}"); break;
    case TOK_FIELD: if (nargs) out.field(small_field(r, nargs)); else out.lit("{{"); break;
    case TOK_STRAY_CLOSE: out.lit("}"); break;
    case TOK_MB2: out.lit(mb_char(r, 2)); break;
    case TOK_MB3: out.lit(mb_char(r, 3)); break;
    case TOK_MB4: out.lit(mb_char(r, 4)); break;
    default: break;
    }
}
inline size_t tok_len(int kind) { return kind == TOK_STRAY_CLOSE ? 1 : kind == TOK_MB3 ? 3 : kind == TOK_MB4 ? 4 : kind == TOK_END ? 0 : 2; }

// A chain of up to four segments "literal run + token"; segment j's token begins q_j * B - k_j bytes behind the point
// distances are measured from: the start of the run (= the end of the previous token / separator) or, for the first
// segment, optionally the start of the string with a run that starts later.  q_j = q0, q0+2, ... (mod 8), k_j = k0, k0+1, ...
// (mod 4), as many as fit under `cap`.  Returns false when not even the first segment fits.  `kind` in 0..N_TOK-1.
inline bool scale_literal_chain(vrt::Rng &r, const LiteralPlan &p, int kind, size_t nargs, size_t cap, bool allow_high, ScaleFmt &out)
{
    if (p.q0 * p.B + 64 > cap) return false;
    const int bg = pick_bg(r, allow_high);
    // prefix: 0 none; 1 run-resetting prefix, measured from the start of the run; 2 short plain prefix (no reset), measured from
    // the start of the string; 3 run-resetting prefix, measured from the start of the string
    static const unsigned modes[] = {0, 0, 1, 1, 2, 3};
    const unsigned mode = r.pick(modes);
    if (mode == 1 || mode == 3) {
        if (r.chance(1, 2)) out.lit(compose(r, 1 + r.below(6), BG_ASCII_RANDOM));
        emit_separator(r, nargs, out);
    } else if (mode == 2) {
        out.lit(r.chance(1, 2) ? compose(r, 1 + r.below(6), BG_ASCII_RANDOM) : mb_char(r, 2 + static_cast<unsigned>(r.below(3))));
    }
    size_t anchor = (mode == 2 || mode == 3) ? 0 : out.len;
    vrt::count(anchor == 0 && out.len != 0 ? "scale.literal.measured_from_start_of_string_behind_a_prefix" : out.len == 0 ? "scale.literal.measured_from_start_of_string" : "scale.literal.measured_from_start_of_run");
    // how many segments fit
    size_t nseg = 0, total = out.len;
    for (size_t j = 0; j < 4; ++j) {
        const size_t q = 1 + (p.q0 - 1 + 2 * j) % 8;
        if (total + q * p.B + 64 > cap) break;
        total += q * p.B + 16;
        ++nseg;
    }
    if (nseg == 0) nseg = 1;
    for (size_t j = 0; j < nseg; ++j) {
        const size_t q = 1 + (p.q0 - 1 + 2 * j) % 8, k = (p.k0 + j) % 4;
        size_t target = anchor + q * p.B - std::min(k, q * p.B);
        if (k == 0 && r.chance(1, 3)) { target += 1 + r.below(2); vrt::count("scale.literal.token_starts_just_behind_a_multiple"); }      // ... or one / two bytes behind the multiple
        while (target < out.len) target += p.B;
        out.lit(compose(r, target - out.len, bg));
        out.starts.push_back(out.len);
        const bool last = j + 1 == nseg;
        int t = kind;
        if (kind == TOK_END && !last) t = static_cast<int>(r.below(3));       // {{, }} or a field stands at the grid offset
        emit_token(r, t, nargs, out);
        out.ends.push_back(out.len);
        if (k > 0 && k < tok_len(t)) vrt::count("scale.literal.token_straddles_a_multiple");
        else if (k == 0 && (out.starts.back() - (out.starts.back() >= anchor ? anchor : 0)) % p.B == 0) vrt::count("scale.literal.token_starts_on_a_multiple");
        else if (k == 0) vrt::count("scale.literal.token_starts_behind_a_multiple");
        else vrt::count("scale.literal.token_ends_on_or_before_a_multiple");
        vrt::count(S("scale.literal.token.") + tok_name(last ? kind : t));
        if (!last && t == TOK_STRAY_CLOSE) { if (r.chance(1, 2)) out.lit("{{"); else out.field(small_field(r, nargs)); }     // (not "}}": "}" + "}}" reads as "}}" + "}")
        else if (!last && (t == TOK_MB2 || t == TOK_MB3 || t == TOK_MB4)) emit_separator(r, nargs, out);
        anchor = out.len;
    }
    if (kind != TOK_END) {
        switch (r.below(4)) {
        case 1: out.lit(compose(r, 1 + r.below(20), r.chance(1, 2) ? BG_ASCII_RANDOM : BG_MIXED)); break;
        case 2: if (out.len + 6000 < cap) out.lit(compose(r, 1000 + r.below(4000), bg)); break;
        default: break;
        }
    }
    vrt::count("scale.literal.cases");
    vrt::count("scale.literal.segments", nseg);
    if (out.len >= 65536) vrt::count("scale.literal.format_string>=64KiB");
    if (out.len >= 262144) vrt::count("scale.literal.format_string>=256KiB");
    return true;
}

// ---- (2) hundreds to tens of thousands of fields in one format string ------------------------------------------------
// Mostly {&N} references (so that any number of fields is well-formed), with sequential {} fields at and behind the
// 255th / 256th / 65536th field: they must still select the next unused argument.  With out_of_range_tail the string
// ends in sequential fields one more than there are arguments (std::out_of_range expected).
inline void scale_many_fields(uint64_t i, vrt::Rng &r, size_t nargs, bool out_of_range_tail, ScaleFmt &out)
{
    static const size_t counts[] = {255, 256, 257, 300, 512, 1000, 1024, 4096, 65535, 65536, 65537, 70000};
    const size_t n = counts[i % 12];
    const unsigned style = static_cast<unsigned>((i / 12) % 4);
    size_t seq = 0;
    for (size_t idx = 0; idx < n; ++idx) {
        Field f = (style == 3 || (style == 2 && r.chance(1, 8))) ? small_field(r, nargs) : plain_field(0);
        if (f.width > 12) f.width = static_cast<int>(1 + r.below(12));
        f.argref = static_cast<int>(1 + (style == 0 ? idx % nargs : r.below(nargs)));
        const bool probe = idx == 254 || idx == 255 || idx == 256 || idx == 65534 || idx == 65535 || idx == 65536 || idx + 1 == n || r.chance(1, 300);
        if (style != 0 && probe && seq < nargs) { f.argref = 0; ++seq; if (idx >= 255) vrt::count("scale.fields.sequential_field_behind_255_others"); }
        out.field(f);
        if (style != 0 && r.chance(1, 3)) out.lit(random_literal(r));
    }
    if (out_of_range_tail) {
        for (; seq <= nargs; ++seq) out.field(plain_field(0));
        vrt::count("scale.fields.sequential_fields_one_more_than_arguments");
    }
    vrt::count("scale.fields.cases");
    if (n > 255) vrt::count("scale.fields.more_than_255_fields");
    if (n > 65535) vrt::count("scale.fields.more_than_65535_fields");
    if (nargs > 8) vrt::count("scale.fields.more_than_8_arguments");
    if (nargs > 16) vrt::count("scale.fields.more_than_16_arguments");
}

// ---- (3) big arguments, big renderings, long pad runs -----------------------------------------------------------------
static const size_t SCALE_MAX_WIDTH = 200000;

struct ArgCase {
    int shape = 3;
    ScaleFmt f;
    S what;
};
inline int pick_text_shape(vrt::Rng &r, bool sized_only, size_t text_len)
{
    static const int sized[] = {3, 31, 32, 37, 38, 39, 40, 41, 42, 43, 44}, pointer[] = {2, 33, 34, 35, 36}, multi[] = {5, 7, 4, 11, 12, 14, 13, 15, 46, 50, 51, 200, 201, 202};
    if (text_len <= 131072 && r.chance(1, 4)) return r.pick(multi);
    if (!sized_only && r.chance(1, 4)) return r.pick(pointer);
    return r.pick(sized);
}
// index (0-based) of a text argument of the shape, a sized one when wanted and there is one
inline size_t pick_text_arg(vrt::Rng &r, const std::vector<Arg> &args, bool want_sized)
{
    std::vector<size_t> sized, any;
    for (size_t k = 0; k < args.size(); ++k)
        if (args[k].kind == Arg::Text) { any.push_back(k); if (sized_text_arg(args[k])) sized.push_back(k); }
    if (want_sized && !sized.empty()) return r.pick(sized);
    return any.empty() ? 0 : r.pick(any);
}
inline void dress_text_field(vrt::Rng &r, Field &f)
{
    static const char aligns[] = {0, 0, '<', '>'};
    f.align = r.pick(aligns);
    switch (r.below(4)) {
    case 0: { static const char pads[] = {'*', '_', '.', '#', 'x', '-', ' ', '0', '~'}; f.padkind = 1; f.padc = r.pick(pads); break; }
    case 1: f.padkind = 2; break;
    default: break;
    }
}

// text arguments of `max_text` bytes at most, precisions of `max_precision` at most, widths of SCALE_MAX_WIDTH at most
inline void scale_arg_case(uint64_t i, vrt::Rng &r, Values &v, ArgCase &c, size_t max_text, size_t max_precision)
{
    static const size_t BA[] = {1000, 1024, 2048, 4096, 8192, 16384, 32768, 49152, 65535, 65536, 131072, 262144, 524288, 1048576};
    const size_t nb = sizeof(BA) / sizeof(BA[0]);
    size_t B = BA[i % nb];
    while (B > max_text) B /= 2;
    const unsigned var = static_cast<unsigned>((i / nb) % 6);
    const uint64_t rot = i / (nb * 6);
    const size_t qmax = std::max<size_t>(1, std::min<size_t>(8, max_text / B));
    const size_t q = 1 + rot % qmax;
    random_values(r, v);
    // (width class, bytes in front of the multiple): every way a character can touch or straddle it, and "nothing"
    // (the ones that leave exactly one byte behind the multiple first: every tier visits those at every block size)
    static const unsigned combos[][2] = {{4, 3}, {3, 2}, {2, 1}, {4, 1}, {4, 2}, {3, 1}, {4, 4}, {3, 3}, {2, 2}, {4, 0}, {3, 0}, {2, 0}, {0, 0}};
    const size_t ncombo = sizeof(combos) / sizeof(combos[0]);
    S text;
    std::vector<Plant> plants;
    Field f = plain_field(0);
    bool nul_planted = false;
    auto finish_text_case = [&](bool want_sized) {
        c.shape = pick_text_shape(r, want_sized, text.size());
        set_texts_for_shape(v, c.shape, text);
        std::vector<Arg> args;
        call_shape(c.shape, v, "", &args, [](const char *, auto &&...) {});
        const size_t idx = pick_text_arg(r, args, want_sized);
        f.argref = (idx == 0 && r.chance(1, 2)) ? 0 : static_cast<int>(idx + 1);
        if (text.size() >= 65536) vrt::count("scale.args.text_argument>=64KiB");
        if (text.size() >= 1000000) vrt::count("scale.args.text_argument>=1MB");
        if (args.size() > 8) vrt::count("scale.args.more_than_8_arguments");
        if (idx < args.size() && !sized_text_arg(args[idx])) vrt::count("scale.args.text_through_a_C_string_argument");
        else if (idx < args.size() && strstr(args[idx].type, "16")) vrt::count("scale.args.text_through_a_UTF-16_argument");
        else if (idx < args.size() && (strstr(args[idx].type, "32") || strstr(args[idx].type, "wstring") || strstr(args[idx].type, "wchar"))) vrt::count("scale.args.text_through_a_UTF-32/wchar_t_argument");
    };
    auto plant_combo = [&](size_t multiple, size_t which) {
        const unsigned w = combos[which][0], k = combos[which][1];
        if (w == 0 || multiple < k) return false;
        plants.push_back(Plant{multiple - k, mb_char(r, w)});
        if (k > 0 && k < w) vrt::count("scale.args.character_straddles_a_multiple");
        return true;
    };
    switch (var) {
    case 0: {   // the whole text goes through: a character touching / straddling q * B, more of them at later multiples
        const size_t which = static_cast<size_t>(rot % ncombo);
        const size_t M = q * B;
        const size_t margin = r.chance(1, 3) ? r.below(40) : r.chance(1, 2) ? 1000 + r.below(70000) : B + static_cast<size_t>(scale::nudge(r) + 9) - 9;
        const size_t L = std::min(M + 4 + margin, max_text + 64);
        const bool primary = plant_combo(M, which);
        if (!primary && r.chance(1, 2)) { plants.push_back(Plant{M - r.below(2), S(1, '\0')}); nul_planted = true; }
        if (r.chance(1, 2))
            for (size_t m = q + 1; m * B + 4 < L; ++m)
                if (r.chance(2, 3)) plant_combo(m * B, (which + m) % ncombo);
        text = compose(r, L, pick_bg(r), plants);
        if (r.chance(1, 5)) f.width = static_cast<int>(1 + r.below(100));
        if (r.chance(1, 5) && L + 1 <= max_precision) f.precision = static_cast<int>(L + r.below(2));
        finish_text_case(nul_planted);
        c.f.lit(r.chance(1, 2) ? "" : "<"); c.f.field(f); c.f.lit(r.chance(1, 2) ? "" : ">");
        vrt::count("scale.args.whole_text");
        c.what = vrt::sfmt("text of %zu bytes, %zu planted pieces, the first at %zu (block %zu x %zu)", L, plants.size(), plants.empty() ? 0 : plants[0].at, B, q);
        break;
    }
    case 1: {   // precision cut at q * B + d
        size_t C = q * B + static_cast<size_t>(scale::nudge(r) + 9) - 9;
        if (C > max_precision) C = (1 + rot % 3) * 65536 + static_cast<size_t>(scale::nudge(r) + 9) - 9;
        if (C > max_precision) C = max_precision;
        const size_t rest = r.chance(1, 3) ? 1 + r.below(64) : r.chance(1, 2) ? 1000 + r.below(70000) : std::min(C, max_text > C ? max_text - C : 1);
        const size_t L = C + std::max<size_t>(rest, 1);
        unsigned feature = static_cast<unsigned>(r.below(8));
        const bool sized = r.chance(4, 5);
        if (!sized && feature >= 1 && feature <= 4) feature += 4;
        if (feature > 7) feature = 7;
        switch (feature) {
        case 1: plants.push_back(Plant{C - 1, S(1, '\0')}); vrt::count("scale.args.NUL_is_the_last_kept_byte"); break;
        case 2: plants.push_back(Plant{C, S(1, '\0')}); vrt::count("scale.args.NUL_is_the_first_cut_byte"); break;
        case 3: plants.push_back(Plant{r.chance(1, 2) ? C / 2 : scale::offset(r, C - 1), S(1, '\0')}); if (r.chance(1, 2)) plants.push_back(Plant{C + r.below(L - C), S(1, '\0')}); vrt::count("scale.args.NUL_inside_the_kept_part"); break;
        case 4: plants.push_back(Plant{L - C > 1 ? C + 1 + r.below(L - C - 1) : C, S(1, '\0')}); vrt::count("scale.args.NUL_inside_the_cut_part"); break;
        case 5: { const S ch = mb_char(r, 2 + static_cast<unsigned>(r.below(3))); if (C >= ch.size()) plants.push_back(Plant{C - ch.size(), ch}); vrt::count("scale.args.character_ends_at_the_cut"); break; }
        case 6: plants.push_back(Plant{C, mb_char(r, 2 + static_cast<unsigned>(r.below(3)))}); vrt::count("scale.args.character_starts_at_the_cut"); break;
        case 7: { const unsigned w = 2 + static_cast<unsigned>(r.below(3)); const size_t k = 1 + r.below(w - 1); if (C >= k) plants.push_back(Plant{C - k, mb_char(r, w)}); vrt::count("scale.args.character_straddles_the_cut"); break; }
        default: break;
        }
        nul_planted = feature >= 1 && feature <= 4;
        text = compose(r, L, pick_bg(r), plants);
        f.precision = static_cast<int>(C);
        if (r.chance(1, 2)) {
            dress_text_field(r, f);
            f.width = static_cast<int>(r.chance(1, 2) ? C + 1 + r.below(300) : 1 + r.below(C));
            if (static_cast<size_t>(f.width) > SCALE_MAX_WIDTH) f.width = static_cast<int>(SCALE_MAX_WIDTH);
        }
        finish_text_case(sized);
        c.f.lit("["); c.f.field(f); c.f.lit("]");
        vrt::count("scale.args.precision_cut");
        if (C >= 4096) vrt::count("scale.args.precision>=4096");
        c.what = vrt::sfmt("text of %zu bytes cut by precision %zu (feature %u), width %d", L, C, feature, f.width);
        break;
    }
    case 2: case 3: {   // pad runs of q * Bp + d bytes behind / in front of a text (2) or a number / bool (3)
        size_t Bp = B > 131072 ? 65536 : B, qp = q;
        while (qp > 1 && qp * Bp + 16 > SCALE_MAX_WIDTH - 64) --qp;
        size_t pad = qp * Bp + static_cast<size_t>(scale::nudge(r) + 9) - 9;
        if (pad + 64 > SCALE_MAX_WIDTH) pad = SCALE_MAX_WIDTH - 64 - r.below(4);
        dress_text_field(r, f);
        if (var == 2) {
            size_t S0 = r.chance(1, 3) ? r.below(100) : r.chance(1, 2) ? scale::length(r, 60000, 1000) : r.below(5000);
            if (S0 + pad > SCALE_MAX_WIDTH) S0 = r.below(50);
            text = compose(r, S0, pick_bg(r));
            f.width = static_cast<int>(S0 + pad);
            finish_text_case(false);
            vrt::count("scale.args.text_with_pad_run");
            c.what = vrt::sfmt("text of %zu bytes padded to width %d (pad run %zu = %zu x %zu + d)", S0, f.width, pad, qp, Bp);
        } else {
            static const int shapes[] = {1, 16, 17, 18, 19, 20, 21, 22, 23, 24, 30, 6, 10, 47, 201, 202, 25, 27};
            c.shape = r.pick(shapes);
            std::vector<Arg> args;
            call_shape(c.shape, v, "", &args, [](const char *, auto &&...) {});
            const size_t idx = r.below(args.size());
            f.argref = (idx == 0 && r.chance(1, 2)) ? 0 : static_cast<int>(idx + 1);
            static const char classes[] = {0, 0, 'd', 'x', 'X', 'o', 'b'};
            f.cls = r.pick(classes);
            f.alt = r.chance(1, 3);
            f.plus = r.chance(1, 3);
            S nat;
            Field bare = f;
            bare.padkind = 0; bare.width = 0;
            render_field(bare, args[idx], nat);
            f.width = static_cast<int>(nat.size() + pad);
            if (static_cast<size_t>(f.width) > SCALE_MAX_WIDTH) f.width = static_cast<int>(SCALE_MAX_WIDTH);
            vrt::count("scale.args.number_with_pad_run");
            c.what = vrt::sfmt("%s padded to width %d (pad run %zu = %zu x %zu + d)", args[idx].type, f.width, pad, qp, Bp);
        }
        for (size_t k = f.order.size(); k > 1; --k) std::swap(f.order[k - 1], f.order[r.below(k)]);
        c.f.lit(r.chance(1, 2) ? "" : "|"); c.f.field(f); c.f.lit(r.chance(1, 2) ? "" : "|");
        if (pad >= 4096) vrt::count("scale.args.pad_run>=4096");
        if (pad >= 65536) vrt::count("scale.args.pad_run>=65536");
        break;
    }
    case 4: {   // lengths exactly on / next to q * B, width and precision next to the length
        const size_t L = std::min<size_t>(q * B + static_cast<size_t>(scale::nudge(r) + 9) - 9, max_text + 64);
        if (r.chance(1, 4)) { plants.push_back(Plant{r.chance(1, 2) ? L - 1 : 0, S(1, '\0')}); nul_planted = true; }
        text = compose(r, L, pick_bg(r), plants);
        if (r.chance(2, 3) && L + 1 <= SCALE_MAX_WIDTH) { dress_text_field(r, f); f.width = static_cast<int>(L + r.below(3)) - 1; if (f.width < 0) f.width = 0; }
        if (r.chance(1, 2) && L + 1 <= max_precision) { f.precision = static_cast<int>(L + r.below(3)) - 1; if (f.precision < 0) f.precision = 0; }
        finish_text_case(nul_planted);
        c.f.lit(r.chance(1, 2) ? "" : "("); c.f.field(f); c.f.lit(r.chance(1, 2) ? "" : ")");
        vrt::count("scale.args.text_of_block_length");
        c.what = vrt::sfmt("text of %zu bytes (block %zu x %zu + d), width %d precision %d", L, B, q, f.width, f.precision);
        break;
    }
    default: {  // a character that touches / straddles q * B counted in bytes of OUTPUT: literal + text + literal
        const size_t which = static_cast<size_t>(rot % (ncombo - 1));
        const unsigned w = combos[which][0], k = combos[which][1];
        const size_t M = q * B;
        const size_t lead = r.chance(1, 2) ? r.below(40) : std::min<size_t>(M / 2, 1000 + r.below(30000));
        const bool in_text = r.chance(1, 2);
        const S ch = mb_char(r, w);
        const int bg = pick_bg(r);
        c.f.lit(compose(r, lead, r.chance(1, 2) ? BG_ASCII_RANDOM : bg));
        if (in_text) {          // the character lies inside the argument
            const size_t at = M - k - lead;
            plants.push_back(Plant{at, ch});
            text = compose(r, at + ch.size() + (r.chance(1, 2) ? r.below(40) : 1000 + r.below(70000)), bg, plants);
            finish_text_case(false);
            c.f.field(f);
            c.f.lit(r.chance(1, 2) ? "" : compose(r, r.below(3000), bg));
        } else {                // ... or in the literal behind it
            const size_t tlen = std::min<size_t>(M - k - lead, r.chance(1, 2) ? 1 + r.below(5000) : (M - k - lead) / 2);
            text = compose(r, tlen, bg);
            finish_text_case(false);
            c.f.field(f);
            c.f.lit(compose(r, M - k - lead - tlen, bg));
            c.f.lit(ch);
            c.f.lit(compose(r, r.chance(1, 2) ? r.below(40) : 1000 + r.below(20000), bg));
        }
        // C-string arguments end at ... nothing here contains U+0000, so every argument kind carries the whole text
        if (k > 0 && k < w) vrt::count("scale.args.character_straddles_a_multiple_of_the_output");
        vrt::count("scale.args.output_offset");
        c.what = vrt::sfmt("literal of %zu bytes + text of %zu bytes + literal: a %u-byte character begins at output offset %zu x %zu - %u (%s)", lead, text.size(), w, B, q, k, in_text ? "inside the argument" : "inside the literal");
        break;
    }
    }
    vrt::count("scale.args.cases");
}

// ---- (4) U+0000 and the precision: sized string arguments (not C strings) are cut to the precision whatever the bytes are
// A short text with one to three U+0000 inside the kept part, at the cut (last kept / first cut byte) or in the cut part.
inline void nul_precision_case(vrt::Rng &r, Values &v, int &shape, ScaleFmt &out)
{
    random_values(r, v);
    const size_t L = 2 + r.below(r.chance(1, 6) ? 300 : 40);
    const size_t C = r.below(L);                       // precision < size: it really cuts
    std::vector<Plant> plants;
    const unsigned where = static_cast<unsigned>(r.below(5));
    switch (where) {
    case 0: if (C >= 1) plants.push_back(Plant{r.below(C), S(1, '\0')}); break;             // kept part
    case 1: if (C >= 1) plants.push_back(Plant{C - 1, S(1, '\0')}); break;                  // last kept byte
    case 2: plants.push_back(Plant{C, S(1, '\0')}); break;                                  // first cut byte
    case 3: plants.push_back(Plant{C + r.below(L - C), S(1, '\0')}); break;                 // cut part
    default: plants.push_back(Plant{0, S(1, '\0')}); if (C >= 2) plants.push_back(Plant{C - 1, S(1, '\0')}); plants.push_back(Plant{L - 1, S(1, '\0')}); break;
    }
    const S text = compose(r, L, r.chance(2, 3) ? BG_ASCII_RANDOM : pick_bg(r), plants);
    static const int shapes[] = {3, 31, 32, 37, 38, 39, 40, 41, 42, 43, 44, 5, 7, 4, 11, 12, 14, 13, 15, 46, 50, 51, 200, 201, 202};
    shape = r.pick(shapes);
    set_all_texts(v, text);
    std::vector<Arg> args;
    call_shape(shape, v, "", &args, [](const char *, auto &&...) {});
    const size_t idx = pick_text_arg(r, args, true);
    Field f = plain_field((idx == 0 && r.chance(1, 2)) ? 0 : static_cast<int>(idx + 1));
    f.precision = static_cast<int>(C);
    if (r.chance(1, 2)) { dress_text_field(r, f); f.width = static_cast<int>(r.chance(1, 2) ? C + 1 + r.below(12) : 1 + r.below(L + 4)); }
    for (size_t k = f.order.size(); k > 1; --k) std::swap(f.order[k - 1], f.order[r.below(k)]);
    out.lit(r.chance(1, 2) ? "[" : ""); out.field(f); out.lit(r.chance(1, 2) ? "]" : "");
    if (idx < args.size() && sized_text_arg(args[idx])) {
        const S &t = args[idx].text;
        const size_t nul = t.find('\0');
        if (t.size() > C && nul != S::npos && nul < C) vrt::count("nul_precision.U+0000_inside_the_kept_part_of_a_sized_string");
        if (t.size() > C && C >= 1 && t[C - 1] == '\0') vrt::count("nul_precision.U+0000_is_the_last_kept_byte");
        if (t.size() > C && t[C] == '\0') vrt::count("nul_precision.U+0000_is_the_first_cut_byte");
        if (t.size() > C && t.find('\0', C) != S::npos) vrt::count("nul_precision.U+0000_inside_the_cut_part");
        if (strstr(args[idx].type, "16") || strstr(args[idx].type, "32") || strstr(args[idx].type, "wstring")) vrt::count("nul_precision.converted_wide_string");
    }
    vrt::count("nul_precision.cases");
}

} // namespace fmtref
