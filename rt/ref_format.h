// Reference renderer for ST::format fields (C11), field/format-string
// generators shared by the format harnesses (C10, C11, C17), and the typed
// argument "shapes" through which the variadic entry points are called.
// Written from the C11 statement; shares no code with the library.
#pragma once
#include "vrt.h"
#include "ref_unicode.h"
#include <string>
#include <vector>
#include <string_view>

namespace fmtref {

typedef std::string S;

struct Arg {
    enum Kind { SInt, UInt, Text, Bool, Char, WChar, Char16, Char32, Char8 } kind;
    long long s = 0;
    unsigned long long u = 0;
    S text;             // UTF-8 bytes for Text
    const char *type = "";
    bool is_integer() const { return kind != Text && kind != Bool; }
};

struct Field {
    char align = 0;          // 0, '<', '>'
    int padkind = 0;         // 0 none, 1 "_c", 2 "0" flag  - the pad specification in force (the last one written)
    char padc = ' ';
    int overridden = 0;      // an earlier pad specification in the same field that the one above replaces: 0 none, 1 "_c", 2 "0" flag
    char overridden_c = '#';
    int width = 0;           // 0 = none
    int precision = -1;
    bool alt = false;        // '#'
    bool plus = false;       // '+'
    char cls = 0;            // 0, d x X o b c
    int argref = 0;          // 0 = sequential, else &N
    std::vector<int> order;  // token order
};

// tokens: 0 align 1 pad 2 alt 3 plus 4 width 5 precision 6 class 7 argref
inline S field_text(const Field &f)
{
    S out = "{";
    bool last_was_number = false;
    // a bare digit run (width, '0' flag) right after another number would merge
    // into it: separate them with a harmless repeat of a flag that is already in force
    auto sep = [&]() {
        if (last_was_number) out += f.align ? f.align : (f.cls ? f.cls : (f.plus ? '+' : (f.alt ? '#' : 'd')));
        last_was_number = false;
    };
    for (int t : f.order) {
        switch (t) {
        case 0: if (f.align) { out += f.align; last_was_number = false; } break;
        case 1:
            if (f.padkind != 0 && f.overridden == 1) { out += '_'; out += f.overridden_c; last_was_number = false; }
            else if (f.padkind != 0 && f.overridden == 2) { sep(); out += '0'; last_was_number = false; }
            if (f.padkind == 1) { out += '_'; out += f.padc; last_was_number = false; }
            else if (f.padkind == 2) { sep(); out += '0'; }
            break;
        case 2: if (f.alt) { out += '#'; last_was_number = false; } break;
        case 3: if (f.plus) { out += '+'; last_was_number = false; } break;
        case 4: if (f.width) { sep(); out += vrt::sfmt("%d", f.width); last_was_number = true; } break;
        case 5: if (f.precision >= 0) { out += vrt::sfmt(".%d", f.precision); last_was_number = true; } break;
        case 6: if (f.cls) { out += f.cls; last_was_number = false; } break;
        case 7: if (f.argref) { out += vrt::sfmt("&%d", f.argref); last_was_number = true; } break;
        }
    }
    return out + "}";
}
// note: the filler character inserted before a '0' flag after a number is
// only used when cls == 0 and nothing else is set: 'd' (decimal class) does
// not change the rendering of integers, and for text arguments class letters
// are ignored by the library and by this model alike.

enum Outcome { RENDERED, CONTRACT_ASSERT };

inline S digits(unsigned long long mag, int base, bool upper)
{
    if (!mag) return "0";
    S o;
    while (mag) {
        unsigned d = static_cast<unsigned>(mag % base);
        o.insert(o.begin(), static_cast<char>(d < 10 ? '0' + d : (upper ? 'A' : 'a') + d - 10));
        mag /= base;
    }
    return o;
}

inline S pad_text(const Field &f, const S &body, bool number)
{
    if (f.width <= static_cast<int>(body.size())) return body;
    char pad = f.padkind == 1 ? f.padc : f.padkind == 2 ? '0' : ' ';
    S fill(static_cast<size_t>(f.width) - body.size(), pad);
    char a = f.align ? f.align : (number ? '>' : '<');
    return a == '>' ? fill + body : body + fill;
}

// rendering of one field; CONTRACT_ASSERT for padding applied to a character conversion
inline Outcome render_field(const Field &f, const Arg &a, S &out)
{
    out.clear();
    if (a.kind == Arg::Text || a.kind == Arg::Bool) {
        S t = a.kind == Arg::Bool ? (a.u ? "true" : "false") : a.text;
        if (f.precision >= 0 && t.size() > static_cast<size_t>(f.precision)) t.resize(f.precision);
        out = pad_text(f, t, false);
        return RENDERED;
    }
    if (f.cls == 'c') {
        if (f.width != 0 || f.padkind != 0) return CONTRACT_ASSERT;
        if (a.kind == Arg::Char8) { out += static_cast<char>(a.u); return RENDERED; }   // a UTF-8 code unit is copied as is
        long long v;
        switch (a.kind) {
        case Arg::UInt: v = a.u > 0x10FFFF ? -1 : static_cast<long long>(a.u); break;
        case Arg::Char16: v = static_cast<long long>(a.u); break;
        case Arg::Char32: v = a.u > 0x10FFFF ? -1 : static_cast<long long>(a.u); break;
        default: v = a.s; break;                                                         // SInt, Char, WChar
        }
        if (v < 0 || v > 0x10FFFF) ref::enc_utf8(out, 0xFFFD);
        else ref::enc_utf8(out, static_cast<unsigned long>(v));
        return RENDERED;
    }
    // numeric rendering
    bool neg = false;
    unsigned long long mag;
    if (a.kind == Arg::SInt || a.kind == Arg::Char || a.kind == Arg::WChar) {
        neg = a.s < 0;
        mag = neg ? 0ull - static_cast<unsigned long long>(a.s) : static_cast<unsigned long long>(a.s);
    } else mag = a.u;
    int base = 10;
    bool upper = false;
    S prefix;
    switch (f.cls) {
    case 'x': base = 16; prefix = "0x"; break;
    case 'X': base = 16; upper = true; prefix = "0X"; break;
    case 'o': base = 8; prefix = "0"; break;
    case 'b': base = 2; prefix = "0b"; break;
    default: break;
    }
    S head;
    if (neg) head += '-';
    else if (f.plus) head += '+';
    if (f.alt && mag != 0) head += prefix;
    S dg = digits(mag, base, upper);
    if (f.padkind == 2) {
        // zero padding goes between sign/prefix and digits, always right-aligned
        size_t len = head.size() + dg.size();
        S zeros(f.width > static_cast<int>(len) ? static_cast<size_t>(f.width) - len : 0, '0');
        out = head + zeros + dg;
    } else {
        out = pad_text(f, head + dg, true);
    }
    return RENDERED;
}

// ---------------------------------------------------------------- generators
inline Field random_field(vrt::Rng &r, bool allow_char_class_padding)
{
    Field f;
    static const char aligns[] = {0, 0, '<', '>'};
    f.align = r.pick(aligns);
    switch (r.below(5)) {
    case 0: { static const char pads[] = {'*', '_', '.', '#', 'x', '-', '~', ' ', '0', 'c', '+', '<', '&'}; f.padkind = 1; f.padc = r.pick(pads); break; }
    case 1: f.padkind = 2; break;
    default: break;
    }
    // two pad specifications in one field: the later one is in force ("in every field order")
    if (f.padkind != 0 && r.chance(1, 4)) { f.overridden = static_cast<int>(1 + r.below(2)); static const char oc[] = {'#', '0', '!', ' '}; f.overridden_c = r.pick(oc); }
    if (r.chance(2, 3)) f.width = static_cast<int>(r.chance(1, 8) ? 1 + r.below(300) : 1 + r.below(24));
    if (r.chance(1, 4)) f.precision = static_cast<int>(r.below(12));
    f.alt = r.chance(1, 3);
    f.plus = r.chance(1, 3);
    static const char classes[] = {0, 0, 0, 'd', 'x', 'X', 'o', 'b', 'c'};
    f.cls = r.pick(classes);
    if (f.cls == 'c' && !allow_char_class_padding) { f.width = 0; f.padkind = 0; }
    f.order = {0, 1, 2, 3, 4, 5, 6, 7};
    for (size_t i = f.order.size(); i > 1; --i) std::swap(f.order[i - 1], f.order[r.below(i)]);
    return f;
}

inline S random_literal(vrt::Rng &r)
{
    static const char *const toks[] = {"", "", "a", "Z", " ", "{{", "}}", "}", "\xC3\xA9", "\xE2\x82\xAC", "\xF0\x9F\x98\x80", "x=", "[", "]", "%d", "\\", "&1", ".", "_", "0"};
    S out;
    for (size_t n = r.below(4); n-- > 0;) out += r.pick(toks);
    return out;
}
// what the literal contributes to the output
inline S literal_output(const S &lit)
{
    S out;
    for (size_t i = 0; i < lit.size(); ++i) {
        if ((lit[i] == '{' || lit[i] == '}') && i + 1 < lit.size() && lit[i + 1] == lit[i]) { out += lit[i]; ++i; }
        else out += lit[i];
    }
    return out;
}

// ---------------------------------------------------------------- typed values and call shapes
struct Values {
    signed char sc; unsigned char uc; short s; unsigned short us; int i; unsigned int u; long l; unsigned long ul; long long ll; unsigned long long ull;
    char c; wchar_t wc; char16_t c16; char32_t c32; char8_t c8; bool b;
    S text, text2;                 // backing storage
    std::wstring wtext; std::u16string u16text; std::u32string u32text; std::u8string u8text;
    // backing buffers of the string_view members: the views are interior sub-ranges, so the unit
    // after a view's end is never a terminator
    S svback; std::wstring wback; std::u16string u16back; std::u32string u32back; std::u8string u8back;
    const char *cstr; ST::string st; std::string ss; std::string_view sv;
    const wchar_t *wstr; const char16_t *u16; const char32_t *u32; const char8_t *u8;
    std::wstring ws; std::u16string s16; std::u32string s32; std::u8string s8;
    std::wstring_view wsv; std::u16string_view sv16; std::u32string_view sv32; std::u8string_view sv8;
};

inline Arg describe(signed char v) { Arg a; a.kind = Arg::SInt; a.s = v; a.type = "signed char"; return a; }
inline Arg describe(short v) { Arg a; a.kind = Arg::SInt; a.s = v; a.type = "short"; return a; }
inline Arg describe(int v) { Arg a; a.kind = Arg::SInt; a.s = v; a.type = "int"; return a; }
inline Arg describe(long v) { Arg a; a.kind = Arg::SInt; a.s = v; a.type = "long"; return a; }
inline Arg describe(long long v) { Arg a; a.kind = Arg::SInt; a.s = v; a.type = "long long"; return a; }
inline Arg describe(unsigned char v) { Arg a; a.kind = Arg::UInt; a.u = v; a.type = "unsigned char"; return a; }
inline Arg describe(unsigned short v) { Arg a; a.kind = Arg::UInt; a.u = v; a.type = "unsigned short"; return a; }
inline Arg describe(unsigned int v) { Arg a; a.kind = Arg::UInt; a.u = v; a.type = "unsigned int"; return a; }
inline Arg describe(unsigned long v) { Arg a; a.kind = Arg::UInt; a.u = v; a.type = "unsigned long"; return a; }
inline Arg describe(unsigned long long v) { Arg a; a.kind = Arg::UInt; a.u = v; a.type = "unsigned long long"; return a; }
inline Arg describe(char v) { Arg a; a.kind = Arg::Char; a.s = v; a.type = "char"; return a; }
inline Arg describe(wchar_t v) { Arg a; a.kind = Arg::WChar; a.s = static_cast<int>(v); a.type = "wchar_t"; return a; }
inline Arg describe(char16_t v) { Arg a; a.kind = Arg::Char16; a.u = v; a.type = "char16_t"; return a; }
inline Arg describe(char32_t v) { Arg a; a.kind = Arg::Char32; a.u = v; a.s = static_cast<int>(v); a.type = "char32_t"; return a; }
inline Arg describe(char8_t v) { Arg a; a.kind = Arg::Char8; a.u = v; a.type = "char8_t"; return a; }
inline Arg describe(bool v) { Arg a; a.kind = Arg::Bool; a.u = v; a.type = "bool"; return a; }
inline Arg text_arg(const S &t, const char *type) { Arg a; a.kind = Arg::Text; a.text = t; a.type = type; return a; }
inline Arg describe(const char *v) { return text_arg(v ? S(v) : S(), "const char*"); }
inline Arg describe(const ST::string &v) { return text_arg(S(v.c_str(), v.size()), "ST::string"); }
inline Arg describe(const std::string &v) { return text_arg(v, "std::string"); }
inline Arg describe(const std::string_view &v) { return text_arg(S(v), "std::string_view"); }
inline Arg describe(const char8_t *v) { return text_arg(S(reinterpret_cast<const char *>(v)), "const char8_t*"); }
inline Arg describe(const std::u8string &v) { return text_arg(S(reinterpret_cast<const char *>(v.data()), v.size()), "std::u8string"); }
inline Arg describe(const std::u8string_view &v) { return text_arg(S(reinterpret_cast<const char *>(v.data()), v.size()), "std::u8string_view"); }
template <typename It> inline S utf8_of(It b, It e) { S o; for (; b != e; ++b) ref::enc_utf8(o, static_cast<unsigned long>(*b)); return o; }
inline S utf8_of16(const std::u16string_view &v)
{
    ref::Decoded d = ref::decode_utf16(v.data(), v.size());
    S o;
    ref::to_utf8(d, false, o);
    return o;
}
inline Arg describe(const wchar_t *v) { std::wstring_view w(v); return text_arg(utf8_of(w.begin(), w.end()), "const wchar_t*"); }
inline Arg describe(const char32_t *v) { std::u32string_view w(v); return text_arg(utf8_of(w.begin(), w.end()), "const char32_t*"); }
inline Arg describe(const char16_t *v) { return text_arg(utf8_of16(v), "const char16_t*"); }
inline Arg describe(const std::wstring &v) { return text_arg(utf8_of(v.begin(), v.end()), "std::wstring"); }
inline Arg describe(const std::u32string &v) { return text_arg(utf8_of(v.begin(), v.end()), "std::u32string"); }
inline Arg describe(const std::u16string &v) { return text_arg(utf8_of16(v), "std::u16string"); }
inline Arg describe(const std::wstring_view &v) { return text_arg(utf8_of(v.begin(), v.end()), "std::wstring_view"); }
inline Arg describe(const std::u32string_view &v) { return text_arg(utf8_of(v.begin(), v.end()), "std::u32string_view"); }
inline Arg describe(const std::u16string_view &v) { return text_arg(utf8_of16(v), "std::u16string_view"); }

// A user-defined argument type whose formatter renders through ST::format itself and forwards the text ("render, then
// pad as a string") - a format call that starts while another one is running on the same thread.
struct Nested {
    long a;
    ST::string b;
};
inline void format_type(const ST::format_spec &format, ST::format_writer &output, const Nested &v)
{
    const ST::string inner = ST::format("<{}:{}>", v.a, v.b);
    ST::format_string(format, output, inner.c_str(), inner.size());
}
inline Arg describe(const Nested &v) { return text_arg("<" + std::to_string(v.a) + ":" + S(v.b.c_str(), v.b.size()) + ">", "Nested (formatter calling ST::format)"); }

template <typename... T> inline std::vector<Arg> describe_all(const T &...a) { return std::vector<Arg>{describe(a)...}; }

static const int NSHAPES = 52;

// Calls `sink(fmt, args...)` with the typed arguments of `shape`; fills *desc.
template <typename Sink>
inline void call_shape(int shape, const Values &v, const char *fmt, std::vector<Arg> *desc, Sink &&sink)
{
#define SH(n, ...)                                                \
    case n:                                                       \
        if (desc) *desc = describe_all(__VA_ARGS__);              \
        sink(fmt __VA_OPT__(, ) __VA_ARGS__);                     \
        return;
    switch (shape) {
        SH(0)
        SH(1, v.i)
        SH(2, v.cstr)
        SH(3, v.st)
        SH(4, v.ul, v.ss)
        SH(5, v.i, v.st, v.ul, v.cstr)
        SH(6, v.ll, v.b, v.c)
        SH(7, v.sv, v.us, v.sc)
        SH(8, v.wstr, v.u16, v.u32)
        SH(9, v.c32, v.wc, v.c16, v.c8)
        SH(10, v.uc, v.s, v.l, v.u)
        SH(11, v.ull, v.ws, v.b)
        SH(12, v.s16, v.s32, v.s8)
        SH(13, v.u8, v.sv8, v.i)
        SH(14, v.wsv, v.sv16, v.sv32)
        SH(15, v.st, v.st)
        SH(16, v.sc)
        SH(17, v.uc)
        SH(18, v.s)
        SH(19, v.us)
        SH(20, v.u)
        SH(21, v.l)
        SH(22, v.ul)
        SH(23, v.ll)
        SH(24, v.ull)
        SH(25, v.c)
        SH(26, v.wc)
        SH(27, v.c16)
        SH(28, v.c32)
        SH(29, v.c8)
        SH(30, v.b)
        SH(31, v.ss)
        SH(32, v.sv)
        SH(33, v.wstr)
        SH(34, v.u16)
        SH(35, v.u32)
        SH(36, v.u8)
        SH(37, v.ws)
        SH(38, v.s16)
        SH(39, v.s32)
        SH(40, v.s8)
        SH(41, v.wsv)
        SH(42, v.sv16)
        SH(43, v.sv32)
        SH(44, v.sv8)
        SH(45, v.cstr, v.i)
        SH(46, v.b, v.ll, v.st)
        SH(47, v.i, v.i, v.i, v.i, v.i)
        SH(48, Nested{v.l, v.st})
        SH(49, v.i, Nested{v.ll, v.st}, v.b)
    case 50: {   // the same non-const lvalue objects passed for two parameters each
        ST::string a = v.st; std::string b = v.ss; std::wstring c = v.ws;
        if (desc) *desc = describe_all(a, a, b, b, c, c);
        sink(fmt, a, a, b, b, c, c);
        return;
    }
    case 51: {   // ... and named rvalue-capable locals mixed with their own copies
        ST::string a = v.st; std::u16string b = v.s16;
        if (desc) *desc = describe_all(a, v.i, a, b, b);
        sink(fmt, a, v.i, a, b, b);
        return;
    }
    default: return;
    }
#undef SH
}

inline unsigned long random_cp(vrt::Rng &r)
{
    switch (r.below(5)) {
    case 0: return 0x20 + r.below(0x5f);
    case 1: return 0xA0 + r.below(0x700);
    case 2: { unsigned long c = 0x800 + r.below(0xF7FF); return (c >= 0xD800 && c <= 0xDFFF) ? 0x20AC : c; }
    case 3: return 0x10000 + r.below(0x100000);
    default: return 'a' + r.below(26);
    }
}

inline unsigned long long random_mag(vrt::Rng &r)
{
    switch (r.below(8)) {
    case 0: return 0;
    case 1: return 1 + r.below(9);
    case 2: return r.below(256);
    case 3: return r.next() >> (1 + r.below(63));
    case 4: return ~0ull >> r.below(64);                 // all-ones of every width
    case 5: return 1ull << r.below(64);                  // single bits (type minimums)
    case 6: return r.below(0x110000 + 64);               // around the code point range
    default: return r.next();
    }
}

// fills every member with a random value (texts are valid UTF-8 / UTF-16 / UTF-32)
inline void random_values(vrt::Rng &r, Values &v)
{
    auto mag = [&]() { return random_mag(r); };
    auto sgn = [&](unsigned long long m) { return r.chance(1, 2) ? static_cast<long long>(m) : static_cast<long long>(0ull - m); };
    v.sc = static_cast<signed char>(sgn(mag())); v.uc = static_cast<unsigned char>(mag());
    v.s = static_cast<short>(sgn(mag())); v.us = static_cast<unsigned short>(mag());
    v.i = static_cast<int>(sgn(mag())); v.u = static_cast<unsigned int>(mag());
    v.l = static_cast<long>(sgn(mag())); v.ul = static_cast<unsigned long>(mag());
    v.ll = sgn(mag()); v.ull = mag();
    v.c = static_cast<char>(r.chance(3, 4) ? 0x20 + r.below(0x5f) : r.below(256));
    v.wc = static_cast<wchar_t>(r.chance(3, 4) ? random_cp(r) : static_cast<unsigned long>(sgn(mag())));
    v.c16 = static_cast<char16_t>(r.chance(3, 4) ? (random_cp(r) & 0xFFFF) : mag());
    if (v.c16 >= 0xD800 && v.c16 <= 0xDFFF && r.chance(1, 2)) v.c16 = u'x';
    v.c32 = static_cast<char32_t>(r.chance(3, 4) ? random_cp(r) : mag());
    v.c8 = static_cast<char8_t>(r.chance(3, 4) ? 0x20 + r.below(0x5f) : r.below(256));
    v.b = r.chance(1, 2);
    auto text = [&](size_t maxlen) {
        S t;
        size_t n = r.chance(1, 6) ? 0 : r.below(maxlen);
        for (size_t k = 0; k < n; ++k) ref::enc_utf8(t, r.chance(2, 3) ? 'a' + r.below(26) : random_cp(r));
        return t;
    };
    v.text = text(r.chance(1, 5) ? 40 : 10);
    v.text2 = text(12);
    v.cstr = v.text.c_str();
    v.st = ST::string::from_validated(v.text2.data(), v.text2.size());
    v.ss = text(10);
    v.svback = "<" + v.text + ">tail";
    v.sv = std::string_view(v.svback).substr(1, v.text.size());
    std::u32string w32;
    for (size_t n = r.below(8); n-- > 0;) w32 += static_cast<char32_t>(random_cp(r));
    v.u32text = w32;
    v.wtext.assign(w32.begin(), w32.end());
    v.u16text.clear();
    for (char32_t c : w32) ref::enc_utf16(v.u16text, c);
    S u8t = text(9);
    v.u8text.assign(reinterpret_cast<const char8_t *>(u8t.data()), u8t.size());
    v.wstr = v.wtext.c_str(); v.u16 = v.u16text.c_str(); v.u32 = v.u32text.c_str(); v.u8 = v.u8text.c_str();
    v.ws = v.wtext; v.s16 = v.u16text; v.s32 = v.u32text; v.s8 = v.u8text;
    v.wback = L"<" + v.wtext + L">tail"; v.u16back = u"<" + v.u16text + u">tail"; v.u32back = U"<" + v.u32text + U">tail"; v.u8back = u8"<" + v.u8text + u8">tail";
    v.wsv = std::wstring_view(v.wback).substr(1, v.wtext.size());
    v.sv16 = std::u16string_view(v.u16back).substr(1, v.u16text.size());
    v.sv32 = std::u32string_view(v.u32back).substr(1, v.u32text.size());
    v.sv8 = std::u8string_view(v.u8back).substr(1, v.u8text.size());
}

inline S describe_values(const std::vector<Arg> &args)
{
    S o;
    for (size_t i = 0; i < args.size(); ++i) {
        const Arg &a = args[i];
        if (i) o += ", ";
        o += a.type;
        o += "=";
        switch (a.kind) {
        case Arg::Text: o += "\"" + vrt::hex(a.text.data(), a.text.size(), 1, 40) + "\"(hex)"; break;
        case Arg::Bool: o += a.u ? "true" : "false"; break;
        case Arg::SInt: case Arg::Char: case Arg::WChar: o += vrt::sfmt("%lld", a.s); break;
        default: o += vrt::sfmt("%llu", a.u); break;
        }
    }
    return o;
}

} // namespace fmtref
