// Reference decoders / encoders for C01-C03 (and users of "is this valid
// UTF-8"), written from the property statements and the Unicode definitions.
// No code shared with the library.
//
// Decoding reads left to right.  Forms the library tolerates by design
// (overlong encodings, encoded surrogates, 4-byte forms above U+10FFFF, a low
// surrogate followed by a high one) decode to their value; every unit that
// cannot be part of a sequence where it stands is one BAD unit.
#pragma once
#include <cstdint>
#include <string>
#include <vector>

namespace ref {

static const long BAD = -1;
typedef std::vector<long> Decoded;      // code point values, or BAD per bad unit

inline Decoded decode_utf8(const unsigned char *s, size_t n)
{
    Decoded out;
    size_t i = 0;
    auto cont = [&](size_t k) { return k < n && (s[k] & 0xC0) == 0x80; };
    while (i < n) {
        unsigned b = s[i];
        if (b < 0x80) { out.push_back(b); i += 1; }
        else if (b >= 0xC0 && b <= 0xDF) {
            if (cont(i + 1)) { out.push_back(((b & 0x1F) << 6) | (s[i + 1] & 0x3F)); i += 2; }
            else { out.push_back(BAD); i += 1; }
        } else if (b >= 0xE0 && b <= 0xEF) {
            if (cont(i + 1) && cont(i + 2)) {
                out.push_back(((b & 0x0F) << 12) | ((s[i + 1] & 0x3F) << 6) | (s[i + 2] & 0x3F));
                i += 3;
            } else { out.push_back(BAD); i += 1; }
        } else if (b >= 0xF0 && b <= 0xF7) {
            if (cont(i + 1) && cont(i + 2) && cont(i + 3)) {
                out.push_back((static_cast<long>(b & 0x07) << 18) | ((s[i + 1] & 0x3F) << 12) | ((s[i + 2] & 0x3F) << 6) | (s[i + 3] & 0x3F));
                i += 4;
            } else { out.push_back(BAD); i += 1; }
        } else {            // 80-BF stray continuation, F8-FF
            out.push_back(BAD);
            i += 1;
        }
    }
    return out;
}
inline Decoded decode_utf8(const std::string &s) { return decode_utf8(reinterpret_cast<const unsigned char *>(s.data()), s.size()); }

inline Decoded decode_utf16(const char16_t *s, size_t n)
{
    Decoded out;
    size_t i = 0;
    while (i < n) {
        unsigned u = s[i];
        if (u < 0xD800 || u > 0xDFFF) { out.push_back(u); i += 1; continue; }
        bool hi = u <= 0xDBFF;
        if (i + 1 < n) {
            unsigned v = s[i + 1];
            if (hi && v >= 0xDC00 && v <= 0xDFFF) {
                out.push_back(0x10000 + ((u & 0x3FF) << 10) + (v & 0x3FF));
                i += 2;
                continue;
            }
            if (!hi && v >= 0xD800 && v <= 0xDBFF) {       // tolerated: low then high
                out.push_back(0x10000 + (u & 0x3FF) + ((v & 0x3FF) << 10));
                i += 2;
                continue;
            }
        }
        out.push_back(BAD);
        i += 1;
    }
    return out;
}
inline Decoded decode_utf32(const char32_t *s, size_t n)
{
    Decoded out;
    for (size_t i = 0; i < n; ++i)
        out.push_back(s[i] > 0x10FFFF ? BAD : static_cast<long>(s[i]));
    return out;
}
inline Decoded decode_latin1(const unsigned char *s, size_t n)
{
    Decoded out;
    for (size_t i = 0; i < n; ++i) out.push_back(s[i]);
    return out;
}

inline bool has_bad(const Decoded &d)
{
    for (long v : d) if (v == BAD) return true;
    return false;
}
inline bool utf8_ok(const std::string &s) { return !has_bad(decode_utf8(s)); }

// ---- standard encoders (value must be <= 0x10FFFF)
inline void enc_utf8(std::string &out, unsigned long cp)
{
    if (cp < 0x80) out += static_cast<char>(cp);
    else if (cp < 0x800) { out += static_cast<char>(0xC0 | (cp >> 6)); out += static_cast<char>(0x80 | (cp & 0x3F)); }
    else if (cp < 0x10000) {
        out += static_cast<char>(0xE0 | (cp >> 12));
        out += static_cast<char>(0x80 | ((cp >> 6) & 0x3F));
        out += static_cast<char>(0x80 | (cp & 0x3F));
    } else {
        out += static_cast<char>(0xF0 | (cp >> 18));
        out += static_cast<char>(0x80 | ((cp >> 12) & 0x3F));
        out += static_cast<char>(0x80 | ((cp >> 6) & 0x3F));
        out += static_cast<char>(0x80 | (cp & 0x3F));
    }
}
inline void enc_utf16(std::u16string &out, unsigned long cp)
{
    if (cp < 0x10000) out += static_cast<char16_t>(cp);
    else {
        cp -= 0x10000;
        out += static_cast<char16_t>(0xD800 + (cp >> 10));
        out += static_cast<char16_t>(0xDC00 + (cp & 0x3FF));
    }
}

// Expected outcome of a conversion of `d` into each target encoding.
// `strict` = check_validity.  Returns false when ST::unicode_error is expected.
inline bool to_utf8(const Decoded &d, bool strict, std::string &out)
{
    out.clear();
    for (long v : d) {
        if (v == BAD || v > 0x10FFFF) {          // (> 10FFFF only reachable from a UTF-8 source, which is never re-encoded to UTF-8 by a converter)
            if (strict) return false;
            enc_utf8(out, 0xFFFD);
        } else enc_utf8(out, static_cast<unsigned long>(v));
    }
    return true;
}
inline bool to_utf16(const Decoded &d, bool strict, std::u16string &out)
{
    out.clear();
    for (long v : d) {
        if (v == BAD || v > 0x10FFFF) {          // UTF-16 cannot represent values above 10FFFF
            if (strict) return false;
            out += static_cast<char16_t>(0xFFFD);
        } else enc_utf16(out, static_cast<unsigned long>(v));
    }
    return true;
}
inline bool to_utf32(const Decoded &d, bool strict, std::u32string &out)
{
    out.clear();
    for (long v : d) {
        if (v == BAD) {
            if (strict) return false;
            out += static_cast<char32_t>(0xFFFD);
        } else out += static_cast<char32_t>(v);  // tolerated 4-byte forms above 10FFFF keep their value
    }
    return true;
}
// substitute_out_of_range=false: a decoded value >= 0x100 is an error in every mode
inline bool to_latin1(const Decoded &d, bool strict, bool subst_oor, std::string &out)
{
    out.clear();
    for (long v : d) {
        if (v == BAD) {
            if (strict) return false;
            out += '?';
        } else if (v >= 0x100) {
            if (!subst_oor) return false;
            out += '?';
        } else out += static_cast<char>(v);
    }
    return true;
}

// UTF-8 -> ST::string under substitute_invalid: valid and tolerated forms are
// copied verbatim, each bad unit becomes EF BF BD
inline std::string cleanup_utf8(const std::string &s)
{
    const unsigned char *p = reinterpret_cast<const unsigned char *>(s.data());
    size_t n = s.size(), i = 0;
    std::string out;
    auto cont = [&](size_t k) { return k < n && (p[k] & 0xC0) == 0x80; };
    while (i < n) {
        unsigned b = p[i];
        size_t len = 0;
        if (b < 0x80) len = 1;
        else if (b >= 0xC0 && b <= 0xDF && cont(i + 1)) len = 2;
        else if (b >= 0xE0 && b <= 0xEF && cont(i + 1) && cont(i + 2)) len = 3;
        else if (b >= 0xF0 && b <= 0xF7 && cont(i + 1) && cont(i + 2) && cont(i + 3)) len = 4;
        if (len) { out.append(s, i, len); i += len; }
        else { out += "\xEF\xBF\xBD"; i += 1; }
    }
    return out;
}

// true when the decoded sequence contains a form that is tolerated but not
// standard when seen from the *values* (surrogate code points, > 10FFFF)
inline bool has_nonscalar(const Decoded &d)
{
    for (long v : d) if (v != BAD && ((v >= 0xD800 && v <= 0xDFFF) || v > 0x10FFFF)) return true;
    return false;
}

inline bool is_scalar(unsigned long cp) { return cp <= 0x10FFFF && !(cp >= 0xD800 && cp <= 0xDFFF); }

} // namespace ref
