// vrt allocation registry: replacement global operator new/delete on top of
// malloc (which stays ASan-instrumented: red zones, quarantine, UAF detection).
// Include in exactly one TU, after vrt.h.  Single-threaded harnesses only
// (the TSan harness does not include it).
#pragma once
#include "vrt.h"

namespace vrt { namespace alloc {

struct Block {
    void *ptr;
    size_t size;
    uint32_t serial;
    uint8_t is_array;
    uint8_t in_lib;
    uint8_t state;   // 0 empty, 1 live, 2 tombstone
};

struct Registry {
    Block *tab = nullptr;
    size_t cap = 0, used = 0, live = 0, live_lib = 0, live_lib_arrays = 0;
    uint32_t serial = 0;
    // library-scope accounting
    int lib_depth = 0;
    uint64_t lib_allocs = 0;       // allocations made inside the current outermost scope
    uint64_t lib_allocs_total = 0;
    uint64_t lib_bytes = 0;
    size_t max_request = 0;
    int64_t fail_at = -1;          // fail the k-th (1-based) in-scope allocation
    bool fired = false;
    bool runaway = false;
    size_t scope_cap = static_cast<size_t>(64) << 20;
    int poison = -1;               // fill byte for fresh blocks, -1 = none
    uint64_t mismatches = 0;
    uint64_t total_news = 0, total_deletes = 0;
};
inline Registry &reg() { static Registry r; return r; }

inline size_t slot_of(void *p, size_t cap)
{
    uintptr_t v = reinterpret_cast<uintptr_t>(p);
    v = (v >> 4) * 0x9E3779B97F4A7C15ull;
    return static_cast<size_t>(v >> 20) & (cap - 1);
}

inline void grow()
{
    Registry &r = reg();
    size_t ncap = r.cap ? r.cap * 2 : 4096;
    // shrink tombstones: rebuild at same size if few live
    if (r.cap && r.live * 4 < r.cap)
        ncap = r.cap;
    Block *nt = static_cast<Block *>(calloc(ncap, sizeof(Block)));
    if (!nt) { fprintf(stderr, "vrt: registry out of memory\n"); _exit(98); }
    for (size_t i = 0; i < r.cap; ++i) {
        if (r.tab[i].state == 1) {
            size_t s = slot_of(r.tab[i].ptr, ncap);
            while (nt[s].state == 1) s = (s + 1) & (ncap - 1);
            nt[s] = r.tab[i];
        }
    }
    free(r.tab);
    r.tab = nt;
    r.cap = ncap;
    r.used = r.live;
}

inline Block *find(const void *p)
{
    Registry &r = reg();
    if (!r.cap || !p) return nullptr;
    size_t s = slot_of(const_cast<void *>(p), r.cap);
    for (size_t n = 0; n < r.cap; ++n) {
        Block &b = r.tab[s];
        if (b.state == 0) return nullptr;
        if (b.state == 1 && b.ptr == p) return &b;
        s = (s + 1) & (r.cap - 1);
    }
    return nullptr;
}

// the live block containing address p (linear scan; used on a handful of
// objects per step only when `p` is not a block start)
inline Block *containing(const void *p)
{
    Registry &r = reg();
    const char *c = static_cast<const char *>(p);
    for (size_t i = 0; i < r.cap; ++i) {
        Block &b = r.tab[i];
        if (b.state == 1) {
            const char *s = static_cast<const char *>(b.ptr);
            if (c >= s && c < s + (b.size ? b.size : 1)) return &b;
        }
    }
    return nullptr;
}

#if defined(__SANITIZE_ADDRESS__)
#define VRT_ALLOC_ASAN 1
#elif defined(__has_feature)
#if __has_feature(address_sanitizer)
#define VRT_ALLOC_ASAN 1
#endif
#endif
#ifdef VRT_ALLOC_ASAN
extern "C" void __asan_poison_memory_region(void const volatile *addr, size_t size);
extern "C" void __asan_unpoison_memory_region(void const volatile *addr, size_t size);
#endif

// Address reuse for blocks that go through operator new / delete (the library's heap blocks among them): ASan's quarantine
// keeps a released block away from the allocator for a long time, so state keyed by the address of a heap block would never
// be stale in these runs, while a real allocator hands the address out again at once.  One release in four of a block of up
// to 8 KiB is parked (poisoned meanwhile) and given to the next request of exactly that size, refilled with the 0xbe pattern
// ASan gives fresh memory (so that "result unit never written" monitors see what they would see on a fresh block).
struct NewPool {
    enum { SLOTS = 127, BIG = 3, SMALL_MAX = 8192, BIG_MAX = 4 << 20 };
    void *ptr[SLOTS];
    size_t size[SLOTS];
    void *bptr[BIG];
    size_t bsize[BIG];
    unsigned bnext;
    uint64_t reused;
};
inline NewPool &new_pool() { static NewPool *p = static_cast<NewPool *>(calloc(1, sizeof(NewPool))); return *p; }
inline void pool_unpoison(void *p, size_t n)
{
#ifdef VRT_ALLOC_ASAN
    __asan_unpoison_memory_region(p, n);
#else
    (void)p; (void)n;
#endif
}
inline void pool_poison(void *p, size_t n)
{
#ifdef VRT_ALLOC_ASAN
    __asan_poison_memory_region(p, n);
#else
    (void)p; (void)n;
#endif
}
inline void *pool_take(size_t size)
{
    if (!vrt::placement_here() || size == 0 || size > NewPool::BIG_MAX) return nullptr;
    NewPool &np = new_pool();
    void *p = nullptr;
    if (size <= NewPool::SMALL_MAX) {
        const size_t k = size % NewPool::SLOTS;
        if (np.ptr[k] && np.size[k] == size) { p = np.ptr[k]; np.ptr[k] = nullptr; }
    } else {
        for (int i = 0; i < NewPool::BIG; ++i)
            if (np.bptr[i] && np.bsize[i] == size) { p = np.bptr[i]; np.bptr[i] = nullptr; break; }
    }
    if (!p) return nullptr;
    pool_unpoison(p, size);
    memset(p, 0xbe, size);
    ++np.reused;
    ++vrt::recycled_new_blocks();
    return p;
}
inline bool pool_park(void *p, size_t size)
{
    if (!vrt::placement_here() || size == 0 || size > NewPool::BIG_MAX || !vrt::placement_park_decision()) return false;
    NewPool &np = new_pool();
    if (size <= NewPool::SMALL_MAX) {
        const size_t k = size % NewPool::SLOTS;
        if (np.ptr[k]) { pool_unpoison(np.ptr[k], np.size[k]); free(np.ptr[k]); }
        np.ptr[k] = p;
        np.size[k] = size;
    } else {
        const unsigned k = np.bnext++ % NewPool::BIG;
        if (np.bptr[k]) { pool_unpoison(np.bptr[k], np.bsize[k]); free(np.bptr[k]); }
        np.bptr[k] = p;
        np.bsize[k] = size;
    }
    pool_poison(p, size);
    return true;
}

inline void *do_new(size_t size, bool is_array)
{
    Registry &r = reg();
    ++r.total_news;
    bool lib = r.lib_depth > 0;
    if (lib) {
        ++r.lib_allocs;
        ++r.lib_allocs_total;
        if (size > r.max_request) r.max_request = size;
        if (r.fail_at > 0 && static_cast<int64_t>(r.lib_allocs) == r.fail_at) {
            r.fired = true;
            throw std::bad_alloc();
        }
        if (size > r.scope_cap || r.lib_bytes + size > r.scope_cap) {
            r.runaway = true;
            throw std::bad_alloc();
        }
        r.lib_bytes += size;
    }
    void *p = pool_take(size);
    if (!p) p = malloc(size ? size : 1);
    if (!p) throw std::bad_alloc();
    if (r.poison >= 0 && size) memset(p, r.poison, size);
    if ((r.used + 1) * 10 >= r.cap * 7) grow();
    size_t s = slot_of(p, r.cap);
    while (r.tab[s].state == 1) s = (s + 1) & (r.cap - 1);
    if (r.tab[s].state == 0) ++r.used;
    r.tab[s].ptr = p;
    r.tab[s].size = size;
    r.tab[s].serial = ++r.serial;
    r.tab[s].is_array = is_array;
    r.tab[s].in_lib = lib;
    r.tab[s].state = 1;
    ++r.live;
    if (lib) { ++r.live_lib; if (is_array) ++r.live_lib_arrays; }
    return p;
}

inline void do_delete(void *p, bool is_array) noexcept
{
    if (!p) return;
    Registry &r = reg();
    ++r.total_deletes;
    Block *b = find(p);
    if (!b) {
        // not ours: let free() / ASan decide (bad-free, double-free -> report)
        cur_printf("REGISTRY delete of unknown pointer %p\n", p);
        free(p);
        return;
    }
    if (b->is_array != (is_array ? 1 : 0)) {
        ++r.mismatches;
        cur_printf("REGISTRY new/delete form mismatch on %p\n", p);
    }
    if (b->in_lib) { --r.live_lib; if (b->is_array) --r.live_lib_arrays; }
    --r.live;
    b->state = 2;
    const size_t bsize = b->size;
    if (!pool_park(p, bsize)) free(p);
}

// RAII: allocations inside are attributed to the library call under test
struct LibScope {
    LibScope()
    {
        Registry &r = reg();
        if (r.lib_depth++ == 0) {
            r.lib_allocs = 0;
            r.lib_bytes = 0;
            r.max_request = 0;
            r.runaway = false;
            r.fired = false;
        }
    }
    ~LibScope() { --reg().lib_depth; }
};

// RAII: suspend attribution (harness bookkeeping inside a library scope)
struct HarnessScope {
    int saved;
    HarnessScope() : saved(reg().lib_depth) { reg().lib_depth = 0; }
    ~HarnessScope() { reg().lib_depth = saved; }
};

inline void fail_nth(int64_t k) { reg().fail_at = k; reg().fired = false; }
inline void fail_off() { reg().fail_at = -1; }
inline void set_poison(int byte) { reg().poison = byte; }

}} // namespace vrt::alloc

void *operator new(size_t n) { return vrt::alloc::do_new(n, false); }
void *operator new[](size_t n) { return vrt::alloc::do_new(n, true); }
void *operator new(size_t n, const std::nothrow_t &) noexcept
{
    try { return vrt::alloc::do_new(n, false); } catch (...) { return nullptr; }
}
void *operator new[](size_t n, const std::nothrow_t &) noexcept
{
    try { return vrt::alloc::do_new(n, true); } catch (...) { return nullptr; }
}
void operator delete(void *p) noexcept { vrt::alloc::do_delete(p, false); }
void operator delete[](void *p) noexcept { vrt::alloc::do_delete(p, true); }
void operator delete(void *p, size_t) noexcept { vrt::alloc::do_delete(p, false); }
void operator delete[](void *p, size_t) noexcept { vrt::alloc::do_delete(p, true); }
void operator delete(void *p, const std::nothrow_t &) noexcept { vrt::alloc::do_delete(p, false); }
void operator delete[](void *p, const std::nothrow_t &) noexcept { vrt::alloc::do_delete(p, true); }

namespace vrt { namespace alloc {
// new/new[] vs delete/delete[] pairing is checked by the registry (replacing
// the operators loses ASan's alloc-dealloc-mismatch check); harnesses call
// this at quiescent points.
inline void check_pairing(const char *where)
{
    Registry &r = reg();
    if (r.mismatches) {
        HarnessScope hs;
        vrt::violation(std::string("alloc:new-delete-form-mismatch@") + where,
                       vrt::sfmt("%llu blocks released with the wrong delete form",
                                 static_cast<unsigned long long>(r.mismatches)));
        r.mismatches = 0;
    }
}
}}
