// Reference model for searching / slicing / splitting, written from the
// property statements (C07, C08, C09) with naive scans.  No code shared with
// the library.
#pragma once
#include <string>
#include <vector>
#include <cstdint>
#include <cstddef>

namespace ref {

typedef std::string S;
static const size_t NPOS_MAX = static_cast<size_t>(-1);

inline unsigned char fold(unsigned char c) { return (c >= 'A' && c <= 'Z') ? static_cast<unsigned char>(c + 32) : c; }
inline S folded(const S &s)
{
    S r(s);
    for (auto &c : r) c = static_cast<char>(fold(static_cast<unsigned char>(c)));
    return r;
}
inline S uppered(const S &s)
{
    S r(s);
    for (auto &c : r) {
        unsigned char u = static_cast<unsigned char>(c);
        if (u >= 'a' && u <= 'z') c = static_cast<char>(u - 32);
    }
    return r;
}
inline bool eq_at(const S &h, size_t pos, const S &n, bool ci)
{
    if (pos > h.size() || n.size() > h.size() - pos) return false;
    for (size_t i = 0; i < n.size(); ++i) {
        unsigned char a = static_cast<unsigned char>(h[pos + i]), b = static_cast<unsigned char>(n[i]);
        if (ci) { a = fold(a); b = fold(b); }
        if (a != b) return false;
    }
    return true;
}

// smallest index >= start where n occurs; -1 if none, n empty, start >= |h|
inline long find(const S &h, const S &n, size_t start, bool ci)
{
    if (n.empty() || start >= h.size()) return -1;
    for (size_t i = start; i + n.size() <= h.size(); ++i)
        if (eq_at(h, i, n, ci)) return static_cast<long>(i);
    return -1;
}
// largest index of an occurrence lying entirely before limit
inline long find_last(const S &h, const S &n, size_t limit, bool ci)
{
    if (n.empty() || h.empty()) return -1;
    size_t end = limit > h.size() ? h.size() : limit;
    long best = -1;
    for (size_t i = 0; i + n.size() <= end; ++i)
        if (eq_at(h, i, n, ci)) best = static_cast<long>(i);
    return best;
}
inline bool starts_with(const S &h, const S &p, bool ci) { return p.size() <= h.size() && eq_at(h, 0, p, ci); }
inline bool ends_with(const S &h, const S &p, bool ci) { return p.size() <= h.size() && eq_at(h, h.size() - p.size(), p, ci); }

// bytes [start, start+count) clipped; negative start counts from the end;
// start beyond the end gives empty
inline S substr(const S &s, long start, size_t count)
{
    size_t n = s.size();
    size_t b;
    if (start < 0) {
        // -k means n-k, clamped at 0 (computed without overflow)
        unsigned long k = 0ul - static_cast<unsigned long>(start);
        b = k >= n ? 0 : n - k;
    } else {
        if (static_cast<size_t>(start) > n) return S();
        b = static_cast<size_t>(start);
    }
    size_t avail = n - b;
    size_t c = count > avail ? avail : count;
    return s.substr(b, c);
}
inline S left(const S &s, size_t k) { return s.substr(0, k > s.size() ? s.size() : k); }
inline S right(const S &s, size_t k) { size_t c = k > s.size() ? s.size() : k; return s.substr(s.size() - c); }

inline bool in_set(const S &set, char c) { return set.find(c) != S::npos; }
inline S trim_left(const S &s, const S &set)
{
    size_t b = 0;
    while (b < s.size() && in_set(set, s[b])) ++b;
    return s.substr(b);
}
inline S trim_right(const S &s, const S &set)
{
    size_t e = s.size();
    while (e > 0 && in_set(set, s[e - 1])) --e;
    return s.substr(0, e);
}
inline S trim(const S &s, const S &set) { return trim_right(trim_left(s, set), set); }

inline S before_first(const S &s, const S &sep, bool ci) { long i = find(s, sep, 0, ci); return i >= 0 ? s.substr(0, i) : s; }
inline S after_first(const S &s, const S &sep, bool ci) { long i = find(s, sep, 0, ci); return i >= 0 ? s.substr(i + sep.size()) : S(); }
inline S before_last(const S &s, const S &sep, bool ci) { long i = find_last(s, sep, NPOS_MAX, ci); return i >= 0 ? s.substr(0, i) : S(); }
inline S after_last(const S &s, const S &sep, bool ci) { long i = find_last(s, sep, NPOS_MAX, ci); return i >= 0 ? s.substr(i + sep.size()) : s; }

// cut at the first `max` non-overlapping occurrences left to right
inline std::vector<S> split(const S &s, const S &sep, size_t max, bool ci)
{
    std::vector<S> out;
    size_t pos = 0;
    if (!sep.empty()) {
        while (max > 0) {
            // find from pos; (start >= size -> no match, also when pos == size)
            long i = -1;
            for (size_t k = pos; k + sep.size() <= s.size(); ++k)
                if (eq_at(s, k, sep, ci)) { i = static_cast<long>(k); break; }
            if (i < 0) break;
            out.push_back(s.substr(pos, i - pos));
            pos = i + sep.size();
            --max;
        }
    }
    out.push_back(s.substr(pos));
    return out;
}
inline S join(const std::vector<S> &pieces, const S &sep)
{
    S r;
    for (size_t i = 0; i < pieces.size(); ++i) {
        if (i) r += sep;
        r += pieces[i];
    }
    return r;
}
inline std::vector<S> tokenize(const S &s, const S &delims)
{
    std::vector<S> out;
    size_t i = 0;
    while (i < s.size()) {
        while (i < s.size() && in_set(delims, s[i])) ++i;
        size_t b = i;
        while (i < s.size() && !in_set(delims, s[i])) ++i;
        if (i > b) out.push_back(s.substr(b, i - b));
    }
    return out;
}
// replace every non-overlapping left-to-right occurrence; *k = number replaced
inline S replace(const S &s, const S &from, const S &to, bool ci, size_t *k = nullptr)
{
    size_t n = 0;
    if (from.empty()) { if (k) *k = 0; return s; }
    S out;
    size_t pos = 0;
    while (pos < s.size()) {
        if (eq_at(s, pos, from, ci)) {
            out += to;
            pos += from.size();
            ++n;
        } else {
            out += s[pos++];
        }
    }
    if (k) *k = n;
    return out;
}

// unsigned lexicographic compare, proper prefix first
inline int compare(const S &a, const S &b)
{
    size_t n = a.size() < b.size() ? a.size() : b.size();
    for (size_t i = 0; i < n; ++i) {
        unsigned char x = static_cast<unsigned char>(a[i]), y = static_cast<unsigned char>(b[i]);
        if (x != y) return x < y ? -1 : 1;
    }
    return a.size() < b.size() ? -1 : a.size() > b.size() ? 1 : 0;
}
inline int sign(long v) { return v < 0 ? -1 : v > 0 ? 1 : 0; }

} // namespace ref
