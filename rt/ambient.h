// ambient.h - hostile ambient state.  The library is specified in terms of bytes, ASCII letters and the "C" number
// formats; none of its results may depend on the process-wide locale.  A harness that calls ambient::enable(n) runs one
// case in n with
//   * a global C++ locale (std::locale::global) whose ctype<char> / ctype<wchar_t> facets fold bytes 0xC0..0xDE onto
//     0xE0..0xFE the way ISO-8859-1/-9 locales do, do NOT pair 'I' with 'i' (Turkish style: 'I' <-> 0xFD, 'i' <-> 0xDD),
//     classify 0xA0 and 0x85 as white space, and whose numpunct facets use ',' as decimal point, '.' as thousands
//     separator with grouping by three and other names for true / false;
//   * the C locale switched to "C.utf8" (the only other C locale on this image).
// The other cases run with the classic locale.  Which cases are which is a function of (phase, index) only, so a
// replay reproduces it.  Streams the harness hands to the library are created while that locale is in force (they pick
// it up, as user streams would); streams the harness uses for its own bookkeeping must imbue std::locale::classic().
#pragma once
#include "vrt.h"
#include <locale>
#include <clocale>

namespace ambient {

struct hostile_ctype : std::ctype<char> {
    mask tab[table_size];
    explicit hostile_ctype(size_t refs = 0) : std::ctype<char>(tab, false, refs)
    {
        const mask *c = classic_table();
        for (size_t i = 0; i < table_size; ++i) tab[i] = c[i];
        tab[0xA0] = space; tab[0x85] = space;
        for (size_t i = 0xC0; i <= 0xDE; ++i) if (i != 0xD7) tab[i] = upper | alpha | print;
        for (size_t i = 0xDF; i <= 0xFF; ++i) if (i != 0xF7) tab[i] = lower | alpha | print;
    }
    static unsigned char up(unsigned char c)
    {
        if (c == 'i') return 0xDD;
        if (c == 0xFD) return 'I';
        if (c >= 'a' && c <= 'z') return static_cast<unsigned char>(c - 32);
        if (c >= 0xE0 && c <= 0xFE && c != 0xF7) return static_cast<unsigned char>(c - 32);
        return c;
    }
    static unsigned char lo(unsigned char c)
    {
        if (c == 'I') return 0xFD;
        if (c == 0xDD) return 'i';
        if (c >= 'A' && c <= 'Z') return static_cast<unsigned char>(c + 32);
        if (c >= 0xC0 && c <= 0xDE && c != 0xD7) return static_cast<unsigned char>(c + 32);
        return c;
    }
    char do_toupper(char c) const override { return static_cast<char>(up(static_cast<unsigned char>(c))); }
    const char *do_toupper(char *b, const char *e) const override { for (; b != e; ++b) *b = do_toupper(*b); return e; }
    char do_tolower(char c) const override { return static_cast<char>(lo(static_cast<unsigned char>(c))); }
    const char *do_tolower(char *b, const char *e) const override { for (; b != e; ++b) *b = do_tolower(*b); return e; }
};

struct hostile_wctype : std::ctype<wchar_t> {
    explicit hostile_wctype(size_t refs = 0) : std::ctype<wchar_t>(refs) { }
    wchar_t do_toupper(wchar_t c) const override { return (c >= 0 && c < 256) ? static_cast<wchar_t>(hostile_ctype::up(static_cast<unsigned char>(c))) : c; }
    const wchar_t *do_toupper(wchar_t *b, const wchar_t *e) const override { for (; b != e; ++b) *b = do_toupper(*b); return e; }
    wchar_t do_tolower(wchar_t c) const override { return (c >= 0 && c < 256) ? static_cast<wchar_t>(hostile_ctype::lo(static_cast<unsigned char>(c))) : c; }
    const wchar_t *do_tolower(wchar_t *b, const wchar_t *e) const override { for (; b != e; ++b) *b = do_tolower(*b); return e; }
};

template <typename C>
struct hostile_numpunct : std::numpunct<C> {
    explicit hostile_numpunct(size_t refs = 0) : std::numpunct<C>(refs) { }
    C do_decimal_point() const override { return C(','); }
    C do_thousands_sep() const override { return C('.'); }
    std::string do_grouping() const override { return "\3"; }
    std::basic_string<C> do_truename() const override { const C t[] = {C('j'), C('a'), C(0)}; return t; }
    std::basic_string<C> do_falsename() const override { const C t[] = {C('n'), C('e'), C('e'), C(0)}; return t; }
};

inline const std::locale &hostile_locale()
{
    static const std::locale loc = [] {
        std::locale l(std::locale::classic(), new hostile_ctype);
        l = std::locale(l, new hostile_wctype);
        l = std::locale(l, new hostile_numpunct<char>);
        l = std::locale(l, new hostile_numpunct<wchar_t>);
        return l;
    }();
    return loc;
}

inline bool &is_hostile() { static bool h = false; return h; }
inline unsigned &every() { static unsigned n = 0; return n; }

inline void set(bool hostile)
{
    if (hostile == is_hostile()) return;
    is_hostile() = hostile;
    if (hostile) {
        std::locale::global(hostile_locale());          // unnamed locale: the C locale is left alone by global()
        setlocale(LC_ALL, "C.utf8");
    } else {
        std::locale::global(std::locale::classic());
        setlocale(LC_ALL, "C");
    }
}

inline void hook(const char *phase, uint64_t index)
{
    const uint64_t h = vrt::fnv_u64(index, vrt::fnv_str(phase));
    const bool hostile = every() != 0 && (h >> 7) % every() == 0;
    set(hostile);
    vrt::count(hostile ? "ambient.hostile_locale_cases" : "ambient.classic_locale_cases");
}

// one case in n runs under the hostile locale (n == 1: all of them)
inline void enable(unsigned n)
{
    every() = n;
    vrt::case_hook() = &hook;
    vrt::require("ambient.hostile_locale_cases", 1);
    vrt::note(vrt::sfmt("ambient state: one case in %u runs with a hostile global C++ locale (Latin-1 style case mapping of bytes >= 0xC0, Turkish-style I/i, "
                        "0xA0 and 0x85 white space, ',' decimal point, grouped digits, other bool names) and the C locale set to C.utf8; the others with the classic locale", n));
}

} // namespace ambient
