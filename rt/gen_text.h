// Input generators shared by the text harnesses.
#pragma once
#include "vrt.h"
#include <string>

namespace gen {

// lengths of every size class around the small-string limit (16 for char)
inline size_t pick_len(vrt::Rng &r)
{
    static const size_t cls[] = {0, 1, 2, 3, 5, 8, 14, 15, 16, 17, 18, 24, 31, 32, 33, 40, 64, 100, 300};
    if (r.chance(1, 3)) return r.below(48);
    return r.pick(cls);
}

inline std::string bytes_over(vrt::Rng &r, size_t len, const std::string &alphabet)
{
    std::string s(len, '\0');
    for (size_t i = 0; i < len; ++i) s[i] = alphabet[r.below(alphabet.size())];
    return s;
}

inline std::string any_bytes(vrt::Rng &r, size_t len)
{
    std::string s(len, '\0');
    for (size_t i = 0; i < len; ++i) s[i] = static_cast<char>(r.below(256));
    return s;
}

// i-th string (0-based) in length-then-lexicographic order over `alphabet`;
// returns false when i is past all strings of length <= maxlen
inline bool nth_string(uint64_t i, const std::string &alphabet, size_t maxlen, std::string &out)
{
    uint64_t k = alphabet.size();
    uint64_t block = 1;
    for (size_t len = 0; len <= maxlen; ++len) {
        if (i < block) {
            out.assign(len, alphabet[0]);
            for (size_t p = len; p-- > 0;) {
                out[p] = alphabet[i % k];
                i /= k;
            }
            return true;
        }
        i -= block;
        block *= k;
    }
    return false;
}
inline uint64_t count_strings(size_t alphabet, size_t maxlen)
{
    uint64_t total = 0, block = 1;
    for (size_t len = 0; len <= maxlen; ++len) { total += block; block *= alphabet; }
    return total;
}

} // namespace gen
