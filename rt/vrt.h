// vrt - the monitoring runtime linked (header-only, one TU) into every harness.
// See DESIGN.md section 2.  Everything here is harness-side; nothing from the
// library under test is used except the ST_VERIF_HOOKS assertion observer.
#pragma once

#include <cstdint>
#include <cstdio>
#include <cstdlib>
#include <cstring>
#include <cstdarg>
#include <string>
#include <vector>
#include <map>
#include <functional>
#include <typeinfo>
#include <exception>
#include <stdexcept>
#include <new>
#include <atomic>
#include <signal.h>
#include <unistd.h>
#include <fcntl.h>
#include <sys/mman.h>
#include <sys/stat.h>
#include <sys/time.h>
#include <cxxabi.h>

namespace vrt {

// ---------------------------------------------------------------- PRNG
inline uint64_t splitmix64(uint64_t &x)
{
    uint64_t z = (x += 0x9E3779B97F4A7C15ull);
    z = (z ^ (z >> 30)) * 0xBF58476D1CE4E5B9ull;
    z = (z ^ (z >> 27)) * 0x94D049BB133111EBull;
    return z ^ (z >> 31);
}

inline uint64_t fnv1a(const void *data, size_t size, uint64_t h = 0xcbf29ce484222325ull)
{
    const unsigned char *p = static_cast<const unsigned char *>(data);
    for (size_t i = 0; i < size; ++i) {
        h ^= p[i];
        h *= 0x100000001b3ull;
    }
    return h;
}
inline uint64_t fnv_u64(uint64_t v, uint64_t h = 0xcbf29ce484222325ull)
{
    return fnv1a(&v, sizeof(v), h);
}
inline uint64_t fnv_str(const char *s, uint64_t h = 0xcbf29ce484222325ull)
{
    return fnv1a(s, strlen(s), h);
}

struct Rng {
    uint64_t s[4];
    explicit Rng(uint64_t seed = 1) { reseed(seed); }
    void reseed(uint64_t seed)
    {
        for (int i = 0; i < 4; ++i)
            s[i] = splitmix64(seed);
    }
    static uint64_t rotl(uint64_t x, int k) { return (x << k) | (x >> (64 - k)); }
    uint64_t next()
    {
        const uint64_t result = rotl(s[1] * 5, 7) * 9;
        const uint64_t t = s[1] << 17;
        s[2] ^= s[0]; s[3] ^= s[1]; s[1] ^= s[2]; s[0] ^= s[3];
        s[2] ^= t;
        s[3] = rotl(s[3], 45);
        return result;
    }
    // uniform in [0, n)  (n > 0)
    uint64_t below(uint64_t n) { return n ? next() % n : 0; }
    // uniform in [lo, hi]
    int64_t range(int64_t lo, int64_t hi) { return lo + static_cast<int64_t>(below(static_cast<uint64_t>(hi - lo) + 1)); }
    bool chance(unsigned num, unsigned den) { return below(den) < num; }
    template <typename T, size_t N> const T &pick(const T (&arr)[N]) { return arr[below(N)]; }
    template <typename T> const T &pick(const std::vector<T> &v) { return v[below(v.size())]; }
};

// ---------------------------------------------------------------- options
struct Options {
    std::string prop;
    std::string tier = "quick";
    uint64_t seed = 1;
    int worker = 0;
    int nworkers = 1;
    std::string outdir = ".";
    bool single = false;          // run exactly one case (replay / hang re-check)
    std::string only_phase;
    uint64_t only_index = 0;
    std::string resume_phase;     // skip everything up to and including this case
    uint64_t resume_index = 0;
    bool resuming = false;
    std::string dtable;
    int dbits = 0;
    double scale = 1.0;           // multiplies the size of random phases (valgrind passes)
    bool verbose = false;
};
inline Options &opt() { static Options o; return o; }
inline bool thorough() { return opt().tier == "thorough"; }
inline bool is_prop(const char *p) { return opt().prop == p; }
// pick a count by tier, scaled
inline uint64_t tier_count(uint64_t quick, uint64_t thor)
{
    double v = static_cast<double>(thorough() ? thor : quick) * opt().scale;
    return v < 1 ? 1 : static_cast<uint64_t>(v);
}

// ---------------------------------------------------------------- current-case recorder
// An mmap'ed file the driver reads when the worker dies under a sanitizer.
struct CurFile {
    char *base = nullptr;
    size_t cap = 1 << 16;
    size_t len = 0;
};
inline CurFile &cur() { static CurFile c; return c; }

inline void cur_open(const std::string &path)
{
    int fd = ::open(path.c_str(), O_RDWR | O_CREAT | O_TRUNC, 0644);
    if (fd < 0) { perror("vrt: open cur"); _exit(98); }
    if (ftruncate(fd, cur().cap) != 0) { perror("vrt: ftruncate"); _exit(98); }
    void *p = mmap(nullptr, cur().cap, PROT_READ | PROT_WRITE, MAP_SHARED, fd, 0);
    if (p == MAP_FAILED) { perror("vrt: mmap cur"); _exit(98); }
    close(fd);
    cur().base = static_cast<char *>(p);
    cur().len = 0;
}

inline void cur_printf(const char *fmt, ...) __attribute__((format(printf, 1, 2)));
inline void cur_printf(const char *fmt, ...)
{
    CurFile &c = cur();
    if (!c.base || c.len + 2 >= c.cap)
        return;
    va_list ap;
    va_start(ap, fmt);
    int n = vsnprintf(c.base + c.len, c.cap - c.len - 1, fmt, ap);
    va_end(ap);
    if (n > 0) {
        c.len += static_cast<size_t>(n);
        if (c.len >= c.cap - 1)
            c.len = c.cap - 2;
    }
    c.base[c.len] = 0;
}

inline void cur_begin(const char *phase, uint64_t index)
{
    CurFile &c = cur();
    if (!c.base)
        return;
    c.len = 0;
    cur_printf("phase=%s index=%llu\n", phase, static_cast<unsigned long long>(index));
}

// A description of the step being executed right now (overwrites the previous
// note of this case, keeps the header line).
inline size_t &cur_mark() { static size_t m = 0; return m; }
inline void cur_mark_here() { cur_mark() = cur().len; }
inline void cur_rewind() { cur().len = cur_mark(); if (cur().base) cur().base[cur().len] = 0; }

// ---------------------------------------------------------------- text helpers
inline std::string hex(const void *data, size_t size, size_t unit = 1, size_t max_units = 96)
{
    static const char d[] = "0123456789abcdef";
    const unsigned char *p = static_cast<const unsigned char *>(data);
    std::string out;
    size_t units = size;
    bool cut = units > max_units;
    if (cut) units = max_units;
    for (size_t i = 0; i < units; ++i) {
        if (i && unit > 1) out += ' ';
        // print each unit most-significant byte first (little-endian host)
        for (size_t b = unit; b-- > 0;) {
            unsigned char v = p[i * unit + b];
            out += d[v >> 4];
            out += d[v & 15];
        }
    }
    if (cut) {
        char tmp[48];
        snprintf(tmp, sizeof(tmp), "..(%zu units)", size);
        out += tmp;
    }
    return out;
}
template <typename T>
inline std::string hexs(const std::basic_string<T> &s) { return hex(s.data(), s.size(), sizeof(T)); }

inline std::string sfmt(const char *fmt, ...) __attribute__((format(printf, 1, 2)));
inline std::string sfmt(const char *fmt, ...)
{
    char buf[2048];
    va_list ap;
    va_start(ap, fmt);
    int n = vsnprintf(buf, sizeof(buf), fmt, ap);
    va_end(ap);
    if (n < 0) return std::string();
    if (static_cast<size_t>(n) < sizeof(buf)) return std::string(buf, n);
    std::string big(static_cast<size_t>(n) + 1, '\0');
    va_start(ap, fmt);
    vsnprintf(&big[0], big.size(), fmt, ap);
    va_end(ap);
    big.resize(n);
    return big;
}

inline std::string json_escape(const std::string &s)
{
    std::string o;
    for (unsigned char ch : s) {
        switch (ch) {
        case '"': o += "\\\""; break;
        case '\\': o += "\\\\"; break;
        case '\n': o += "\\n"; break;
        case '\r': o += "\\r"; break;
        case '\t': o += "\\t"; break;
        default:
            if (ch < 0x20 || ch >= 0x7f) {
                char tmp[8];
                snprintf(tmp, sizeof(tmp), "\\u%04x", ch);
                o += tmp;
            } else {
                o += static_cast<char>(ch);
            }
        }
    }
    return o;
}

inline std::string demangle(const char *name)
{
    int status = 0;
    char *d = abi::__cxa_demangle(name, nullptr, nullptr, &status);
    std::string r = (status == 0 && d) ? d : name;
    free(d);
    return r;
}

// ---------------------------------------------------------------- state: counters, samples, violations
struct Violation {
    std::string key, phase, detail;
    uint64_t index = 0, count = 0;
};

struct State {
    std::map<std::string, uint64_t> counters;
    std::map<std::string, uint64_t> requires_;
    std::map<std::string, std::vector<std::string>> samples;
    std::map<std::string, Violation> violations;
    std::map<std::string, uint64_t> phase_cases;
    std::vector<std::string> notes;
    const char *phase = "";
    uint64_t index = 0;
    uint64_t evaluations = 0;
    uint64_t distinct = 0;
    bool distinct_saturated = false;
    uint64_t *dtab = nullptr;
    uint64_t dmask = 0;
    uint64_t dinserted = 0;
    FILE *violf = nullptr;
    bool assert_throws = false;
    bool in_case = false;
    std::string last_assert;
    uint64_t asserts_seen = 0;
};
inline State &st() { static State *s = new State; return *s; }

// Counter handle: `static uint64_t &c = vrt::counter("x"); ++c;`
inline uint64_t &counter(const std::string &name) { return st().counters[name]; }
inline void count(const std::string &name, uint64_t n = 1) { st().counters[name] += n; }
// declare that the run is only conclusive if this counter reached `min`
inline void require(const std::string &name, uint64_t min = 1)
{
    st().requires_[name] = min;
    (void)st().counters[name];
}
inline void evals(uint64_t n = 1) { st().evaluations += n; }

inline void sample(const std::string &cls, const std::string &text, size_t keep = 2)
{
    auto &v = st().samples[cls];
    if (v.size() < keep)
        v.push_back(text.size() > 600 ? text.substr(0, 600) + "..." : text);
}
inline bool want_sample(const std::string &cls, size_t keep = 2)
{
    auto it = st().samples.find(cls);
    return it == st().samples.end() || it->second.size() < keep;
}

// Distinct non-trivial cases: 64-bit hashes in a table shared by all workers
// (MAP_SHARED, lock-free insert) so the total is exact until it saturates.
inline void distinct(uint64_t h)
{
    State &s = st();
    if (!s.dtab) { return; }
    if (h == 0) h = 1;
    if (s.dinserted * 2 > s.dmask) { s.distinct_saturated = true; return; }
    uint64_t i = (h * 0x9E3779B97F4A7C15ull) >> 7 & s.dmask;
    for (unsigned probe = 0; probe < 256; ++probe) {
        uint64_t *slot = &s.dtab[(i + probe) & s.dmask];
        uint64_t v = __atomic_load_n(slot, __ATOMIC_RELAXED);
        if (v == h) return;
        if (v == 0) {
            uint64_t expected = 0;
            if (__atomic_compare_exchange_n(slot, &expected, h, false, __ATOMIC_RELAXED, __ATOMIC_RELAXED)) {
                ++s.distinct;
                ++s.dinserted;
                return;
            }
            if (expected == h) return;
        }
    }
    s.distinct_saturated = true;
}

inline void violation(const std::string &key, const std::string &detail)
{
    State &s = st();
    Violation &v = s.violations[key];
    if (v.count++ == 0) {
        v.key = key;
        v.phase = s.phase;
        v.index = s.index;
        v.detail = detail.size() > 4000 ? detail.substr(0, 4000) + "..." : detail;
        if (s.violf) {
            fprintf(s.violf, "{\"key\":\"%s\",\"phase\":\"%s\",\"index\":%llu,\"detail\":\"%s\"}\n",
                    json_escape(v.key).c_str(), json_escape(v.phase).c_str(),
                    static_cast<unsigned long long>(v.index), json_escape(v.detail).c_str());
            fflush(s.violf);
        }
        if (opt().single || opt().verbose)
            fprintf(stderr, "vrt: VIOLATION %s  [%s #%llu]  %s\n", key.c_str(), s.phase,
                    static_cast<unsigned long long>(s.index), v.detail.c_str());
    }
}

// ---------------------------------------------------------------- assertion observer (hook H1)
struct assertion_reached {
    std::string file, message;
    int line;
};

inline const char *base_name(const char *path)
{
    const char *b = strrchr(path, '/');
    return b ? b + 1 : path;
}

inline void assert_observer(const char *file, int line, const char *message)
{
    State &s = st();
    ++s.asserts_seen;
    s.last_assert = sfmt("%s:%d: %s", base_name(file), line, message);
    cur_printf("ASSERT %s:%d: %s\n", base_name(file), line, message);
    if (s.assert_throws)
        throw assertion_reached{base_name(file), message, line};
}

// ---------------------------------------------------------------- watchdog
inline void on_vtalrm(int)
{
    // async-signal-safe: mark and leave
    CurFile &c = cur();
    if (c.base && c.len + 8 < c.cap) {
        memcpy(c.base + c.len, "HANG\n", 6);
    }
    _exit(97);
}
inline void watchdog_arm(unsigned seconds)
{
    struct itimerval it;
    memset(&it, 0, sizeof(it));
    it.it_value.tv_sec = seconds;
    setitimer(ITIMER_VIRTUAL, &it, nullptr);
}
inline void watchdog_disarm()
{
    struct itimerval it;
    memset(&it, 0, sizeof(it));
    setitimer(ITIMER_VIRTUAL, &it, nullptr);
}
inline unsigned &case_cpu_budget() { static unsigned b = 30; return b; }

// ---------------------------------------------------------------- phases
typedef std::function<void(uint64_t, Rng &)> case_fn;
// called at the start of every case with (phase, index): lets a harness put the process into a state that is a pure function
// of the case address (rt/ambient.h uses it to swap the global locale), so that --replay reproduces it
typedef void (*case_hook_fn)(const char *phase, uint64_t index);
inline case_hook_fn &case_hook() { static case_hook_fn f = nullptr; return f; }
// per-case stream of placement decisions (rt/vrt_st.h: where inside its heap block an input starts); reseeded from the case
// address (or, under libFuzzer, from the input bytes) so that a replay places everything the same way
inline uint64_t &placement_state() { static thread_local uint64_t s = 0; return s; }
inline uint64_t placement_next() { return splitmix64(placement_state()); }
// true only on the thread that runs the cases (set by run_case): helper threads of a harness get plain malloc placement
inline bool &placement_here() { static thread_local bool on = false; return on; }
// blocks handed out again by the replaced operator new (rt/vrt_alloc.h) at the address of a released one; kept outside the
// counter map because it is bumped from inside operator new
// while > 0, every release of an input / object / operator-new block is parked for re-issue (and the count goes down): lets a
// case say "destroy this, and build the next one of the same size at the same address"
inline int &placement_force_parks() { static thread_local int n = 0; return n; }
inline bool placement_park_decision()
{
    if (placement_force_parks() > 0) { --placement_force_parks(); return true; }
    return (placement_next() & 3) == 0;
}
inline uint64_t &recycled_new_blocks() { static uint64_t n = 0; return n; }

inline void run_case(const char *name, uint64_t i, const case_fn &fn)
{
    State &s = st();
    s.phase = name;
    s.index = i;
    uint64_t h = fnv_str(name, fnv_u64(opt().seed));
    h = fnv_u64(i, h);
    Rng rng(h);
    placement_state() = h ^ 0x9e3779b97f4a7c15ull;
    placement_here() = true;
    cur_begin(name, i);
    cur_mark_here();
    watchdog_arm(case_cpu_budget());
    s.in_case = true;
    if (case_hook()) case_hook()(name, i);
    try {
        fn(i, rng);
    } catch (const assertion_reached &a) {
        violation(sfmt("assert:\"%s\"@%s", a.message.c_str(), a.file.c_str()),
                  sfmt("library assertion %s:%d reached in phase %s", a.file.c_str(), a.line, name));
    } catch (const std::exception &e) {
        violation(sfmt("exception:%s@%s", demangle(typeid(e).name()).c_str(), name),
                  sfmt("unexpected exception escaped the case: %s", e.what()));
    } catch (...) {
        violation(sfmt("exception:unknown@%s", name), "unexpected non-std exception escaped the case");
    }
    s.in_case = false;
    watchdog_disarm();
    // one executed case per phase is always written out as a sample: the
    // recorder's description of the last library call of this case
    if (s.phase_cases[name] == 0 && cur().base) {
        const char *nl = strchr(cur().base, '\n');
        std::string last = nl ? std::string(nl + 1) : std::string();
        while (!last.empty() && last.back() == '\n') last.pop_back();
        if (!last.empty()) sample(std::string("first-case-of-phase:") + name, last, 1);
    }
    ++s.phase_cases[name];
}

// Runs cases [0,count) of a phase; worker w takes i with i % nworkers == w.
// `seed_dependent`: only informational (recorded in evidence).
inline void phase(const char *name, uint64_t count, const case_fn &fn)
{
    Options &o = opt();
    (void)st().phase_cases[name];
    if (o.single) {
        if (o.only_phase == name)
            run_case(name, o.only_index, fn);
        return;
    }
    uint64_t start = 0;
    if (o.resuming) {
        if (o.resume_phase != name)
            return;                 // still skipping earlier phases
        o.resuming = false;
        start = o.resume_index + 1;
    }
    uint64_t w = static_cast<uint64_t>(o.worker), n = static_cast<uint64_t>(o.nworkers);
    uint64_t first = start + ((w + n - (start % n)) % n);
    for (uint64_t i = first; i < count; i += n)
        run_case(name, i, fn);
}

// ---------------------------------------------------------------- main wrapper
inline void write_report(bool completed)
{
    State &s = st();
    Options &o = opt();
    if (recycled_new_blocks()) s.counters["placement.new_blocks_reusing_the_address_of_a_released_one"] = recycled_new_blocks();
    std::string path = o.outdir + sfmt("/w%d.json", o.worker);
    std::string tmp = path + ".tmp";
    FILE *f = fopen(tmp.c_str(), "w");
    if (!f) { perror("vrt: report"); return; }
    fprintf(f, "{\n \"worker\": %d,\n \"completed\": %s,\n \"evaluations\": %llu,\n \"distinct\": %llu,\n \"distinct_saturated\": %s,\n \"asserts_seen\": %llu,\n",
            o.worker, completed ? "true" : "false",
            static_cast<unsigned long long>(s.evaluations),
            static_cast<unsigned long long>(s.distinct),
            s.distinct_saturated ? "true" : "false",
            static_cast<unsigned long long>(s.asserts_seen));
    fprintf(f, " \"counters\": {");
    bool first = true;
    for (auto &kv : s.counters) {
        fprintf(f, "%s\n  \"%s\": %llu", first ? "" : ",", json_escape(kv.first).c_str(),
                static_cast<unsigned long long>(kv.second));
        first = false;
    }
    fprintf(f, "\n },\n \"requires\": {");
    first = true;
    for (auto &kv : s.requires_) {
        fprintf(f, "%s\n  \"%s\": %llu", first ? "" : ",", json_escape(kv.first).c_str(),
                static_cast<unsigned long long>(kv.second));
        first = false;
    }
    fprintf(f, "\n },\n \"phases\": {");
    first = true;
    for (auto &kv : s.phase_cases) {
        fprintf(f, "%s\n  \"%s\": %llu", first ? "" : ",", json_escape(kv.first).c_str(),
                static_cast<unsigned long long>(kv.second));
        first = false;
    }
    fprintf(f, "\n },\n \"samples\": {");
    first = true;
    for (auto &kv : s.samples) {
        fprintf(f, "%s\n  \"%s\": [", first ? "" : ",", json_escape(kv.first).c_str());
        for (size_t i = 0; i < kv.second.size(); ++i)
            fprintf(f, "%s\"%s\"", i ? ", " : "", json_escape(kv.second[i]).c_str());
        fprintf(f, "]");
        first = false;
    }
    fprintf(f, "\n },\n \"notes\": [");
    for (size_t i = 0; i < s.notes.size(); ++i)
        fprintf(f, "%s\"%s\"", i ? ", " : "", json_escape(s.notes[i]).c_str());
    fprintf(f, "],\n \"violations\": [");
    first = true;
    for (auto &kv : s.violations) {
        const Violation &v = kv.second;
        fprintf(f, "%s\n  {\"key\": \"%s\", \"phase\": \"%s\", \"index\": %llu, \"count\": %llu, \"detail\": \"%s\"}",
                first ? "" : ",", json_escape(v.key).c_str(), json_escape(v.phase).c_str(),
                static_cast<unsigned long long>(v.index), static_cast<unsigned long long>(v.count),
                json_escape(v.detail).c_str());
        first = false;
    }
    fprintf(f, "\n ]\n}\n");
    fclose(f);
    rename(tmp.c_str(), path.c_str());
}

inline void note(const std::string &text) { st().notes.push_back(text); }

inline void usage_die(const char *msg)
{
    fprintf(stderr, "vrt: %s\n", msg);
    _exit(98);
}

void install_assert_hook();   // defined by VRT_MAIN below (needs the library header)

inline int run(int argc, char **argv, const std::function<void()> &body)
{
    Options &o = opt();
    for (int i = 1; i < argc; ++i) {
        std::string a = argv[i];
        auto val = [&]() -> std::string {
            if (i + 1 >= argc) usage_die("missing option value");
            return argv[++i];
        };
        if (a == "--prop") o.prop = val();
        else if (a == "--tier") o.tier = val();
        else if (a == "--seed") o.seed = strtoull(val().c_str(), nullptr, 10);
        else if (a == "--worker") o.worker = atoi(val().c_str());
        else if (a == "--nworkers") o.nworkers = atoi(val().c_str());
        else if (a == "--out") o.outdir = val();
        else if (a == "--case") {
            // phase:index
            std::string v = val();
            size_t c = v.rfind(':');
            if (c == std::string::npos) usage_die("--case wants phase:index");
            o.single = true;
            o.only_phase = v.substr(0, c);
            o.only_index = strtoull(v.c_str() + c + 1, nullptr, 10);
        } else if (a == "--resume") {
            std::string v = val();
            size_t c = v.rfind(':');
            if (c == std::string::npos) usage_die("--resume wants phase:index");
            o.resuming = true;
            o.resume_phase = v.substr(0, c);
            o.resume_index = strtoull(v.c_str() + c + 1, nullptr, 10);
        } else if (a == "--dtable") o.dtable = val();
        else if (a == "--dbits") o.dbits = atoi(val().c_str());
        else if (a == "--scale") o.scale = atof(val().c_str());
        else if (a == "--verbose") o.verbose = true;
        else usage_die(("unknown option " + a).c_str());
    }
    if (o.prop.empty()) usage_die("--prop required");
    if (o.nworkers < 1 || o.worker < 0 || o.worker >= o.nworkers) usage_die("bad worker spec");

    State &s = st();
    cur_open(o.outdir + sfmt("/w%d.cur", o.worker));
    s.violf = fopen((o.outdir + sfmt("/w%d.viol", o.worker)).c_str(), "a");
    if (!o.dtable.empty() && o.dbits > 0) {
        int fd = ::open(o.dtable.c_str(), O_RDWR);
        if (fd >= 0) {
            size_t bytes = (static_cast<size_t>(1) << o.dbits) * sizeof(uint64_t);
            void *p = mmap(nullptr, bytes, PROT_READ | PROT_WRITE, MAP_SHARED, fd, 0);
            close(fd);
            if (p != MAP_FAILED) {
                s.dtab = static_cast<uint64_t *>(p);
                s.dmask = (static_cast<uint64_t>(1) << o.dbits) - 1;
            }
        }
    }
    struct sigaction sa;
    memset(&sa, 0, sizeof(sa));
    sa.sa_handler = on_vtalrm;
    sigaction(SIGVTALRM, &sa, nullptr);
    install_assert_hook();

    body();

    if (o.resuming)
        note("resume point was never reached (phase list changed?)");
    write_report(true);
    if (s.violf) fclose(s.violf);
    if (o.single)
        return s.violations.empty() ? 0 : 1;
    return 0;
}

} // namespace vrt

#ifdef VRT_FUZZ
// ---------------------------------------------------------------- libFuzzer front end
// With -DVRT_FUZZ (clang -fsanitize=fuzzer,address,undefined) the harness is not a worker
// program but a fuzz target: libFuzzer grows a corpus by coverage feedback and every input
// goes through the same monitors as the generated cases (the harness supplies
// `static void vrt_fuzz_one(const uint8_t *, size_t)`).  A monitor violation aborts the
// process so that libFuzzer keeps the input as an artifact; the driver re-runs every
// artifact on its own to derive the violation key.
namespace vrt {
inline void on_vtalrm_fuzz(int)
{
    CurFile &c = cur();
    if (c.base && c.len + 8 < c.cap) memcpy(c.base + c.len, "HANG\n", 6);
    static const char msg[] = "VRT-HANG: case exceeded its CPU-time budget\n";
    if (write(2, msg, sizeof(msg) - 1) < 0) {}
    abort();
}
inline void fuzz_init()
{
    Options &o = opt();
    const char *e;
    if ((e = getenv("VRT_PROP"))) o.prop = e;
    if ((e = getenv("VRT_OUT"))) o.outdir = e;
    if ((e = getenv("VRT_SEED"))) o.seed = strtoull(e, nullptr, 10);
    o.tier = "thorough";
    o.worker = static_cast<int>(getpid());
    o.verbose = getenv("VRT_VERBOSE") != nullptr;
    State &s = st();
    cur_open(o.outdir + sfmt("/w%d.cur", o.worker));
    if ((e = getenv("VRT_DTABLE")) && getenv("VRT_DBITS")) {
        o.dbits = atoi(getenv("VRT_DBITS"));
        int fd = ::open(e, O_RDWR);
        if (fd >= 0 && o.dbits > 0) {
            size_t bytes = (static_cast<size_t>(1) << o.dbits) * sizeof(uint64_t);
            void *p = mmap(nullptr, bytes, PROT_READ | PROT_WRITE, MAP_SHARED, fd, 0);
            if (p != MAP_FAILED) {
                s.dtab = static_cast<uint64_t *>(p);
                s.dmask = (static_cast<uint64_t>(1) << o.dbits) - 1;
            }
        }
        if (fd >= 0) close(fd);
    }
    struct sigaction sa;
    memset(&sa, 0, sizeof(sa));
    sa.sa_handler = on_vtalrm_fuzz;
    sigaction(SIGVTALRM, &sa, nullptr);
    install_assert_hook();
    atexit([] { write_report(true); });
}
inline int fuzz_one(const uint8_t *data, size_t size, void (*fn)(const uint8_t *, size_t))
{
    static uint64_t index = 0;
    State &s = st();
    const size_t before = s.violations.size();
    uint64_t total_before = 0;
    for (auto &kv : s.violations) total_before += kv.second.count;
    run_case("fuzz", index++, [&](uint64_t, Rng &) { placement_state() = fnv1a(data, size); fn(data, size); });
    uint64_t total_after = 0;
    for (auto &kv : s.violations) total_after += kv.second.count;
    if (s.violations.size() != before || total_after != total_before) {
        for (auto &kv : s.violations)
            if (kv.second.index + 1 == index)
                fprintf(stderr, "VRT-VIOLATION key=%s\nVRT-DETAIL %s\n", kv.second.key.c_str(), kv.second.detail.c_str());
        write_report(false);
        abort();
    }
    return 0;
}
} // namespace vrt
#define VRT_MAIN(body) \
    namespace vrt { void install_assert_hook() { _ST_PRIVATE::verif_assert_hook() = &vrt::assert_observer; } } \
    extern "C" int LLVMFuzzerInitialize(int *, char ***) { vrt::fuzz_init(); return 0; } \
    extern "C" int LLVMFuzzerTestOneInput(const uint8_t *d, size_t n) { return vrt::fuzz_one(d, n, &vrt_fuzz_one); }
#else
// Put `VRT_MAIN(body_function)` at the end of the harness (after including
// the library headers with ST_VERIF_HOOKS defined).
#define VRT_MAIN(body) \
    namespace vrt { void install_assert_hook() { _ST_PRIVATE::verif_assert_hook() = &vrt::assert_observer; } } \
    int main(int argc, char **argv) { return vrt::run(argc, argv, body); }
#endif
