// vrt_st.h - helpers that need the library headers: exact-size placement of
// inputs and objects so that a one-unit over-read/over-write lands in an ASan
// red zone (DESIGN section 1).
#pragma once
#ifndef ST_VERIF_HOOKS
#error "harnesses are compiled with -DST_VERIF_HOOKS"
#endif
#include "vrt.h"
#include <string_theory/string>
#include <string_theory/string_stream>
#include <string_theory/format>
#include <string_theory/codecs>
#include <string_theory/iostream>
#include <string_theory/stdio>
#include <string>
#include <string_view>

namespace vrt {

// Input data in a heap block of exactly n units (optionally n+1 with a NUL).
template <typename T>
struct Exact {
    T *p;
    size_t n;
    Exact(const T *src, size_t count, bool nul = false) : n(count)
    {
        size_t units = count + (nul ? 1 : 0);
        p = static_cast<T *>(malloc(units * sizeof(T) ? units * sizeof(T) : 1));
        if (!p) { fprintf(stderr, "vrt: out of memory\n"); _exit(98); }
        if (count) memcpy(p, src, count * sizeof(T));
        if (nul) p[count] = T();
        // malloc(1) for the empty case: make the single byte unreadable is
        // not possible without poisoning APIs; callers pass n == 0 anyway.
    }
    template <typename S>
    explicit Exact(const S &s, bool nul = false) : Exact(s.data(), s.size(), nul) { }
    Exact(const Exact &) = delete;
    Exact &operator=(const Exact &) = delete;
    ~Exact() { free(p); }
    const T *data() const { return p; }
    size_t size() const { return n; }
};

// An object living in a heap block of exactly sizeof(T) bytes.
template <typename T>
struct Box {
    T *p;
    template <typename... A>
    explicit Box(A &&...a)
    {
        void *mem = malloc(sizeof(T));
        if (!mem) { fprintf(stderr, "vrt: out of memory\n"); _exit(98); }
        try {
            p = new (mem) T(std::forward<A>(a)...);
        } catch (...) {
            free(mem);
            throw;
        }
    }
    Box(const Box &) = delete;
    Box &operator=(const Box &) = delete;
    ~Box() { if (p) { p->~T(); free(p); } }
    T &operator*() { return *p; }
    T *operator->() { return p; }
    const T &operator*() const { return *p; }
    const T *operator->() const { return p; }
    const char *lo() const { return reinterpret_cast<const char *>(p); }
    const char *hi() const { return reinterpret_cast<const char *>(p) + sizeof(T); }
    bool inside(const void *q) const
    {
        const char *c = static_cast<const char *>(q);
        return c >= lo() && c < hi();
    }
};

inline std::string str_of(const ST::string &s) { return std::string(s.c_str(), s.size()); }
inline ST::string mk(const std::string &bytes) { return ST::string::from_validated(bytes.data(), bytes.size()); }

inline const char *mode_name(ST::utf_validation_t v)
{
    return v == ST::assume_valid ? "assume_valid" : v == ST::substitute_invalid ? "substitute_invalid" : "check_validity";
}

} // namespace vrt
