// vrt_st.h - helpers that need the library headers: exact-size placement of
// inputs and objects so that a one-unit over-read/over-write lands in an ASan
// red zone (DESIGN section 1).
#pragma once
#ifndef ST_VERIF_HOOKS
#error "harnesses are compiled with -DST_VERIF_HOOKS"
#endif
#include "vrt.h"
#include <string_theory/string>
#include <string_theory/string_stream>
#include <string_theory/format>
#include <string_theory/codecs>
#include <string_theory/iostream>
#include <string_theory/stdio>
#include <string>
#include <string_view>

namespace vrt {

#if defined(__SANITIZE_ADDRESS__)
#define VRT_HAVE_ASAN 1
#elif defined(__has_feature)
#if __has_feature(address_sanitizer)
#define VRT_HAVE_ASAN 1
#endif
#endif
#ifdef VRT_HAVE_ASAN
extern "C" void __asan_poison_memory_region(void const volatile *addr, size_t size);
extern "C" void __asan_unpoison_memory_region(void const volatile *addr, size_t size);
#endif

// Input data in a heap block that ends exactly where the data ends (optionally after one NUL unit), so that reading one unit
// too many lands in the ASan red zone.  Where the data STARTS varies: in half of the blocks it starts at the address malloc
// returned (16-byte aligned, red zone right in front of it); in the others 1..15 bytes (whole elements) further in, so that
// the library also sees sources, needles, separators and format strings that are not 2/4/8/16-byte aligned, as a view into
// the middle of a user's buffer would be.  The slack in front is poisoned when it is a multiple of the ASan granule and
// otherwise filled with the data's own elements (an under-read then changes a result instead of going unnoticed).  The
// choice comes from the per-case placement stream (vrt::placement_next), so a replay reproduces it.
inline bool &placement_shifts() { static bool on = true; return on; }

// Address reuse.  Under ASan a freed block sits in the quarantine for a long time, so in these runs a new input or object
// practically never gets the address of a dead one - while in a real program malloc hands the same address out again at
// once.  State the library keeps across calls and keys by address (a cache of "the last argument", a remembered `this`)
// would therefore never be stale here.  One release in four of an input block / object block is parked (poisoned, so a
// late access is still reported) and handed to the next request of the same size, which then holds different content at the
// same address.
struct RecyclePool {
    enum { SLOTS = 61 };
    void *ptr[SLOTS];
    size_t size[SLOTS];
    RecyclePool() { for (int i = 0; i < SLOTS; ++i) { ptr[i] = nullptr; size[i] = 0; } }
    // sizes up to 8 KiB: one slot per size class (size % SLOTS); bigger blocks (up to 4 MiB): three slots, oldest replaced
    enum { BIG = 3, SMALL_MAX = 8192, BIG_MAX = 4 << 20 };
    void *bptr[BIG] = {nullptr, nullptr, nullptr};
    size_t bsize[BIG] = {0, 0, 0};
    unsigned bnext = 0;
    static void unpoison(void *p, size_t n)
    {
#ifdef VRT_HAVE_ASAN
        __asan_unpoison_memory_region(p, n);
#else
        (void)p; (void)n;
#endif
    }
    static void poison(void *p, size_t n)
    {
#ifdef VRT_HAVE_ASAN
        __asan_poison_memory_region(p, n);
#else
        (void)p; (void)n;
#endif
    }
    void *take(size_t bytes)
    {
        if (!placement_here() || bytes == 0 || bytes > BIG_MAX) return nullptr;
        void *p = nullptr;
        if (bytes <= SMALL_MAX) {
            const size_t k = bytes % SLOTS;
            if (ptr[k] && size[k] == bytes) { p = ptr[k]; ptr[k] = nullptr; }
        } else {
            for (int i = 0; i < BIG; ++i)
                if (bptr[i] && bsize[i] == bytes) { p = bptr[i]; bptr[i] = nullptr; break; }
        }
        if (!p) return nullptr;
        unpoison(p, bytes);
        static uint64_t &c = counter("placement.blocks_reusing_the_address_of_a_dead_one");
        ++c;
        return p;
    }
    // returns true when the block was parked (caller must not free it)
    bool park(void *p, size_t bytes)
    {
        if (!placement_here() || !placement_shifts() || bytes == 0 || bytes > BIG_MAX || !placement_park_decision()) return false;
        if (bytes <= SMALL_MAX) {
            const size_t k = bytes % SLOTS;
            if (ptr[k]) { unpoison(ptr[k], size[k]); free(ptr[k]); }
            ptr[k] = p;
            size[k] = bytes;
        } else {
            const unsigned k = bnext++ % BIG;
            if (bptr[k]) { unpoison(bptr[k], bsize[k]); free(bptr[k]); }
            bptr[k] = p;
            bsize[k] = bytes;
        }
        poison(p, bytes);
        return true;
    }
};
inline RecyclePool &recycle_pool() { static thread_local RecyclePool *p = new RecyclePool; return *p; }
template <typename T>
struct Exact {
    T *p;
    size_t n;
    void *base;
    size_t shift;       // elements between base and p
    size_t bytes;       // size of the block
    Exact(const T *src, size_t count, bool nul = false) : n(count), shift(0)
    {
        const size_t units = count + (nul ? 1 : 0);
        if (placement_shifts() && placement_here() && units != 0) {
            const uint64_t v = placement_next();
            const size_t maxshift = 16 / sizeof(T) - 1;            // 15 bytes, 7 char16_t, 3 char32_t / wchar_t
            if ((v & 1) && maxshift) shift = 1 + static_cast<size_t>((v >> 8) % maxshift);
        }
        bytes = (shift + units) * sizeof(T);
        base = recycle_pool().take(bytes);
        if (!base) base = malloc(bytes ? bytes : 1);
        if (!base) { fprintf(stderr, "vrt: out of memory\n"); _exit(98); }
        p = static_cast<T *>(base) + shift;
        if (count) memcpy(p, src, count * sizeof(T));
        if (nul) p[count] = T();
        for (size_t i = 0; i < shift; ++i)
            static_cast<T *>(base)[i] = count ? src[(count - 1 - i % count)] : static_cast<T>(0x80);
#ifdef VRT_HAVE_ASAN
        if (shift && (shift * sizeof(T)) % 8 == 0) __asan_poison_memory_region(base, shift * sizeof(T));
#endif
        if (!placement_here()) {
        } else if (shift) {
            static uint64_t &c = counter("placement.inputs_not_16_byte_aligned");
            ++c;
        } else {
            static uint64_t &c = counter("placement.inputs_16_byte_aligned");
            ++c;
        }
        // malloc(1) for the empty case: make the single byte unreadable is
        // not possible without poisoning APIs; callers pass n == 0 anyway.
    }
    template <typename S>
    explicit Exact(const S &s, bool nul = false) : Exact(s.data(), s.size(), nul) { }
    Exact(const Exact &) = delete;
    Exact &operator=(const Exact &) = delete;
    ~Exact()
    {
#ifdef VRT_HAVE_ASAN
        if (shift && (shift * sizeof(T)) % 8 == 0) __asan_unpoison_memory_region(base, shift * sizeof(T));
#endif
        if (!recycle_pool().park(base, bytes)) free(base);
    }
    const T *data() const { return p; }
    size_t size() const { return n; }
};

// An object living in a heap block that ends exactly where the object ends.  With box_shifts() on (a harness opts in at the top
// of its body; harnesses that free Box::p by hand must not), half of the objects with alignment <= 8 start 8 bytes into their
// block - an address that is 8 mod 16, where a member behind an `int`, `std::pair<int, ST::string>::second` or a std::map
// value lives - instead of at the 16-byte aligned address malloc returned; the 8 bytes in front are poisoned under ASan.
inline bool &box_shifts() { static bool on = false; return on; }
template <typename T>
struct Box {
    T *p;
    void *base = nullptr;      // what to free when the object does not start at the beginning of its block
    template <typename... A>
    explicit Box(A &&...a)
    {
        size_t shift = 0;
        if (box_shifts() && placement_here() && alignof(T) <= 8 && (placement_next() & 1)) shift = 8;
        void *mem = recycle_pool().take(sizeof(T) + shift);
        if (!mem) mem = malloc(sizeof(T) + shift);
        if (!mem) { fprintf(stderr, "vrt: out of memory\n"); _exit(98); }
        if (shift) {
            base = mem;
#ifdef VRT_HAVE_ASAN
            __asan_poison_memory_region(mem, shift);
#endif
            mem = static_cast<char *>(mem) + shift;
            static uint64_t &c = counter("placement.objects_at_8_mod_16");
            ++c;
        }
        try {
            p = new (mem) T(std::forward<A>(a)...);
        } catch (...) {
            release(mem);
            throw;
        }
    }
    Box(const Box &) = delete;
    Box &operator=(const Box &) = delete;
    void release(void *mem)
    {
        if (base) {
#ifdef VRT_HAVE_ASAN
            __asan_unpoison_memory_region(base, 8);
#endif
            void *b = base;
            base = nullptr;
            if (!recycle_pool().park(b, sizeof(T) + 8)) free(b);
        } else if (!recycle_pool().park(mem, sizeof(T))) {
            free(mem);
        }
    }
    ~Box() { if (p) { p->~T(); release(p); } }
    T &operator*() { return *p; }
    T *operator->() { return p; }
    const T &operator*() const { return *p; }
    const T *operator->() const { return p; }
    const char *lo() const { return reinterpret_cast<const char *>(p); }
    const char *hi() const { return reinterpret_cast<const char *>(p) + sizeof(T); }
    bool inside(const void *q) const
    {
        const char *c = static_cast<const char *>(q);
        return c >= lo() && c < hi();
    }
};

inline std::string str_of(const ST::string &s) { return std::string(s.c_str(), s.size()); }
inline ST::string mk(const std::string &bytes) { return ST::string::from_validated(bytes.data(), bytes.size()); }

inline const char *mode_name(ST::utf_validation_t v)
{
    return v == ST::assume_valid ? "assume_valid" : v == ST::substitute_invalid ? "substitute_invalid" : "check_validity";
}

} // namespace vrt
