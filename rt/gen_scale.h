// gen_scale.h - generators for the "scale" phases: inputs of several KiB to a few MiB whose length, and the places where
// something interesting happens inside them, sit on or right next to multiples of the block sizes a chunked / blocked /
// windowed implementation is likely to use (powers of two from 16 to 1 Mi, and 3 * 2^k).  The short exhaustive sweeps and
// the random phases of the harnesses never leave the first few hundred units; a loop that carries state wrongly from one
// block to the next, a counter in a type that is too narrow, a fast path that is only taken above a threshold or a growth
// policy that goes wrong after several doublings is invisible there.  The per-input monitors are the same ones the other
// phases use; only the inputs are different.
#pragma once
#include "vrt.h"
#include <string>
#include <vector>
#include <algorithm>

namespace scale {

using vrt::Rng;

// block sizes whose multiples matter (units of the thing being generated: bytes, code units, elements, pieces)
inline const std::vector<size_t> &blocks()
{
    static const std::vector<size_t> b = {16, 32, 64, 128, 255, 256, 512, 1000, 1024, 2048, 4096, 8192, 16384, 32768, 49152,
                                          65535, 65536, 131072, 262144, 524288, 1048576};
    return b;
}

// small signed distance from a boundary: mostly -1, 0, +1, sometimes up to +-9
inline long nudge(Rng &r)
{
    switch (r.below(10)) {
    case 0: case 1: case 2: return 0;
    case 3: case 4: return -1;
    case 5: case 6: return 1;
    case 7: return -static_cast<long>(2 + r.below(8));
    case 8: return static_cast<long>(2 + r.below(8));
    default: return r.chance(1, 2) ? -static_cast<long>(r.below(4)) : static_cast<long>(r.below(4));
    }
}

// a block size B with B * 1 <= cap (at least 16)
inline size_t block(Rng &r, size_t cap)
{
    const std::vector<size_t> &b = blocks();
    size_t n = 0;
    while (n < b.size() && b[n] <= cap) ++n;
    if (n == 0) return 16;
    // favour the page / 64 KiB family, which is what real chunked code uses
    if (r.chance(1, 3)) {
        static const size_t fav[] = {256, 1024, 4096, 16384, 32768, 65536, 131072};
        size_t f = r.pick(fav);
        if (f <= cap) return f;
    }
    return b[r.below(n)];
}

// a length q*B + d with q in 1..8 (so 3*2^k, 5*2^k, 6*2^k ... are produced too), never above cap, never below lo
inline size_t length(Rng &r, size_t cap, size_t lo = 0)
{
    for (int tries = 0; tries < 64; ++tries) {
        const size_t B = block(r, cap);
        const size_t qmax = std::max<size_t>(1, std::min<size_t>(8, cap / B));
        const size_t q = 1 + r.below(qmax);
        const long v = static_cast<long>(q * B) + nudge(r);
        if (v >= static_cast<long>(lo) && static_cast<size_t>(v) <= cap) return static_cast<size_t>(v);
    }
    return std::min(cap, std::max<size_t>(lo, 4096));
}

// an offset in [0, len] within a few units of a multiple of a block size, measured from the start or backwards from the
// end / from an anchor inside the input (a search limit, the start of a run, ...)
inline size_t offset(Rng &r, size_t len, size_t anchor_from_start = 0, bool backwards = false)
{
    if (len == 0) return 0;
    for (int tries = 0; tries < 64; ++tries) {
        const size_t B = block(r, std::max<size_t>(len, 16));
        const size_t qmax = std::max<size_t>(1, std::min<size_t>(8, len / B + 1));
        const long d = static_cast<long>((1 + r.below(qmax)) * B) + nudge(r);
        long v = backwards ? static_cast<long>(anchor_from_start) - d : static_cast<long>(anchor_from_start) + d;
        if (v >= 0 && static_cast<size_t>(v) <= len) return static_cast<size_t>(v);
    }
    return r.below(len + 1);
}
// either direction, from either end
inline size_t offset_any(Rng &r, size_t len)
{
    return r.chance(1, 2) ? offset(r, len, 0, false) : offset(r, len, len, true);
}

// ---- byte backgrounds --------------------------------------------------------------------------------------------
enum Background { ASCII_CONST, ASCII_RANDOM, ASCII_WORDS, HIGH_CONST, TWO_BYTE_RUN, THREE_BYTE_RUN, FOUR_BYTE_RUN, MIXED_UTF8, N_BACKGROUNDS };

inline void put_utf8(std::string &s, uint32_t c)
{
    if (c < 0x80) s += static_cast<char>(c);
    else if (c < 0x800) { s += static_cast<char>(0xC0 | (c >> 6)); s += static_cast<char>(0x80 | (c & 0x3F)); }
    else if (c < 0x10000) { s += static_cast<char>(0xE0 | (c >> 12)); s += static_cast<char>(0x80 | ((c >> 6) & 0x3F)); s += static_cast<char>(0x80 | (c & 0x3F)); }
    else { s += static_cast<char>(0xF0 | (c >> 18)); s += static_cast<char>(0x80 | ((c >> 12) & 0x3F)); s += static_cast<char>(0x80 | ((c >> 6) & 0x3F)); s += static_cast<char>(0x80 | (c & 0x3F)); }
}

// well-formed UTF-8 of exactly `len` bytes (the last character is ASCII filler when the run does not divide len)
inline std::string utf8_background(Rng &r, size_t len, Background kind)
{
    std::string s;
    s.reserve(len + 4);
    static const uint32_t two[] = {0xE9, 0xFF, 0x80, 0x7FF, 0x100}, three[] = {0x20AC, 0x800, 0xFFFF, 0xD7FF, 0xE000}, four[] = {0x1F600, 0x10000, 0x10FFFF};
    const uint32_t c2 = r.pick(two), c3 = r.pick(three), c4 = r.pick(four);
    const char a = "ax _0"[r.below(5)];
    while (s.size() < len) {
        const size_t left = len - s.size();
        switch (kind) {
        case ASCII_CONST: s.append(left, a); break;
        case ASCII_RANDOM: s += static_cast<char>(0x20 + r.below(0x5F)); break;
        case ASCII_WORDS: s += (r.chance(1, 6) ? ' ' : static_cast<char>('a' + r.below(26))); break;
        case TWO_BYTE_RUN: if (left >= 2) put_utf8(s, c2); else s += a; break;
        case THREE_BYTE_RUN: if (left >= 3) put_utf8(s, c3); else s += a; break;
        case FOUR_BYTE_RUN: if (left >= 4) put_utf8(s, c4); else s += a; break;
        case MIXED_UTF8: {
            const unsigned w = 1 + static_cast<unsigned>(r.below(4));
            if (w == 1 || left < w) s += static_cast<char>('a' + r.below(26));
            else put_utf8(s, w == 2 ? c2 : w == 3 ? c3 : c4);
            break;
        }
        default: s.append(left, static_cast<char>(0xFF)); break;      // HIGH_CONST: not UTF-8, for byte-oriented operations
        }
    }
    return s;
}

// arbitrary bytes (for operations that do not care about UTF-8): constant, constant high byte, random over a small alphabet
inline std::string byte_background(Rng &r, size_t len, const std::string &alphabet)
{
    switch (r.below(4)) {
    case 0: return std::string(len, alphabet[r.below(alphabet.size())]);
    case 1: return std::string(len, static_cast<char>(0x80 + r.below(0x80)));
    default: {
        std::string s(len, '\0');
        for (size_t i = 0; i < len; ++i) s[i] = alphabet[r.below(alphabet.size())];
        return s;
    }
    }
}

// overwrite bytes of `s` at `at` with `piece` (clipped at the end); returns the offset actually used
inline size_t plant(std::string &s, size_t at, const std::string &piece)
{
    if (piece.empty() || s.empty()) return at;
    if (at + piece.size() > s.size()) at = s.size() >= piece.size() ? s.size() - piece.size() : 0;
    for (size_t i = 0; i < piece.size() && at + i < s.size(); ++i) s[at + i] = piece[i];
    return at;
}

// first index where two byte strings differ (or npos), for compact mismatch reports on big values
inline size_t first_diff(const std::string &a, const std::string &b)
{
    const size_t n = std::min(a.size(), b.size());
    for (size_t i = 0; i < n; ++i)
        if (a[i] != b[i]) return i;
    return a.size() == b.size() ? std::string::npos : n;
}

// compact description of a big byte string for the current-case recorder / violation details
inline std::string brief(const std::string &s, size_t around = std::string::npos)
{
    std::string out = vrt::sfmt("len=%zu fnv=%016llx", s.size(), static_cast<unsigned long long>(vrt::fnv1a(s.data(), s.size())));
    if (around != std::string::npos && !s.empty()) {
        const size_t lo = around > 12 ? around - 12 : 0, hi = std::min(s.size(), around + 12);
        out += vrt::sfmt(" bytes[%zu..%zu)=%s", lo, hi, vrt::hex(s.data() + lo, hi - lo).c_str());
    } else if (!s.empty()) {
        out += " head=" + vrt::hex(s.data(), std::min<size_t>(s.size(), 16)) + " tail=" + vrt::hex(s.data() + s.size() - std::min<size_t>(s.size(), 16), std::min<size_t>(s.size(), 16));
    }
    return out;
}

} // namespace scale
