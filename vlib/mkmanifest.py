#!/usr/bin/env python3
"""Regenerates /verif/MANIFEST.json from vlib/props.py (run after editing props)."""
import json
import os
import sys

sys.path.insert(0, os.path.dirname(os.path.dirname(os.path.abspath(__file__))))
from vlib.props import PROPS, NOT_APPLICABLE  # noqa: E402

VERIF = os.path.dirname(os.path.dirname(os.path.abspath(__file__)))

ids = [json.loads(l)["id"] for l in open(os.path.join(VERIF, "properties.jsonl")) if l.strip()]

checks = []
for pid in ids:
    if pid not in PROPS:
        continue
    c = PROPS[pid]
    checks.append({
        "property_id": pid,
        "quick_cmd": "./check %s --tier quick" % pid,
        "thorough_cmd": "./check %s --tier thorough" % pid,
        "evidence_file": "/verif/evidence/%s.json" % pid,
        "replay_cmd_template": "./check %s --replay {path}" % pid,
        "engine": "vrt-" + c["harness"],
        "level_claimed": {
            "category": c["level"],
            "text": c["level_text"],
            "design_ref": c.get("design_ref", "DESIGN.md section 4, " + pid),
        },
        "level_note": c["level_note"],
        "technique": c["technique"],
    })

na = []
for pid in ids:
    if pid in PROPS:
        continue
    na.append({"property_id": pid, "reason": NOT_APPLICABLE.get(pid, "no check is registered for this property yet (see DESIGN.md)")})

manifest = {
    "version": 1,
    "setup_cmd": "./setup.sh",
    "hooks": {
        "guard": "ST_VERIF_HOOKS",
        "enable": "every harness is compiled with -DST_VERIF_HOOKS against /repo/include of the current working tree (vlib/core.py build())",
        "baseline_off_cmd": "cmake --build /repo/_build && cd /repo/_build/test && ./st_gtests",
        "source_commits": ["9dd9fcd"],
        "add_only": True,
    },
    "engines": [
        {"name": "vrt-" + h, "path": "/verif/harness/%s.cpp" % h,
         "serves_properties": [p for p in ids if p in PROPS and PROPS[p]["harness"] == h],
         "kind_free_text": "workload generator + monitors (reference oracle / shadow model / registry), run under gcc sanitizers by ./check"}
        for h in sorted({c["harness"] for c in PROPS.values()})
    ],
    "checks": checks,
    "not_applicable": na,
    "notes": ("Runtime monitoring and sanitizers only: every check runs the real headers of /repo's working tree under generated "
              "workloads with ASan+UBSan (TSan for C20) and task-specific monitors; see DESIGN.md.  Exit 0 held / 1 violation / 2 inconclusive."),
}
with open(os.path.join(VERIF, "MANIFEST.json"), "w") as f:
    json.dump(manifest, f, indent=1)
    f.write("\n")
print("MANIFEST.json: %d checks, %d not_applicable" % (len(checks), len(na)))
