"""Per-property configuration of the checks (what to build, how to run, what the evidence says)."""
import os

COMMON_ASSUMPTIONS = [
    "only executions produced by this run are judged (runtime monitoring): held means held on these cases",
    "platform configuration: g++ 12 -std=c++20 -O1, LP64, signed char, sizeof(wchar_t)==4, glibc",
    "reference models in /verif/rt/ref_*.h and the harness are written from the property statements and are trusted",
    "ASan/UBSan see only out-of-bounds accesses that leave an object or heap block (exact-size placement of inputs and objects is used to narrow this)",
]

LEVEL_NOTE = ("trusted base: g++ 12 + libasan/libubsan (libtsan for C20), the harness-side reference model and generators under /verif/rt and /verif/harness, "
              "the python driver; assumes the platform configuration compiled here (LP64, 4-byte wchar_t, signed char, C++20, glibc)")

ASAN = {"build": "asan"}
# thorough tier only: the same harness without sanitizers under valgrind memcheck, on a scaled-down workload.
# memcheck sees what ASan cannot: a branch or address computed from an uninitialised unit.
MEMCHECK = {"build": "plain", "name": "memcheck", "tiers": ("thorough",), "tier_override": "quick", "scale": 0.1, "workers": 16,
            # nouserintercepts: the harness replaces operator new/delete itself (on top of malloc, which memcheck still tracks);
            # without it valgrind redirects the executable's operator new to its own and every delete looks mismatched
            "wrapper": ["valgrind", "--tool=memcheck", "--error-exitcode=99", "--quiet", "--undef-value-errors=yes", "--leak-check=no", "--num-callers=16",
                        "--soname-synonyms=somalloc=nouserintercepts", "--suppressions=" + os.path.join(os.path.dirname(os.path.dirname(os.path.abspath(__file__))), "tools", "valgrind.supp")]}



def FUZZ(runs, max_len, seeds, tokens=(), flags=()):
    """thorough tier only: the same harness as a libFuzzer target (clang 14, ASan+UBSan): 16 processes on a shared corpus,
    `runs` executions each (a count, not a time budget); every input goes through the harness's per-input monitors."""
    return {"build": "fuzz", "name": "libfuzzer", "tiers": ("thorough",), "flags": list(flags),
            "fuzz": {"runs": runs, "jobs": 16, "max_len": max_len, "seeds": list(seeds), "dict": list(tokens)}}


_FZ_CONV_SEEDS = [b"\x00abc\xc3\xa9\xe2\x82\xac\xf0\x9f\x98\x80", b"\x00\xf4\x90\x80\x80\xed\xa0\x80\xc0\x80\xff", b"\x00abcdefghijklmnop\xe2\x82",
                  b"\x01A\x00\x3d\xd8\x00\xde\xff\xff", b"\x01\x00\xdc\x00\xd8\x41\x00\x00\xd8", b"\x02A\x00\x00\x00\x00\xf6\x01\x00\x00\x00\x11\x00",
                  b"\x02\x00\xd8\x00\x00\xff\xff\x10\x00\xff\xff\xff\xff"]
_FZ_CONV_TOKENS = [b"\xc3\xa9", b"\xe2\x82\xac", b"\xf0\x9f\x98\x80", b"\xf4\x8f\xbf\xbf", b"\xf4\x90\x80\x80", b"\xed\xa0\x80", b"\xed\xbf\xbf", b"\xc0\x80", b"\xe0\x80\x80",
                   b"\x00\xd8", b"\xff\xdb", b"\x00\xdc", b"\xff\xdf", b"\xff\xff\x10\x00", b"\x00\x00\x11\x00", b"\x00\xd8\x00\x00", b"\xff\x00\x00\x00", b"\x00\x01\x00\x00"]
_FZ_FMT_SEEDS = [b"\x00\x01{} {}", b"\x01\x02id={>8} {<_*12.3} {&1x}", b"\x05\x03{{x}} {#08x} {+d} {c}", b"\x30\x04{.5f} {10.2e} {E}", b"\x31\x05{&2} {&1} {_ 6b} {#o}", b"\x02\x06{>5c}"]
_FZ_FMT_TOKENS = [b"{", b"}", b"{{", b"}}", b"{}", b"{&1}", b"{&2}", b"{_*", b"{<", b"{>", b"{0", b"{#x}", b"{#X}", b"{+", b"{.3", b"{c}", b"{f}", b"{e}", b"{E}", b"{b}", b"{o}", b"{d}",
                  b"4294967295", b"2147483648", b"-1", b"99999999999999999999", b"\x80", b"\xc3\xa9"]
_FZ_CODEC_SEEDS = [b"\x0148656c6c6f", b"\x01DEADbeef00ff", b"\x00SGVsbG8=", b"\x00SGVsbA==", b"\x00AAAA////++++", b"\x00QUJD", b"\x01", b"\x00"]
_FZ_CODEC_TOKENS = [b"=", b"==", b"AA==", b"AAA=", b"AAAA", b"/+", b"0f", b"F0", b"\x80", b"\xff", b"\x00"]

# thorough tier only: the same harness without sanitizers at -O2 (what users of a header-only library compile with): behaviour
# that depends on the optimiser exploiting undefined behaviour the sanitizers cannot see (type punning, for one) shows as a
# mismatch with the reference model
PLAIN_O2 = {"build": "plain", "name": "plain-O2", "flags": ["-O2"], "tiers": ("thorough",)}

PROPS = {}
NOT_APPLICABLE = {}


# appended to every check's level text: the workload dimensions shared by all harnesses (DESIGN.md section 8.7)
WORKLOAD_NOTE = (" Beyond the short exhaustive / random phases every harness has a `scale` phase (inputs and object states of 4 KiB .. 1 MiB and more, lengths and "
                 "the property's features planted on and next to multiples of the block sizes a chunked implementation would use), runs a share of its cases under a "
                 "hostile global locale (where the harness enables it), and gets placement diversity from the runtime: input blocks that are not 16-byte aligned and "
                 "input / object / operator-new blocks re-issued at the address of a released one; evidence counters scale.*, ambient.*, placement.* say what was reached")
TECHNIQUE_NOTE = "; scale-, ambient-state- and placement-diversified workloads (DESIGN 8.7)"


def P(pid, title, harness, level_text, technique, rule, assumptions=(), runs=None, exhaustive=None,
      level="exploration", **kw):
    level_text = level_text + "." + WORKLOAD_NOTE
    technique = technique + TECHNIQUE_NOTE
    d = {
        "title": title, "harness": harness, "runs": runs or [ASAN], "level": level,
        "level_text": level_text, "level_note": LEVEL_NOTE, "technique": technique, "rule": rule,
        "assumptions": COMMON_ASSUMPTIONS + list(assumptions), "exhaustive": exhaustive or {},
    }
    d.update(kw)
    PROPS[pid] = d


P("C07", "searching returns exactly the first/last occurrence", "search",
  level_text=("runtime monitoring: every find/find_last/contains/starts_with/ends_with overload runs under ASan+UBSan and is compared call by call "
              "with a naive scan; exhaustive over a 5-letter alphabet {a,b,A,NUL,0x80} up to the stated lengths x every start/limit x both case modes, "
              "plus seeded random longer cases (self-overlapping needles, needle straddling the end, hits cut by the limit)"),
  technique="differential runtime monitoring against a naive reference scan under ASan+UBSan (exhaustive small-alphabet sweep + random)",
  rule=("a case is one (haystack, needle, case mode) triple, each evaluated at every start/limit position and through every needle form; "
        "distinct by the bytes of haystack and needle and the case mode; evaluations count individual library calls; all cases call the library (none trivial)"),
  assumptions=["(pointer,length) needles are given exactly `length` readable bytes (no terminator); const char* forms only for needles without NUL",
               "a needle length larger than the needle actually has (e.g. SIZE_MAX) is outside the property"],
  exhaustive={"quick": "all haystacks len<=5 x needles len<=3 over {a,b,A,NUL,0x80} x positions 0..len+2,SIZE_MAX-1,SIZE_MAX x {cs,ci}",
              "thorough": "all haystacks len<=7 x needles len<=3 over {a,b,A,NUL,0x80} x positions 0..len+2,SIZE_MAX-1,SIZE_MAX x {cs,ci}"},
  dbits={"quick": 23, "thorough": 26})

P("C08", "slicing returns the clamped byte range", "slice",
  level_text=("runtime monitoring: the real substr/left/right/trim/before_*/after_* run under ASan+UBSan on generated calls "
              "and are compared call by call with a naive reference slice; the replaced operator new watches every allocation size. "
              "Decides the property on the executions produced (exhaustive for the small-alphabet separator sweep, boundary-directed + random elsewhere)"),
  technique="differential runtime monitoring against a reference model under ASan+UBSan, allocation-size monitor",
  rule=("directed grid (every size class x boundary starts/counts incl. LONG_MIN/LONG_MAX/SIZE_MAX-k), every n for left/right, "
        "exhaustive small-alphabet sweep of subject x separator x case mode for before/after, seeded random cases; "
        "a case is distinct by (operation family, subject bytes, parameters); trivial = none (every counted case calls the library and compares with the reference)"),
  assumptions=["oversized allocation = any single request larger than size()+1 bytes during the call (measured by the replaced operator new)",
               "char / const char* separator forms are compared only for separators representable in that form"],
  exhaustive={"quick": "before/after: all subjects len<=4 x separators len<=3 over {a,b,A,NUL,0x80} x 2 case modes",
              "thorough": "before/after: all subjects len<=6 x separators len<=3 over {a,b,A,NUL,0x80} x 2 case modes"})

P("C09", "split, tokenize and replace partition the text exactly; join inverts split", "split",
  level_text=("runtime monitoring: split/tokenize/replace (every overload) run under ASan+UBSan and each result is compared with a naive reference "
              "partition; monitors add the max+1 piece bound, join(pieces, sep)==original, the replace length formula, a poison differential that exposes "
              "result bytes never written when the two scans of replace disagree, a per-call allocation cap (runaway allocation) and a CPU-time watchdog (termination)"),
  technique="differential runtime monitoring against a reference partition under ASan+UBSan, poison-fill differential, allocation cap + CPU watchdog",
  rule=("a case is one (operation, subject, separator/pattern[, replacement], max_splits, case mode) tuple, evaluated through every overload form that can represent it; "
        "distinct by those bytes/values; evaluations count library calls; no case is trivial (every one calls the library and is compared)"),
  assumptions=["results that are not well-formed UTF-8 (only reachable from from_validated subjects) may be rejected with ST::unicode_error by replace and by the validating const char* overloads; accepted there and nowhere else",
               "the char overload of split is exercised for 0x01..0x7F only (documented contract assertion otherwise)"],
  exhaustive={"quick": "split: subjects len<=5 x separators len<=2 over {a,b,A,',',';',NUL} x max in {0,1,2,SIZE_MAX} x {cs,ci}; replace: subjects len<=4 x patterns len<=2 x 9 replacements x {cs,ci}",
              "thorough": "split: subjects len<=6 x separators len<=3 over {a,b,A,',',';',NUL} x max in {0,1,2,SIZE_MAX} x {cs,ci}; replace: subjects len<=5 x patterns len<=2 x 9 replacements x {cs,ci}"},
  dbits={"quick": 24, "thorough": 27})

P("C06", "comparison is a total order; operators, overloads and hashes agree with it", "order",
  level_text=("runtime monitoring: every compare/compare_n/compare_i/compare_ni overload, the operators, less_i/equal_i, hash/hash_i and to_upper/to_lower run under "
              "ASan+UBSan on all ordered pairs of short strings over a 14-byte boundary alphabet (incl. 0x00 and bytes >= 0x80) and are checked against an unsigned lexicographic "
              "reference (sign, antisymmetry, zero-iff-equal, fold-equivalence), transitivity is checked on all triples, the four buffer element types the same way, and the huge "
              "length differences (2^31..2^63) through the static pointer+length compare"),
  technique="differential runtime monitoring against a reference order + algebraic law monitors (antisymmetry, transitivity, overload agreement) under ASan+UBSan",
  rule=("cases are ordered pairs (and triples) of strings/buffers; exhaustive over all strings up to the stated length over the boundary alphabet, plus seeded random pairs with long shared prefixes "
        "around the small-string limit; distinct counts the distinct left operands / random pairs (each left operand is compared with every right operand); evaluations count individual assertions on library results"),
  assumptions=["case-insensitive order of bytes >= 0x80 is not fixed by the statement: only antisymmetry, transitivity and zero-iff-fold-equal are required",
               "buffer element order is std::char_traits<T>::lt; wchar_t values are kept non-negative",
               "huge lengths are reached only through buffer<T>::compare(ptr,len,ptr,len[,n]) with a short common prefix (no memory of that size exists)"],
  exhaustive={"quick": "all ordered pairs of strings len<=2 over 14 bytes (211^2) x all prefix limits; ci triples over len<=1; buffers len<=2 per element type",
              "thorough": "all ordered pairs of strings len<=3 over 14 bytes (2955^2) x all prefix limits; ci triples over len<=2 (211^3); buffers len<=3 per element type"})

P("C14", "hex and base64 encodings are standard and decode back to the original bytes", "codec",
  level_text=("runtime monitoring: hex_encode/base64_encode run under ASan+UBSan and are compared with an RFC 4648 / lower-case-hex reference, then decoded back through the "
              "allocating and the caller-buffer decoders (and upper/mixed-case hex); exhaustive over all 2^24 three-byte groups (batched), all 2^16 two-byte and 2^8 one-byte tails, "
              "every length 0..70 with random content"),
  technique="differential runtime monitoring against RFC 4648 reference + round-trip monitor under ASan+UBSan (exhaustive over 3-byte groups)",
  rule=("a case is one byte array; the sweep batches 256 three-byte groups (two leading bytes fixed, every third byte) into one input so every group value occurs at first/middle/last position; "
        "distinct counts distinct inputs (batches, single groups, random arrays); evaluations count library calls; no case is trivial except the 4 empty-input calls"),
  exhaustive={"quick": "all 2^24 three-byte groups (batched), all 2^16 two-byte tails, all 2^8 one-byte tails",
              "thorough": "the same plus every one of the 2^24 groups encoded alone (in-object result strings)"},
  dbits={"quick": 22, "thorough": 26})

P("C15", "decoders accept exactly the valid encodings and never overrun the output buffer", "codec",
  runs=[ASAN, FUZZ(1500000, 48, _FZ_CODEC_SEEDS, _FZ_CODEC_TOKENS)],
  level_text=("runtime monitoring: hex_decode/base64_decode (allocating, caller-buffer, null-output) run under ASan+UBSan and their accept/reject decision, returned length and bytes are "
              "compared with the validity predicate and reference decoder of the statement; the output buffer is a heap block of exactly output_size bytes (red zone behind it) filled with a "
              "canary so writes beyond output_size or beyond the returned length are observed; exhaustive over all 256^2 hex digit pairs, every byte value at every position of first/middle/last "
              "base64 group, all 256^2 values of every position pair of the last group"),
  technique="differential runtime monitoring against a reference validity predicate, exact-size output buffers + canary under ASan+UBSan; thorough tier additionally: the same per-input monitors as a clang 14 libFuzzer target (coverage-guided, 16 processes on a shared corpus, fixed execution count)",
  rule=("a case is one input string (as hex or as base64), run through the allocating decoder, the null-output query and the caller-buffer decoder with output_size in {0, len-2, len-1, len/2, len, len+1, len+64, 2^32, 2^63-1, 2^63, SIZE_MAX}; "
        "distinct by (codec, input bytes); evaluations count library calls; no case is trivial"),
  assumptions=["on rejection (-1) partial writes inside the first output_size bytes are allowed; beyond output_size never",
               "null-output query on a malformed length is expected to return -1"],
  exhaustive={"quick": "hex: all 256^2 two-character strings; base64: 256 byte values x every position of 5 frames, 6 position pairs x 256^2 x 3 last-group shapes, all strings len<=9 over {A,=,*}",
              "thorough": "the same with all strings len<=12 over {A,=,*}"},
  dbits={"quick": 23, "thorough": 25})

P("C12", "integer to text to integer is exact for every value, width and base", "ints",
  level_text=("runtime monitoring: from_int/from_uint for every 16-bit value x 35 bases x both cases (exhaustive) and boundary-directed + random wider values run under ASan+UBSan "
              "(UBSan is what sees the most-negative-value negation), are compared with a reference digit generator, with the digits of ST::format {}/{d}/{x}/{X}/{o}/{b} and string_stream <<, "
              "and are parsed back through every wide-enough to_* member; the to_* parsers are compared on generated numerals/junk (whitespace, signs, prefixes, overflow, embedded NUL) "
              "with the C library strto* call on the same bytes, including the ok/full_match flags"),
  technique="differential runtime monitoring (reference digit generator, libc strto* as oracle, round-trip monitor) under ASan+UBSan",
  rule=("formatting cases are (type, value) pairs evaluated in bases 2..36 x {lower,upper} (all bases for the exhaustive/boundary sets, a base subset for most random values); parsing cases are (text, base); "
        "distinct by (type,value) resp. (text bytes, base); evaluations count library calls; nothing trivial"),
  assumptions=["bases outside 0, 2..36 are not generated (strtol leaves the end pointer unspecified there)",
               "the C library of this platform (glibc) is the oracle for the parsing direction, as the statement specifies"],
  exhaustive={"quick": "all 65536 short and 65536 unsigned short values x bases 2..36 x 2 cases", "thorough": "all 65536 short and 65536 unsigned short values x bases 2..36 x 2 cases"},
  dbits={"quick": 22, "thorough": 26})

P("C13", "floating-point text equals the C library rendering for every value and precision", "floats",
  level_text=("runtime monitoring: ST::format of float/double (all four notations, sign flag, precisions 0..1000, widths/alignments/pads), from_float/from_double, string_stream << and "
              "to_float/to_double run under ASan+UBSan and are compared with snprintf / strtod / strtof of this platform on the same value or bytes; a sweep drives renderings of every length "
              "around the 64-byte scratch buffers (62..66 and far beyond), the assertion observer and ASan watch for aborts and overruns; parsing includes decimal texts right beside float rounding ties"),
  technique="differential runtime monitoring with the platform C library as oracle under ASan+UBSan, directed at scratch-buffer length boundaries",
  rule=("formatting cases are (format spec, value) pairs, parsing cases are texts; values are directed (zeros, subnormals, extremes, inf, NaN, powers of 10 and 2 and their neighbours) and random bit patterns; "
        "distinct by (spec text, value bits) resp. text bytes; evaluations count library calls; nothing trivial"),
  assumptions=["glibc snprintf/strtod/strtof are the oracle, as the statement specifies", "precisions for which snprintf itself fails (> INT_MAX total) are not generated",
               "zero padding of floats is only generated where no sign is present and the padding goes to the left (the statement does not fix its position relative to a sign)"],
  dbits={"quick": 22, "thorough": 26})

_CONV_ASSUME = [
    "reference decoder semantics (which forms are tolerated, one bad unit per undecodable unit, greedy left to right) are those written in the C02 statement",
    "same-width aliases on this platform (utf32_to_wchar, wchar_to_utf32) are copies and are held to C01/C03 only",
    "*_to_latin_1(..., substitute_out_of_range=false) is expected to throw exactly when a decoded value >= 0x100 remains, in every mode",
    "under assume_valid, decoding converters are expected to give the substitute_invalid result on malformed input (what the code documents); UTF-8 -> ST::string keeps the bytes verbatim",
    "the 2-byte wchar_t overloads are never instantiated on this platform",
]

P("C01", "well-formed text transcodes losslessly and to the standard encoding", "conv",
  runs=[ASAN, PLAIN_O2],
  level_text=("runtime monitoring: scalar sequences are encoded by an independent reference encoder and pushed through every public conversion route (free converters with pointer/buffer/char8_t overloads, "
              "ST::string constructors/set/operator=/from_*/to_*/to_buffer, std string and string_view overloads, literal operators) in all three modes under ASan+UBSan; every result is compared unit for unit with the reference "
              "encoding. Thorough: every one of the 1,112,064 scalars in 13 neighbour contexts; quick: all scalars near every width boundary + a stride-61 sample; all 256 Latin-1 bytes at positions of strings of length 1..20"),
  technique="differential runtime monitoring against reference Unicode encoders/decoders under ASan+UBSan (exhaustive over scalar values in thorough tier)",
  rule=("a case is a scalar sequence (one scalar in 13 contexts, or a random sequence of up to 40 scalars of mixed widths) or a Latin-1 byte string, run through all routes x 3 modes; distinct by the sequence; "
        "evaluations count library calls; trivial = none (empty sequences are part of the random set but are < 0.1%)"),
  assumptions=_CONV_ASSUME,
  exhaustive={"thorough": "all 1,112,064 Unicode scalar values x 13 contexts x all routes x 3 modes; all 256 Latin-1 bytes at every position of strings of length 1..20"},
  dbits={"quick": 22, "thorough": 25})

P("C02", "validation modes accept, reject and repair malformed input correctly", "conv",
  runs=[{"build": "asan", "name": "default=check_validity", "flags": ["-DST_DEFAULT_VALIDATION=ST::check_validity", "-DVRT_EXPECT_DEFAULT=2"]},
        {"build": "asan", "name": "default=substitute_invalid", "flags": ["-DST_DEFAULT_VALIDATION=ST::substitute_invalid", "-DVRT_EXPECT_DEFAULT=1"]},
        {"build": "asan", "name": "default=assume_valid", "flags": ["-DST_DEFAULT_VALIDATION=ST::assume_valid", "-DVRT_EXPECT_DEFAULT=0"]},
        FUZZ(150000, 48, _FZ_CONV_SEEDS, _FZ_CONV_TOKENS)],
  level_text=("runtime monitoring: malformed and tolerated-form inputs in each source encoding (exhaustive over short strings of a branch-covering alphabet, embedded in valid text of every width class, "
              "every truncation, seeded mutations) run through every reading conversion in all three modes under ASan+UBSan; throw/no-throw and the repaired units are compared with the reference decoder of the statement, "
              "repaired output is re-validated, and the build is repeated for the three ST_DEFAULT_VALIDATION settings with mode-less calls compared against the configured mode"),
  technique="differential runtime monitoring against a reference decoder (accept/reject + repair) under ASan+UBSan, three build configurations; thorough tier additionally: the same per-input monitors as a clang 14 libFuzzer target (coverage-guided, 16 processes on a shared corpus, fixed execution count)",
  rule=("a case is one unit sequence in one source encoding, run through every conversion reading that encoding x 3 modes (+ mode-less calls); distinct by (encoding, units); evaluations count library calls; "
        "inputs without any bad unit or tolerated form are kept (they check 'accepted unchanged') but are the minority"),
  assumptions=_CONV_ASSUME + ["re-validation of repaired output is required only when the input has no tolerated non-scalar form (always for UTF-8 -> UTF-8)"],
  exhaustive={"quick": "UTF-8: all byte strings len<=3 over 20 bytes; UTF-16: all len<=4 over 9 units; UTF-32: all len<=3 over 16 values; x 3 configurations",
              "thorough": "UTF-8: all byte strings len<=4 over 20 bytes; UTF-16: all len<=5 over 9 units; UTF-32: all len<=4 over 16 values; x 3 configurations"},
  dbits={"quick": 23, "thorough": 26})

P("C03", "conversions are total and memory-safe on arbitrary input", "conv",
  runs=[ASAN, MEMCHECK, FUZZ(150000, 96, _FZ_CONV_SEEDS, _FZ_CONV_TOKENS)],
  level_text=("runtime monitoring: arbitrary unit sequences (the C02 malformed sets, every truncation of valid text, pure garbage of length 0..64, lead-byte-dense tails, empty and (nullptr,0), inputs of 64 Ki..1 Mi units) "
              "are handed to every conversion in exact-size heap blocks without terminator under ASan+UBSan: a read past the input or a write past the result lands in a red zone, any abort/assertion/crash/hang/foreign exception "
              "is reported through the driver, and size(), the terminator and every unit of the result are compared with the reference transcoding under the same mode (so an unwritten unit shows as a mismatch)"),
  technique="sanitizer-monitored execution (ASan+UBSan, exact-size placement, assertion observer, CPU watchdog) + differential size/content check against a reference transcoder; thorough tier additionally: the same per-input monitors as a clang 14 libFuzzer target (coverage-guided, 16 processes on a shared corpus, fixed execution count)",
  rule=("a case is one unit sequence in one source encoding through all 12 source/target pairs + aliases + ST::string members x 3 modes; distinct by (encoding, units); evaluations count library calls; nothing trivial "
        "(empty/null inputs are a dedicated phase)"),
  assumptions=_CONV_ASSUME + ["inputs of 256 Mi units or more are outside the property and are not run",
                              "'no part of the result left unwritten' is observed as unit-for-unit equality with the reference on heap results that ASan pre-fills with 0xbe and in-object results that start zeroed"],
  exhaustive={"quick": "UTF-8: all byte strings len<=3 over 20 bytes; UTF-16: all len<=4 over 9 units; UTF-32: all len<=3 over 16 values",
              "thorough": "UTF-8: all byte strings len<=4 over 20 bytes; UTF-16: all len<=5 over 9 units; UTF-32: all len<=4 over 16 values"},
  dbits={"quick": 23, "thorough": 26})

P("C11", "formatted output equals the specified rendering of literals, fields and padding", "fmtout",
  level_text=("runtime monitoring: ST::format runs under ASan+UBSan on generated format strings (0..4 fields, shuffled flag order, brace escapes, sequential and &N selection) with typed argument lists of "
              "48 shapes covering every supported integer, character, boolean and string type, and its output is compared byte for byte with a reference renderer written from the statement; a single-field grid "
              "enumerates alignment x pad x width x '#' x '+' x class over boundary magnitudes of every integer type, and precision x width x alignment x pad over strings of every length relative to them"),
  technique="differential runtime monitoring against a reference renderer under ASan+UBSan (enumerated single-field grid + random multi-field formats)",
  rule=("a case is (format string, typed argument list); distinct by (shape, format string bytes, expected output); evaluations count ST::format calls; nothing trivial (formats without any field are < 20% of the random phase "
        "and still check literal copying and brace reduction)"),
  assumptions=["padded {c} conversions are excluded (documented contract assertion)", "floating-point arguments are C13's subject and are not generated here",
               "null const char* arguments are not generated (the statement does not define their rendering)",
               "wide-string arguments are valid UTF-16/32 (their transcoding is C01-C03's subject)"],
  exhaustive={"quick": "single-field grid: 3 alignments x 3 pad kinds x 5 widths x '#' x '+' x 7 classes x 31 magnitudes x 2 signs x 10 integer types; text grid: 17 string/bool types x 3 x 3 x 7 precisions x 7 widths x 40 strings",
              "thorough": "the same grids"},
  dbits={"quick": 23, "thorough": 26})

P("C10", "the format-string parser is total and memory-safe on every format string", "fmtparse",
  runs=[ASAN, FUZZ(600000, 40, _FZ_FMT_SEEDS, _FZ_FMT_TOKENS)],
  level_text=("runtime monitoring: ST::format (all four validation selectors) runs under ASan+UBSan on every string up to the stated length over the specifier alphabet, on valid fields cut at every "
              "position, on mutated format strings and on numbers that overflow or wrap when narrowed, each with argument lists of every supported type; format strings live in exact-size heap blocks so a read "
              "past the terminating NUL is an ASan report; the outcome monitor accepts only output / bad_format / out_of_range / invalid_argument(null) / unicode_error / the documented padded-character contract "
              "assertion (classified in-process through the assertion observer hook) and checks that the requested validation alone decides between output and unicode_error"),
  technique="sanitizer-monitored execution (ASan+UBSan, exact-size format strings, assertion observer, CPU watchdog) + outcome-class monitor + cross-mode consistency oracle; thorough tier additionally: the same per-input monitors as a clang 14 libFuzzer target (coverage-guided, 16 processes on a shared corpus, fixed execution count)",
  rule=("a case is (format string, argument-list shape), run under 4 validation selectors; distinct by (shape, format bytes); evaluations count ST::format calls; nothing trivial"),
  assumptions=["digit runs meaning more than 200000 columns of padding / precision are skipped (resource bound, DESIGN 6.8); numbers that wrap to small or negative ints are included",
               "wide-string arguments are valid text, so unicode_error can only come from the result validation"],
  exhaustive={"quick": "all strings len<=4 over the 19-symbol specifier alphabet x 7 argument lists x 4 validation selectors",
              "thorough": "all strings len<=5 over the 19-symbol specifier alphabet x 7 argument lists x 4 validation selectors"},
  dbits={"quick": 23, "thorough": 26})

P("C17", "all output sinks emit the same bytes for the same format call", "sinks",
  level_text=("runtime monitoring: for generated format strings and typed argument lists, ST::printf into an open_memstream FILE*, ST::writef into char / wchar_t / char16_t / char32_t "
              "ostringstreams and ST::format_latin_1 run under ASan+UBSan and are compared with ST::format of the same call (byte-identical, resp. its UTF-16/32 or Latin-1->UTF-8 transcoding by the "
              "reference encoders); operator<< of ST::string into the four stream types is compared with the transcoded contents and operator>> with what a std::basic_string extraction yields"),
  technique="differential runtime monitoring across sinks (ST::format as the pivot, reference transcoders) under ASan+UBSan",
  rule=("a case is (format string, typed argument list) through 7 sinks, or a text inserted into 4 stream types / a token stream extracted from 2; distinct by (shape, format bytes, output) resp. text; "
        "evaluations count sink calls; format calls that ST::format itself rejects are counted separately and not compared"),
  assumptions=["compared only when ST::format succeeds", "pad characters are ASCII and precision cuts only ASCII text, so every chunk handed to a wide sink is valid by itself (chunk-wise transcoding is how those sinks work)",
               "U+FFFF is not compared on char16_t streams: libstdc++ char_traits<char16_t> maps it to U+FFFD (eof collision) inside the stream",
               "extraction is exercised for char and wchar_t streams (libstdc++ has no ctype facet for char16_t/char32_t, so std::basic_string extraction itself fails there)"],
  dbits={"quick": 22, "thorough": 25})

P("C05", "buffers keep size, content, terminator and exclusive ownership over any history", "buffer",
  runs=[ASAN, MEMCHECK, PLAIN_O2],
  level_text=("runtime monitoring of histories: for each of char, wchar_t, char16_t and char32_t a pool of 8 buffers (each in a heap block of exactly sizeof(buffer) bytes) is driven through random sequences of "
              "construction, copy, move, copy/move assignment incl. self-assignment, allocate, clear, element writes, reads and destruction under ASan+UBSan; after every step every live buffer is compared with a "
              "shadow std::basic_string, its terminator is read, and its storage is classified through the replaced operator new/delete registry (in-object below the limit, otherwise exactly one exclusive new[] block of "
              "(size+1) elements); conservation (library-owned live blocks == long buffers) and quiescence (nothing alive after all are destroyed) are checked; moved-from objects are held to the same invariants. "
              "An exhaustive two-object table covers every (target class x source class x {copy=, move=, copy-ctor, move-ctor} x destruction order)"),
  technique="history monitoring with a shadow model + structural invariant hooks (allocation registry, object footprint) under ASan+UBSan/LSan",
  rule=("a case is one operation history (80 steps quick / 150 thorough over a pool of 8 buffers) or one cell of the two-object table; distinct by the operation sequence text; evaluations count monitor sweeps "
        "(one per step, each over all live buffers); nothing trivial"),
  assumptions=["the value of a moved-from buffer is unspecified: the monitor adopts whatever it reports, provided the structural invariants hold, and holds it to that value afterwards",
               "the small-buffer limit is derived from sizeof(buffer<T>)"],
  exhaustive={"quick": "two-object table: 7 target classes x 7 source classes x 4 operations x 2 destruction orders x 4 element types",
              "thorough": "the same table"},
  dbits={"quick": 22, "thorough": 25})

P("C04", "ST::string has value semantics: reads never mutate, results never alias", "value",
  runs=[ASAN, PLAIN_O2],
  level_text=("runtime monitoring of histories: a pool of 12 strings of every size class (each object in a heap block of exactly sizeof(ST::string) bytes) is driven through random sequences of ~30 kinds of const "
              "operations (slicing, trimming, case mapping, replace, split, tokenize, concatenation, conversions, comparison/search/hash, formatting, streaming, copies; deliberately including results equal to the source) "
              "and ~16 mutators (assignment, set, +=, clear, moves, and the self-referential s=s, s+=s, s.set(s), s=move(s), s.replace(s,s), s=s.substr(1)) under ASan+UBSan; every live string is snapshotted (bytes, size, data "
              "pointer) before each step and compared after it, every returned string must own its storage (in-object or one registry block nobody else points at), and then either the source is overwritten/destroyed "
              "first and the results re-read, or the results are modified first and all strings re-compared"),
  technique="history monitoring with a shadow model + aliasing/ownership monitor (allocation registry, object footprint, snapshot comparison) under ASan+UBSan",
  rule=("a case is one history (60 steps quick / 120 thorough); distinct by the operation sequence text; evaluations count snapshot comparisons; nothing trivial"),
  assumptions=["the value of a moved-from string is unspecified: adopted if structurally valid", "std::string_view / c_str() results alias by design and are not held to independence",
               "validating overloads may throw unicode_error on operands that are not valid UTF-8 (only reachable after a byte-wise cut of multi-byte text)"],
  dbits={"quick": 22, "thorough": 25})

P("C16", "string_stream content equals the concatenation of everything appended", "sstream",
  runs=[ASAN, MEMCHECK],
  level_text=("runtime monitoring of histories: a pool of 5 streams (each in a heap block of exactly sizeof(string_stream) bytes) is driven through random sequences of append (sizes around 256, 512, 1024... and single "
              "appends spanning several doublings), append_char, every operator<< overload (text of all widths incl. views that are sub-ranges of larger buffers, integers incl. min/max, floats, chars, ST::string, STL strings), "
              "truncate/erase to every size class, move construction/assignment in all four storage-mode combinations, use of moved-from streams and to_string in both interpretations and three validation modes, under "
              "ASan+UBSan; after every step every stream's size() and raw_buffer() are compared with a byte-string model and its storage is classified through the allocation registry (in-object vs one exclusive new[] block); "
              "conservation and quiescence detect leaks and double frees; a CPU-time watchdog detects non-termination"),
  technique="history monitoring with a byte-string shadow model + structural invariant hooks (allocation registry) under ASan+UBSan, CPU watchdog",
  rule=("a case is one history (60 steps quick / 120 thorough over 5 streams); distinct by the operation sequence text; evaluations count monitor sweeps (one per step over all live streams); nothing trivial"),
  assumptions=["appending a range of the stream's own storage to itself is not generated", "wide-text arguments are valid (a throwing insertion is C18's subject)"],
  dbits={"quick": 22, "thorough": 25})

P("C18", "a failed operation leaves its target and its arguments unchanged", "failure",
  level_text=("runtime monitoring: ~110 throwing entry points (assignment, set, +=, +, constructors with rvalue arguments, free converters, to_latin_1(false), at(), hex/base64 decode, ST::format/writef with bad "
              "format strings / missing arguments / invalid results, string_stream << wide text and to_string, istream >>) are driven with malformed UTF-8/16/32, invalid code points, bad hex/base64 and bad format strings, "
              "enumerated over target size class x argument size x damage position, under ASan+UBSan; after catching the exception every watched target and argument (lvalue and rvalue) is compared with the value captured "
              "before the call, the allocation registry is checked for allocations that survived the failed call, and the objects are used again"),
  technique="runtime monitoring with before/after value snapshots, exception-type monitor and allocation-registry leak check under ASan+UBSan (enumerated fault table)",
  rule=("a case is one cell (target length, argument length, damage position) running every scenario once with random contents; distinct counts the cells x repetitions; evaluations count failing calls and their checks; nothing trivial"),
  assumptions=["FILE*/ostream sinks are incremental: only string-like targets and the arguments are held to 'unchanged'",
               "known finding K1: ST::format with an rvalue string argument moves it into the formatter closure before parsing (recorded, printed as KNOWN-FINDING)"],
  exhaustive={"quick": "scenario table x target length {0,5,15,16,17,40} x argument length {3,20,60} x damage at {start,middle,end}", "thorough": "the same table, 200 random fillings per cell"},
  dbits={"quick": 20, "thorough": 22})

P("C19", "allocation failure propagates cleanly and leaves every object destructible", "oom",
  level="fault_enumeration",
  level_text=("fault enumeration by runtime injection: for each of ~100 allocating operations (buffers of the four element types, string construction/assignment/concatenation/slicing/replace/split, all converters, "
              "codecs, formatting, stream growth and moves, iostream insertion/extraction) x 4 storage-mode combinations of target and argument, the allocations performed inside the call are counted and then each one "
              "in turn is made to throw by a countdown failpoint in the replaced operator new; under ASan+UBSan the monitors check that std::bad_alloc reaches the caller (or, for iostream operations, the stream reports "
              "failure), that every fixture is still structurally valid (storage alive, previous value or empty), can be assigned to and destroyed, and that no library allocation survives the teardown"),
  technique="fault injection at operator new (exhaustive over allocation index per operation) + structural/ownership monitors via the allocation registry under ASan+UBSan",
  rule=("a case is (operation, storage-mode combination, random filling); for each the failpoint is placed on every allocation index k=1..N of the call, so the fault space of the table is enumerated completely; "
        "distinct by (operation, mode, filling seed); evaluations count injected faults + counting runs; nothing trivial (operations with N=0 for a given filling are counted separately)"),
  assumptions=["only operator new/new[] is faulted; malloc inside libc (open_memstream, locale init) is not",
               "iostream operations may report an allocation failure inside libstdc++ through the stream state instead of an exception (standard library protocol)",
               "allocations made by the operation body itself (temporary std::strings of the harness inside the call) are faulted too; they propagate bad_alloc trivially"],
  exhaustive={"quick": "every allocation index of every (operation, storage-mode combination) of the table, 2 random fillings each",
              "thorough": "every allocation index of every (operation, storage-mode combination) of the table, 24 random fillings each"},
  dbits={"quick": 20, "thorough": 22})

P("C20", "concurrent use needs no locking", "threads",
  runs=[{"build": "tsan", "workers": 4}],
  level_text=("runtime monitoring of schedules: 4 or 16 threads, released together behind a barrier, each run a seeded program of thousands of operations mixing every const operation on 8 shared immutable strings and 4 shared "
              "buffers (search, compare, hash, slicing, split, replace, case mapping, conversions, formatting, stream insertion, codecs, copies, concatenation) with arbitrary operations on thread-local objects (integer and "
              "floating-point formatting incl. renderings beyond the 64-byte scratch buffers, from_int/from_double, parsing, conversions, hex/base64 codecs, string_stream, buffers, iostream/stdio sinks), under "
              "ThreadSanitizer; every report is a violation, and each thread's result digest is compared with the same program run alone afterwards. The run reports how many operation pairs actually overlapped in "
              "time on the same shared object / in the same code path"),
  technique="ThreadSanitizer race detection over stress schedules + per-thread result digests compared with a sequential run; overlap measured from thread-local timestamps",
  rule=("a case is one concurrent round (thread count, per-thread seeds, operations per thread); distinct by (seeds, thread count); evaluations count operations executed concurrently; nothing trivial"),
  assumptions=["TSan reports only races on paths the threads actually execute concurrently within its history window; absence of a report is not absence of a race on untested pairs",
               "libstdc++/glibc are not TSan-instrumented; only accesses from code compiled into the harness (the header-only library, templates) are observed",
               "the sequential reference run happens after the concurrent round, so lazily initialised state would be initialised under concurrency first"],
  dbits={"quick": 16, "thorough": 18})

_PENDING = "check not registered yet in this revision of /verif (harness under construction; nothing is claimed)"
for _p in ["C%02d" % i for i in range(1, 21)]:
    if _p not in PROPS:
        NOT_APPLICABLE[_p] = _PENDING
