"""Per-property configuration of the checks (what to build, how to run, what the evidence says)."""

COMMON_ASSUMPTIONS = [
    "only executions produced by this run are judged (runtime monitoring): held means held on these cases",
    "platform configuration: g++ 12 -std=c++20 -O1, LP64, signed char, sizeof(wchar_t)==4, glibc",
    "reference models in /verif/rt/ref_*.h are written from the property statements and are trusted",
    "ASan/UBSan see only out-of-bounds accesses that leave an object or heap block (exact-size placement is used to narrow this)",
]

ASAN = {"build": "asan"}

PROPS = {}

PROPS["C08"] = {
    "title": "slicing returns the clamped byte range",
    "harness": "slice",
    "runs": [ASAN],
    "level": "exploration",
    "rule": ("directed grid (every size class x boundary starts/counts incl. LONG_MIN/LONG_MAX/SIZE_MAX-k), every n for left/right, "
             "exhaustive small-alphabet sweep of subject x separator x case mode for before/after, seeded random cases; "
             "a case is distinct by (operation family, subject bytes, parameters); trivial = none (every counted case calls the library and compares with the reference)"),
    "assumptions": COMMON_ASSUMPTIONS + [
        "oversized allocation = any single request larger than size()+1 bytes during the call (measured by the replaced operator new)",
        "char / const char* separator forms are compared only for separators representable in that form",
    ],
    "exhaustive": {"quick": "before/after: all subjects len<=4 x separators len<=3 over {a,b,A,NUL,0x80} x 2 case modes",
                   "thorough": "before/after: all subjects len<=6 x separators len<=3 over {a,b,A,NUL,0x80} x 2 case modes"},
}
