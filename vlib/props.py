"""Per-property configuration of the checks (what to build, how to run, what the evidence says)."""

COMMON_ASSUMPTIONS = [
    "only executions produced by this run are judged (runtime monitoring): held means held on these cases",
    "platform configuration: g++ 12 -std=c++20 -O1, LP64, signed char, sizeof(wchar_t)==4, glibc",
    "reference models in /verif/rt/ref_*.h are written from the property statements and are trusted",
    "ASan/UBSan see only out-of-bounds accesses that leave an object or heap block (exact-size placement is used to narrow this)",
]

ASAN = {"build": "asan"}

PROPS = {}

# properties without a registered check (kept current; see DESIGN.md)
NOT_APPLICABLE = {}
_PENDING = "check not registered yet in this revision of /verif (harness under construction; nothing is claimed)"
for _p in ["C01","C02","C03","C04","C05","C06","C07","C09","C10","C11","C12","C13","C14","C15","C16","C17","C18","C19","C20"]:
    NOT_APPLICABLE[_p] = _PENDING

LEVEL_NOTE = ("trusted base: g++ 12 + libasan/libubsan (libtsan for C20), the harness-side reference model and generators under /verif/rt and /verif/harness, "
              "the python driver; assumes the platform configuration compiled here (LP64, 4-byte wchar_t, signed char, C++20, glibc)")

PROPS["C08"] = {
    "title": "slicing returns the clamped byte range",
    "harness": "slice",
    "runs": [ASAN],
    "level": "exploration",
    "level_text": ("runtime monitoring: the real substr/left/right/trim/before_*/after_* run under ASan+UBSan on ~1.7M (quick) generated calls "
                   "and are compared call by call with a naive reference slice; the replaced operator new watches every allocation size. "
                   "Decides the property on the executions produced (exhaustive for the small-alphabet separator sweep, boundary-directed + random elsewhere)"),
    "level_note": LEVEL_NOTE,
    "technique": "differential runtime monitoring against a reference model under ASan+UBSan, allocation-size monitor",
    "rule": ("directed grid (every size class x boundary starts/counts incl. LONG_MIN/LONG_MAX/SIZE_MAX-k), every n for left/right, "
             "exhaustive small-alphabet sweep of subject x separator x case mode for before/after, seeded random cases; "
             "a case is distinct by (operation family, subject bytes, parameters); trivial = none (every counted case calls the library and compares with the reference)"),
    "assumptions": COMMON_ASSUMPTIONS + [
        "oversized allocation = any single request larger than size()+1 bytes during the call (measured by the replaced operator new)",
        "char / const char* separator forms are compared only for separators representable in that form",
    ],
    "exhaustive": {"quick": "before/after: all subjects len<=4 x separators len<=3 over {a,b,A,NUL,0x80} x 2 case modes",
                   "thorough": "before/after: all subjects len<=6 x separators len<=3 over {a,b,A,NUL,0x80} x 2 case modes"},
}
