#!/usr/bin/env python3
"""Validates MANIFEST.json and evidence/*.json against the given schemas (uses the tooling venv's jsonschema)."""
import glob, json, sys
import jsonschema
ok = True
m = json.load(open('/verif/MANIFEST.json'))
jsonschema.validate(m, json.load(open('/root/.vp/MANIFEST.schema.json')))
es = json.load(open('/root/.vp/EVIDENCE.schema.json'))
for p in sorted(glob.glob('/verif/evidence/*.json')):
    try:
        jsonschema.validate(json.load(open(p)), es)
    except Exception as e:
        ok = False
        print('INVALID', p, str(e)[:300])
ids = [json.loads(l)["id"] for l in open('/verif/properties.jsonl') if l.strip()]
claimed = {c["property_id"] for c in m["checks"]}
na = {c["property_id"] for c in m.get("not_applicable", [])}
assert claimed | na == set(ids) and not (claimed & na), (claimed, na)
print('manifest ok: %d claimed, %d n/a; evidence files valid: %s' % (len(claimed), len(na), ok))
sys.exit(0 if ok else 1)
