"""Driver core for the /verif runtime-monitoring checks (DESIGN.md section 2)."""
import concurrent.futures
import hashlib
import json
import os
import re
import shutil
import signal
import subprocess
import sys
import time

VERIF = os.path.dirname(os.path.dirname(os.path.abspath(__file__)))
REPO = os.environ.get("VERIF_REPO", "/repo")
BUILD = os.path.join(VERIF, ".build")
GUARD = "ST_VERIF_HOOKS"

CXX = "g++"
BASE_FLAGS = ["-std=c++20", "-O1", "-g", "-fno-omit-frame-pointer", "-D" + GUARD,
              "-Wno-deprecated-declarations"]
BUILD_FLAGS = {
    "asan": ["-fsanitize=address,undefined", "-fno-sanitize-recover=all"],
    "tsan": ["-fsanitize=thread", "-pthread"],
    "plain": [],
    # clang 14 + libFuzzer (gcc has no -fsanitize=fuzzer); object-size is off because clang's
    # UBSan raises a false alarm on zero-length-array empty classes of libstdc++
    "fuzz": ["-fsanitize=fuzzer,address,undefined", "-fno-sanitize-recover=all", "-fno-sanitize=object-size", "-DVRT_FUZZ"],
}
BUILD_CXX = {"fuzz": "clang++"}
BUILD_STD = {"fuzz": "-std=gnu++20"}
ASAN_OPTIONS = ("abort_on_error=1:detect_leaks=1:detect_stack_use_after_return=1:"
                "allocator_may_return_null=1:malloc_context_size=12:print_legend=0:"
                "max_allocation_size_mb=4096:quarantine_size_mb=64")
UBSAN_OPTIONS = "print_stacktrace=1:halt_on_error=1"
TSAN_OPTIONS = "halt_on_error=0:second_deadlock_stack=1:exitcode=66:report_signal_unsafe=0"
LSAN_OPTIONS = "exitcode=23"


class HarnessFailure(Exception):
    pass


def log(msg):
    print(msg, flush=True)


# ---------------------------------------------------------------- config header
CMAKE_DEFINES = {
    "ST_HAVE_INT64", "ST_HAVE_DEPRECATED_ATTR", "ST_HAVE_NODISCARD_ATTR",
    "ST_HAVE_CXX17_STRING_VIEW", "ST_HAVE_CXX17_FILESYSTEM", "ST_HAVE_CXX20_U8_FSPATH",
    "ST_HAVE_CXX20_CHAR8_TYPES", "ST_ENABLE_STL_STRINGS", "ST_ENABLE_STL_FILESYSTEM",
}


def repo_version():
    major, minor = "3", "9"
    try:
        txt = open(os.path.join(REPO, "CMakeLists.txt"), errors="replace").read()
        m = re.search(r"set\(ST_MAJOR_VERSION\s+(\d+)\)", txt)
        if m:
            major = m.group(1)
        m = re.search(r"set\(ST_MINOR_VERSION\s+(\d+)\)", txt)
        if m:
            minor = m.group(1)
    except OSError:
        pass
    return major, minor


def gen_config(text):
    """configure_file() emulation for st_config.h.in with the feature set CMake
    detects for this toolchain (g++ 12, C++20)."""
    major, minor = repo_version()
    subst = {"ST_MAJOR_VERSION": major, "ST_MINOR_VERSION": minor, "ST_VERSION": major + "." + minor}
    out = []
    for line in text.split("\n"):
        m = re.match(r"^(\s*)#cmakedefine\s+(\w+)(.*)$", line)
        if m:
            if m.group(2) in CMAKE_DEFINES:
                line = "%s#define %s%s" % (m.group(1), m.group(2), m.group(3))
            else:
                line = "%s/* #undef %s */" % (m.group(1), m.group(2))
        line = re.sub(r"@(\w+)@", lambda mm: subst.get(mm.group(1), ""), line)
        out.append(line)
    return "\n".join(out)


def tree_hash(paths):
    h = hashlib.sha256()
    for root in paths:
        if os.path.isfile(root):
            h.update(root.encode())
            h.update(open(root, "rb").read())
            continue
        for d, dirs, files in sorted(os.walk(root)):
            dirs.sort()
            for f in sorted(files):
                p = os.path.join(d, f)
                h.update(os.path.relpath(p, root).encode())
                try:
                    h.update(open(p, "rb").read())
                except OSError:
                    pass
    return h.hexdigest()


def prune_cache(keep=100):
    cdir = os.path.join(BUILD, "cache")
    try:
        ents = [(os.path.getmtime(os.path.join(cdir, e)), e) for e in os.listdir(cdir)]
    except OSError:
        return
    ents.sort(reverse=True)
    for _, e in ents[keep:]:
        shutil.rmtree(os.path.join(cdir, e), ignore_errors=True)


def build(harness, build_name, extra_flags=()):
    """Compile harness/<harness>.cpp against the CURRENT /repo working tree.
    Returns the path of the binary.  Cached by content hash of everything that
    goes into the compile."""
    src = os.path.join(VERIF, "harness", harness + ".cpp")
    inc = os.path.join(REPO, "include")
    cfg_in = os.path.join(inc, "st_config.h.in")
    if not os.path.exists(cfg_in):
        raise HarnessFailure("missing " + cfg_in)
    cxx = BUILD_CXX.get(build_name, CXX)
    flags = BASE_FLAGS + BUILD_FLAGS[build_name] + list(extra_flags)
    if build_name in BUILD_STD:
        flags = [BUILD_STD[build_name] if f.startswith("-std=") else f for f in flags]
    key = hashlib.sha256()
    key.update(tree_hash([inc, os.path.join(REPO, "CMakeLists.txt")]).encode())
    key.update(tree_hash([os.path.join(VERIF, "rt"), src]).encode())
    key.update(" ".join(flags).encode())
    key.update(subprocess.run([cxx, "--version"], capture_output=True, text=True).stdout.encode())
    hid = key.hexdigest()[:24]
    cdir = os.path.join(BUILD, "cache", hid)
    binp = os.path.join(cdir, harness)
    if os.path.exists(binp):
        os.utime(cdir, None)
        return binp, True
    tmp = cdir + ".tmp%d" % os.getpid()
    shutil.rmtree(tmp, ignore_errors=True)
    os.makedirs(os.path.join(tmp, "gen"))
    with open(os.path.join(tmp, "gen", "st_config.h"), "w") as f:
        f.write(gen_config(open(cfg_in, errors="replace").read()))
    cmd = [cxx] + flags + ["-I" + os.path.join(tmp, "gen"), "-I" + inc, "-I" + os.path.join(VERIF, "rt"),
                           src, "-o", os.path.join(tmp, harness)]
    t0 = time.time()
    r = subprocess.run(cmd, capture_output=True, text=True)
    if r.returncode != 0:
        shutil.rmtree(tmp, ignore_errors=True)
        raise HarnessFailure("compile of %s [%s] failed:\n%s" % (harness, build_name, r.stderr[-6000:]))
    shutil.rmtree(os.path.join(tmp, "gen"), ignore_errors=True)
    shutil.rmtree(cdir, ignore_errors=True)
    os.rename(tmp, cdir)
    log("  built %s [%s%s] in %.1fs" % (harness, build_name, (" " + " ".join(extra_flags)) if extra_flags else "",
                                        time.time() - t0))
    return binp, False


# ---------------------------------------------------------------- crash classification
def _first_repo_frame(text):
    """function name of the first stack frame that lies in the library headers"""
    for m in re.finditer(r"#\d+ (?:0x[0-9a-f]+ in )?(.+?) (\S+?):(\d+)", text):
        func, path = m.group(1), m.group(2)
        if "/include/st_" in path or os.path.basename(path).startswith("st_"):
            func = re.sub(r"\(.*$", "", func).strip()
            func = re.sub(r"<.*>", "<>", func)
            return func
    return None


def classify_crash(stderr, curtext, returncode, phase):
    """-> violation key for an abnormal worker death"""
    m = re.search(r"^ASSERT (\S+?):(\d+): (.*)$", curtext, re.M)
    am = re.search(r"ERROR: AddressSanitizer: ([\w-]+)", stderr)
    if am:
        kind = am.group(1)
        if kind == "attempting":
            m2 = re.search(r"AddressSanitizer: (attempting [\w -]+?) (on|in) ", stderr)
            kind = m2.group(1).replace(" ", "-") if m2 else "bad-free"
        fn = _first_repo_frame(stderr) or phase
        return "asan:%s@%s" % (kind, fn)
    um = re.search(r"(\S+?):(\d+):(\d+): runtime error: (.*)", stderr)
    if um and (um.group(1).startswith(os.path.join(VERIF, "harness")) or um.group(1).startswith(os.path.join(VERIF, "rt"))):
        # undefined behaviour in the harness itself is a harness failure, never a verdict
        return "harness-bug:ubsan:%s:%s: %s" % (os.path.basename(um.group(1)), um.group(2), um.group(4)[:160])
    if um:
        msg = re.sub(r"0x[0-9a-f]+", "ADDR", um.group(4))
        msg = re.sub(r"-?\d+", "N", msg)
        return "ubsan:%s@%s" % (msg.strip()[:120], os.path.basename(um.group(1)))
    if "ERROR: LeakSanitizer" in stderr:
        fn = _first_repo_frame(stderr) or phase
        return "lsan:leak@%s" % fn
    if m:
        return 'assert:"%s"@%s' % (m.group(3), m.group(1))
    tm = re.search(r"terminate called after throwing an instance of '([^']+)'", stderr)
    if tm:
        return "terminate:%s@%s" % (tm.group(1), phase)
    if "terminate called" in stderr:
        return "terminate:unknown@%s" % phase
    sm = re.search(r"^(\S+?):(\d+): (.+)$", stderr, re.M)
    if returncode == -signal.SIGABRT and sm and sm.group(1).endswith(".h"):
        return 'assert:"%s"@%s' % (sm.group(3), os.path.basename(sm.group(1)))
    if returncode < 0:
        try:
            name = signal.Signals(-returncode).name
        except ValueError:
            name = "SIG%d" % -returncode
        return "signal:%s@%s" % (name, phase)
    return "abnormal-exit:%d@%s" % (returncode, phase)


def memcheck_keys(stderr):
    """dedupe valgrind memcheck errors by kind and first library frame"""
    keys = {}
    for m in re.finditer(r"==\d+== (Conditional jump or move depends on uninitialised value\(s\)|Use of uninitialised value of size \d+|"
                         r"Invalid (?:read|write) of size \d+|Invalid free\(\) / delete / delete\[\] / realloc\(\)|Mismatched free\(\) / delete / delete \[\]|"
                         r"Syscall param \S+ points to uninitialised byte\(s\)|Source and destination overlap in \w+.*)\n((?:==\d+==    (?:at|by) .*\n)+)", stderr):
        kind = re.sub(r"\d+", "N", m.group(1)).replace(" ", "-")
        fn = None
        for fm in re.finditer(r"(?:at|by) 0x[0-9A-F]+: (.+?) \((\S+?):(\d+)\)", m.group(2)):
            if fm.group(2).startswith("st_"):
                fn = re.sub(r"\(.*$", "", fm.group(1))
                fn = re.sub(r"<.*>", "<>", fn)
                break
        if not fn:
            # no library frame: the harness is using something the library handed back (an uninitialised unit that the monitor
            # compares, a pointer it reads through).  The harness is silent under memcheck on the unchanged tree, so this is
            # attributed to the library's result, keyed by the harness function that tripped over it
            hm = re.search(r"(?:at|by) 0x[0-9A-F]+: ([A-Za-z_][\w:<>~ ,*&]*?)(?:\(|\s\()[^\n]*\((?:buffer|conv|sstream|vrt\w*|ref_\w+)\.(?:cpp|h):\d+\)", m.group(2))
            fn = "harness-use-of-a-library-result:" + (re.sub(r"<.*>", "<>", hm.group(1)).strip() if hm else "unknown")
        keys.setdefault("memcheck:%s@%s" % (kind, fn), m.group(0)[:3000])
    return keys


def tsan_keys(stderr):
    """dedupe ThreadSanitizer reports by their first library frames"""
    keys = {}
    blocks = re.split(r"={18}\n", stderr)
    for b in blocks:
        m = re.search(r"WARNING: ThreadSanitizer: ([\w -]+?) \(pid", b)
        if not m:
            continue
        kind = m.group(1).strip().replace(" ", "-")
        fns = []
        # one stack = a run of consecutive "#n ..." lines; take the first library frame of each
        for stack in re.findall(r"(?:^ +#\d+ .*\n)+", b, re.M):
            fn = _first_repo_frame(stack)
            if fn:
                fns.append(fn)
        fns = sorted(set(fns))[:2]
        key = "tsan:%s@%s" % (kind, "+".join(fns) if fns else "harness")
        keys.setdefault(key, b[:3000])
    return keys


# ---------------------------------------------------------------- known findings
def load_known():
    finds, fixed = [], []
    path = os.path.join(VERIF, "KNOWN_FINDINGS.txt")
    if not os.path.exists(path):
        return finds, fixed
    for line in open(path):
        line = line.strip()
        if not line or line.startswith("#"):
            continue
        m = re.match(r"finding:\s+property=(\S+)\s+key=(\S.*?)\s+::\s+(.*)$", line)
        if m:
            finds.append({"property": m.group(1), "key": m.group(2), "what": m.group(3)})
            continue
        m = re.match(r"fixed:\s+property=(\S+)\s+(\S+)\s+(.*)$", line)
        if m:
            fixed.append({"property": m.group(1), "commit": m.group(2), "what": m.group(3)})
    return finds, fixed


# ---------------------------------------------------------------- worker pool
def _read(path, limit=400000):
    try:
        with open(path, "rb") as f:
            data = f.read(limit)
        return data.decode("utf-8", "replace")
    except OSError:
        return ""


class PoolResult:
    def __init__(self):
        self.reports = []          # per-worker json (last successful)
        self.violations = {}       # key -> dict
        self.restarts = 0
        self.inconclusive = []     # reasons
        self.hang_rechecks = 0
        self.wall = 0.0
        self.notes = []            # things worth recording that do not affect the verdict


def run_pool(binp, build_name, prop, tier, seed, nworkers, rundir, dbits, extra_args=(), scale=None,
             wall_limit=3600, max_restarts=25, wrapper=(), dtable=None):
    """Runs nworkers worker processes to completion, restarting a worker after
    an abnormal death at the case after the one that killed it."""
    os.makedirs(rundir, exist_ok=True)
    res = PoolResult()
    t0 = time.time()
    dtable = dtable or os.path.join(rundir, "distinct.tab")
    if not os.path.exists(dtable):
        with open(dtable, "wb") as f:
            f.truncate((1 << dbits) * 8)
    env = dict(os.environ)
    env["ASAN_OPTIONS"] = ASAN_OPTIONS
    env["UBSAN_OPTIONS"] = UBSAN_OPTIONS
    env["TSAN_OPTIONS"] = TSAN_OPTIONS
    env["LSAN_OPTIONS"] = LSAN_OPTIONS
    env["LC_ALL"] = "C"

    def base_cmd(w):
        cmd = list(wrapper) + [binp, "--prop", prop, "--tier", tier, "--seed", str(seed), "--worker", str(w),
                               "--nworkers", str(nworkers), "--out", rundir, "--dtable", dtable,
                               "--dbits", str(dbits)] + list(extra_args)
        if scale is not None:
            cmd += ["--scale", str(scale)]
        return cmd

    def spawn(w, resume=None, attempt=0):
        cmd = base_cmd(w)
        if resume:
            cmd += ["--resume", resume]
        errp = os.path.join(rundir, "w%d.err.%d" % (w, attempt))
        errf = open(errp, "wb")
        p = subprocess.Popen(cmd, stdout=errf, stderr=errf, env=env, cwd=rundir)
        errf.close()
        return {"w": w, "p": p, "err": errp, "attempt": attempt, "resume": resume}

    def add_violation(key, phase, index, detail, stderr_tail="", count=1):
        v = res.violations.get(key)
        if v:
            v["count"] += count
            return
        res.violations[key] = {"key": key, "phase": phase, "index": index, "detail": detail,
                               "stderr": stderr_tail, "count": count, "build": build_name}

    def collect_viol_file(w):
        # violations recorded before a crash survive in w<k>.viol
        for line in _read(os.path.join(rundir, "w%d.viol" % w)).splitlines():
            try:
                v = json.loads(line)
            except ValueError:
                continue
            add_violation(v["key"], v["phase"], v["index"], v["detail"], count=0)

    live = [spawn(w) for w in range(nworkers)]
    partial_counters = []
    while live:
        time.sleep(0.05)
        if time.time() - t0 > wall_limit:
            for j in live:
                j["p"].kill()
            res.inconclusive.append("wall-clock watchdog (%ds) fired" % wall_limit)
            break
        still = []
        for j in live:
            rc = j["p"].poll()
            if rc is None:
                still.append(j)
                continue
            w = j["w"]
            stderr = _read(j["err"])
            if (rc == 0 or (rc == 66 and build_name == "tsan") or (rc == 99 and wrapper)) and os.path.exists(os.path.join(rundir, "w%d.json" % w)):
                try:
                    rep = json.load(open(os.path.join(rundir, "w%d.json" % w)))
                except ValueError as e:
                    raise HarnessFailure("unreadable worker report: %s" % e)
                if build_name == "tsan" and "ThreadSanitizer" in stderr:
                    for k, blk in tsan_keys(stderr).items():
                        add_violation(k, "threads", rep.get("worker", w), "ThreadSanitizer report", blk)
                if wrapper and rc == 99:
                    mk = memcheck_keys(stderr)
                    if not mk:
                        mk = {"memcheck:unclassified@harness": stderr[-3000:]}
                    for k, blk in mk.items():
                        if k.endswith("@harness"):
                            raise HarnessFailure("unclassified memcheck output:\n" + blk)
                        add_violation(k, "memcheck", rep.get("worker", w), "valgrind memcheck report (plain build)", blk)
                res.reports.append(rep)
                os.rename(os.path.join(rundir, "w%d.json" % w), os.path.join(rundir, "w%d.done.%d.json" % (w, j["attempt"])))
                continue
            if rc == 98:
                raise HarnessFailure("worker %d harness failure:\n%s" % (w, stderr[-3000:]))
            # abnormal death: find the case
            curtext = _read(os.path.join(rundir, "w%d.cur" % w)).split("\x00")[0]
            m = re.match(r"phase=(\S+) index=(\d+)", curtext)
            collect_viol_file(w)
            if not m:
                # died outside any case (static init, report writing, LSan at exit...)
                if rc == 23 or "LeakSanitizer" in stderr:
                    key = classify_crash(stderr, "", rc, "at-exit")
                    add_violation(key, "at-exit", 0, "leak reported at process exit", stderr[-4000:])
                    # the run itself completed; the report was written before exit
                    pj = os.path.join(rundir, "w%d.json" % w)
                    if os.path.exists(pj):
                        res.reports.append(json.load(open(pj)))
                        os.rename(pj, os.path.join(rundir, "w%d.done.%d.json" % (w, j["attempt"])))
                    continue
                raise HarnessFailure("worker %d died outside a case (rc=%d):\n%s" % (w, rc, stderr[-3000:]))
            phase, index = m.group(1), int(m.group(2))
            if rc == 23 and os.path.exists(os.path.join(rundir, "w%d.json" % w)):
                key = classify_crash(stderr, "", rc, "at-exit")
                add_violation(key, "at-exit", 0, "leak reported at process exit", stderr[-4000:])
                pj = os.path.join(rundir, "w%d.json" % w)
                res.reports.append(json.load(open(pj)))
                os.rename(pj, os.path.join(rundir, "w%d.done.%d.json" % (w, j["attempt"])))
                continue
            killed = rc == -signal.SIGKILL and "Sanitizer" not in stderr
            if rc == 97 or "HANG" in curtext.split("\n")[-2:] or killed:
                # CPU-time watchdog - or a SIGKILL nobody in this process tree sends (the kernel's out-of-memory killer on a
                # loaded machine): re-run that single case once, on its own; only a second death of the same kind is a verdict
                res.hang_rechecks += 1
                cmd = base_cmd(w) + ["--case", "%s:%d" % (phase, index)]
                sub = os.path.join(rundir, "hang%d" % res.hang_rechecks)
                os.makedirs(sub, exist_ok=True)
                cmd[cmd.index("--out") + 1] = sub
                try:
                    r2 = subprocess.run(cmd, capture_output=True, env=env, cwd=sub, timeout=600)
                    rc2 = r2.returncode
                except subprocess.TimeoutExpired:
                    rc2 = 97
                if killed and rc2 == -signal.SIGKILL:
                    add_violation("signal:SIGKILL@%s" % phase, phase, index,
                                  "case killed twice (second time running alone): memory exhaustion\n" + curtext[:3000])
                elif killed and rc2 not in (0, 1):
                    add_violation(classify_crash(r2.stderr.decode("utf-8", "replace") if rc2 != 97 else "", curtext, rc2, phase), phase, index, curtext[:3000])
                elif killed and rc2 == 0:
                    # the case ran to completion on its own with silent monitors: it has been executed; only the note remains
                    res.notes.append("worker killed by SIGKILL (memory pressure) at %s:%d; the case was re-run alone and held" % (phase, index))
                elif killed:
                    res.inconclusive.append("worker killed by SIGKILL at %s:%d (re-run alone ended with exit %d)" % (phase, index, rc2))
                elif rc2 == 97:
                    add_violation("hang:%s" % phase, phase, index,
                                  "case exceeded its CPU-time budget twice\n" + curtext[:3000])
                else:
                    res.inconclusive.append("single watchdog expiry at %s:%d (not reproduced)" % (phase, index))
            else:
                key = classify_crash(stderr, curtext, rc, phase)
                if key.startswith("harness-bug:"):
                    for jj in live:
                        if jj["p"].poll() is None:
                            jj["p"].kill()
                    raise HarnessFailure(key + "\n" + stderr[-3000:])
                add_violation(key, phase, index, curtext[:3000], stderr[-6000:])
            res.restarts += 1
            if res.restarts > max_restarts:
                res.inconclusive.append("more than %d worker restarts; remaining cases not run" % max_restarts)
                continue
            still.append(spawn(w, "%s:%d" % (phase, index), j["attempt"] + 1))
        live = still
    # merge in-process violations
    for rep in res.reports:
        for v in rep.get("violations", []):
            add_violation(v["key"], v["phase"], v["index"], v["detail"], count=v.get("count", 1))
    res.wall = time.time() - t0
    return res


# ---------------------------------------------------------------- libFuzzer runs (thorough tiers)
def run_fuzz(binp, prop, seed, rundir, spec, dtable, dbits, wall_limit=4 * 3600):
    """Runs `jobs` libFuzzer processes of a VRT_FUZZ build on a shared corpus for a fixed number of
    executions each (a count, not a time budget), then re-runs every artifact they left on its own to
    derive the violation key.  Returns a PoolResult."""
    res = PoolResult()
    t0 = time.time()
    os.makedirs(os.path.join(rundir, "corpus"), exist_ok=True)
    os.makedirs(os.path.join(rundir, "art"), exist_ok=True)
    for i, sd in enumerate(spec.get("seeds", [])):
        with open(os.path.join(rundir, "corpus", "seed%03d" % i), "wb") as f:
            f.write(sd)
    dictp = None
    if spec.get("dict"):
        dictp = os.path.join(rundir, "fuzz.dict")
        with open(dictp, "w") as f:
            for i, tok in enumerate(spec["dict"]):
                f.write('t%d="%s"\n' % (i, "".join("\\x%02x" % b for b in tok)))
    if not os.path.exists(dtable):
        with open(dtable, "wb") as f:
            f.truncate((1 << dbits) * 8)
    env = dict(os.environ)
    env.update({"ASAN_OPTIONS": ASAN_OPTIONS, "UBSAN_OPTIONS": UBSAN_OPTIONS, "LSAN_OPTIONS": LSAN_OPTIONS, "LC_ALL": "C",
                "VRT_PROP": prop, "VRT_OUT": rundir, "VRT_DTABLE": dtable, "VRT_DBITS": str(dbits), "VRT_SEED": str(seed)})
    jobs = spec.get("jobs", 16)
    procs = []
    for j in range(jobs):
        cmd = [binp, "-runs=%d" % spec["runs"], "-seed=%d" % (seed * 1000 + j + 1), "-max_len=%d" % spec.get("max_len", 64),
               "-timeout=1200", "-rss_limit_mb=8192", "-malloc_limit_mb=4096", "-print_final_stats=1", "-reload=1",
               "-artifact_prefix=" + os.path.join(rundir, "art", ""), "-len_control=%d" % spec.get("len_control", 100)]
        if dictp:
            cmd.append("-dict=" + dictp)
        cmd.append(os.path.join(rundir, "corpus"))
        logp = os.path.join(rundir, "fuzz-%d.log" % j)
        lf = open(logp, "wb")
        procs.append((subprocess.Popen(cmd, stdout=lf, stderr=lf, env=env, cwd=rundir), logp))
        lf.close()
    timed_out = False
    for p, _ in procs:
        left = wall_limit - (time.time() - t0)
        try:
            p.wait(timeout=max(left, 1))
        except subprocess.TimeoutExpired:
            timed_out = True
            p.kill()
            p.wait()
    if timed_out:
        res.inconclusive.append("wall-clock watchdog (%ds) fired during fuzzing" % wall_limit)
    stats = {"fuzz.executions": 0, "fuzz.coverage_edges_max": 0, "fuzz.features_max": 0, "fuzz.new_units_added": 0,
             "fuzz.jobs_completed": 0, "fuzz.jobs_stopped_by_a_report": 0}
    for p, logp in procs:
        log = _read(logp, 4000000)
        m = re.search(r"stat::number_of_executed_units:\s+(\d+)", log)
        if m:
            stats["fuzz.executions"] += int(m.group(1))
        m = re.search(r"stat::new_units_added:\s+(\d+)", log)
        if m:
            stats["fuzz.new_units_added"] += int(m.group(1))
        for m in re.finditer(r"cov: (\d+) ft: (\d+)", log):
            stats["fuzz.coverage_edges_max"] = max(stats["fuzz.coverage_edges_max"], int(m.group(1)))
            stats["fuzz.features_max"] = max(stats["fuzz.features_max"], int(m.group(2)))
        if p.returncode == 0:
            stats["fuzz.jobs_completed"] += 1
        elif not timed_out:
            stats["fuzz.jobs_stopped_by_a_report"] += 1
            if "VRT-VIOLATION" not in log and "ERROR: " not in log and "runtime error" not in log and "VRT-HANG" not in log and "ASSERT" not in log \
                    and not os.listdir(os.path.join(rundir, "art")):
                raise HarnessFailure("fuzz job died without a report (rc=%d):\n%s" % (p.returncode, log[-3000:]))
    stats["fuzz.corpus_units"] = len(os.listdir(os.path.join(rundir, "corpus")))
    # ---- triage: every artifact on its own
    arts = sorted(os.listdir(os.path.join(rundir, "art")))
    stats["fuzz.artifacts"] = len(arts)
    for n, a in enumerate(arts[:200]):
        ap = os.path.join(rundir, "art", a)
        data = open(ap, "rb").read()
        sub = os.path.join(rundir, "triage%d" % n)
        os.makedirs(sub, exist_ok=True)
        env2 = dict(env)
        env2["VRT_OUT"] = sub
        env2["VRT_VERBOSE"] = "1"
        try:
            r = subprocess.run([binp, "-timeout=1200", "-rss_limit_mb=8192", "-malloc_limit_mb=4096", ap], capture_output=True, env=env2, cwd=sub, timeout=900)
            rc, err = r.returncode, (r.stdout + r.stderr).decode("utf-8", "replace")
        except subprocess.TimeoutExpired:
            rc, err = -9, "VRT-HANG (wall clock, triage)"
        cur = ""
        for fn in os.listdir(sub):
            if fn.endswith(".cur"):
                cur = _read(os.path.join(sub, fn)).split("\x00")[0]
        detail = "libFuzzer artifact %s (%d bytes): %s\n%s" % (a, len(data), data[:256].hex(), cur[:2500])
        keys = re.findall(r"^VRT-VIOLATION key=(.*)$", err, re.M)
        if keys:
            dm = re.search(r"^VRT-DETAIL (.*)$", err, re.M)
            for k in keys:
                v = {"key": k, "phase": "fuzz", "index": 0, "detail": (dm.group(1) + "\n" if dm else "") + detail, "stderr": err[-3000:],
                     "count": 1, "build": "fuzz", "fuzz_input_hex": data.hex()}
                res.violations.setdefault(k, v)
        elif "VRT-HANG" in err:
            res.violations.setdefault("hang:fuzz", {"key": "hang:fuzz", "phase": "fuzz", "index": 0, "detail": "case exceeded its CPU-time budget in the fuzz run and again on its own\n" + detail,
                                                    "stderr": err[-3000:], "count": 1, "build": "fuzz", "fuzz_input_hex": data.hex()})
        elif rc == 0:
            res.inconclusive.append("libFuzzer artifact %s did not reproduce on its own" % a)
        else:
            k = classify_crash(err, cur, rc if rc < 0 else -signal.SIGABRT, "fuzz")
            if k.startswith("harness-bug:"):
                raise HarnessFailure(k + "\n" + err[-3000:])
            res.violations.setdefault(k, {"key": k, "phase": "fuzz", "index": 0, "detail": detail, "stderr": err[-6000:], "count": 1,
                                          "build": "fuzz", "fuzz_input_hex": data.hex()})
    # ---- worker reports (written at exit by every fuzz process)
    for fn in sorted(os.listdir(rundir)):
        if re.match(r"w\d+\.json$", fn):
            try:
                rep = json.load(open(os.path.join(rundir, fn)))
            except ValueError:
                continue
            rep["violations"] = []          # derived from the artifacts above
            res.reports.append(rep)
    if res.reports:
        c = res.reports[0].setdefault("counters", {})
        for k, v in stats.items():
            c[k] = c.get(k, 0) + v
        res.reports[0].setdefault("requires", {})["fuzz.executions"] = spec["runs"] * jobs // 2
    elif not res.violations:
        raise HarnessFailure("no fuzz process wrote a report")
    res.wall = time.time() - t0
    return res


def merge_reports(reports):
    out = {"evaluations": 0, "distinct": 0, "saturated": False, "counters": {}, "requires": {},
           "phases": {}, "samples": {}, "notes": [], "asserts_seen": 0}
    for r in reports:
        out["evaluations"] += r.get("evaluations", 0)
        out["distinct"] += r.get("distinct", 0)
        out["saturated"] = out["saturated"] or r.get("distinct_saturated", False)
        out["asserts_seen"] += r.get("asserts_seen", 0)
        for k, v in r.get("counters", {}).items():
            out["counters"][k] = out["counters"].get(k, 0) + v
        for k, v in r.get("requires", {}).items():
            out["requires"][k] = max(out["requires"].get(k, 0), v)
        for k, v in r.get("phases", {}).items():
            out["phases"][k] = out["phases"].get(k, 0) + v
        for k, v in r.get("samples", {}).items():
            lst = out["samples"].setdefault(k, [])
            for s in v:
                if len(lst) < 2 and s not in lst:
                    lst.append(s)
        for n in r.get("notes", []):
            if n not in out["notes"]:
                out["notes"].append(n)
    return out
