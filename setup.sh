#!/bin/sh
# Run once after a fresh restore, offline.  Nothing to fetch: the checks build
# their harnesses themselves from /repo's current working tree (cached under
# /verif/.build).  Pre-building here only warms that cache.
set -e
cd "$(dirname "$0")"
mkdir -p .build evidence replays
python3 - <<'PY'
import concurrent.futures, sys
sys.path.insert(0, '.')
from vlib import core
from vlib.props import PROPS
jobs = set()
for pid, c in PROPS.items():
    for r in c["runs"]:
        jobs.add((c["harness"], r["build"], tuple(r.get("flags", ()))))
def b(j):
    try:
        core.build(*j)
        return None
    except core.HarnessFailure as e:
        return str(e)
with concurrent.futures.ThreadPoolExecutor(max_workers=12) as ex:
    errs = [e for e in ex.map(b, sorted(jobs)) if e]
for e in errs:
    print(e)
print("setup: %d harness builds ready, %d failed" % (len(jobs) - len(errs), len(errs)))
sys.exit(1 if errs else 0)
PY
