// C05 - ST::buffer<T> keeps size, content, terminator and exclusive ownership
// over any history.  A pool of buffers in exact-size heap blocks is driven
// through random operation sequences; after EVERY step EVERY live buffer is
// compared with its shadow std::basic_string<T> and its storage is classified
// through the allocation registry (in-object vs. one exclusive new[] block).
#include "vrt.h"
#include "vrt_alloc.h"
// Dynamic initialisation of namespace-scope objects runs in definition order: this object's constructor (defined further
// down) runs before any dynamically initialised object defined after it - so before the library's, should it have any, and
// before g_static_* below would be if their constexpr default constructor stopped being a constant expression.
struct EarlyInit { EarlyInit(); };
static EarlyInit g_early_init;
#include "vrt_st.h"
#include "gen_text.h"
#include "gen_scale.h"
#include <set>
#include <functional>
#include <type_traits>
#include <utility>
#include <sys/mman.h>

// default-constructed namespace-scope buffers are constant-initialised (constexpr buffer()): a value assigned to them during
// static initialisation is still theirs when main() starts
static ST::char_buffer g_static_char;
static ST::utf16_buffer g_static_u16;
static ST::utf32_buffer g_static_u32;
static ST::wchar_buffer g_static_wide;
static const char EARLY_TEXT[] = "assigned during static initialisation";
EarlyInit::EarlyInit()
{
    g_static_char = ST::char_buffer(EARLY_TEXT, sizeof(EARLY_TEXT) - 1);
    g_static_u16 = ST::utf16_buffer(u"early", 5);
    g_static_u32.allocate(40, U'e');
    g_static_wide = ST::wchar_buffer(L"assigned during static initialisation", 37);
}

using vrt::Rng;
using vrt::sfmt;
namespace va = vrt::alloc;

template <typename T> struct TN;
template <> struct TN<char> { static const char *n() { return "char"; } };
template <> struct TN<wchar_t> { static const char *n() { return "wchar_t"; } };
template <> struct TN<char16_t> { static const char *n() { return "char16_t"; } };
template <> struct TN<char32_t> { static const char *n() { return "char32_t"; } };

// ---- where the objects live.  ST::buffer<T> has alignment 8, but whatever malloc, operator new, a local variable or a
// std::vector element gives a program is 16-byte aligned; an object at an address 8 mod 16 exists only as a member behind an
// int, as std::pair<int, B>::second, inside a std::map node ...  Half of the stand-alone pool objects therefore live 8 bytes
// into a block of sizeof(B) + 8 bytes (the END of the object is still the end of the block, so a write past the object lands in
// the red zone; the 8 bytes in front are poisoned under ASan).  Some pools also keep their first slots inside one block, laid
// out the way the members of a struct / the elements of an array are: there a write that leaves one object lands in its
// neighbour, which ASan cannot see and the monitor can (it looks at every live object after every step).  A released
// stand-alone block is, one time in four, handed to the next object of the same kind (rt/vrt_st.h "address reuse").
template <typename Obj>
struct Places {
    enum { NONE = 0, RECORDS, ARRAY, PAIRS };
    struct Record { int id; Obj a; Obj b; };                 // (only its layout is used)
    static const size_t MEMBER = (sizeof(int) + alignof(Obj) - 1) / alignof(Obj) * alignof(Obj);      // offset of a member behind an int
    static_assert(sizeof(Record) == MEMBER + 2 * sizeof(Obj) && sizeof(std::pair<int, Obj>) == MEMBER + sizeof(Obj) && MEMBER % 8 == 0 && sizeof(Obj) % 8 == 0,
                  "layout of an object that is a member behind an int");
    static const size_t MAXFIXED = 4;
    int layout = NONE;
    char *block[2] = {nullptr, nullptr};
    size_t block_bytes[2] = {0, 0};
    char *fixed[MAXFIXED] = {nullptr, nullptr, nullptr, nullptr};       // slot k < nfixed lives here
    size_t nfixed = 0;
    char *canary[2] = {nullptr, nullptr};                               // the `int` members (and their padding)
    size_t ncanary = 0;

    static void poison(void *p, size_t n) { vrt::RecyclePool::poison(p, n); }
    static void unpoison(void *p, size_t n) { vrt::RecyclePool::unpoison(p, n); }
    static char *raw(size_t bytes)
    {
        void *p = malloc(bytes);
        if (!p) { fprintf(stderr, "vrt: out of memory\n"); _exit(98); }
        return static_cast<char *>(p);
    }
    Places() { }
    Places(const Places &) = delete;
    Places &operator=(const Places &) = delete;
    void init(int want)
    {
        layout = want;
        auto add_block = [&](size_t k, size_t bytes) { block[k] = raw(bytes); block_bytes[k] = bytes; memset(block[k], 0xC5, bytes); poison(block[k], bytes); };
        auto add_canary = [&](char *at) { unpoison(at, MEMBER); canary[ncanary++] = at; };
        switch (layout) {
        case RECORDS:         // two `struct { int id; Obj a; Obj b; }`, each in a block of its own: all four objects at 8 mod 16
            for (size_t k = 0; k < 2; ++k) {
                add_block(k, sizeof(Record));
                add_canary(block[k]);
                fixed[nfixed++] = block[k] + MEMBER;
                fixed[nfixed++] = block[k] + MEMBER + sizeof(Obj);
            }
            break;
        case ARRAY: {         // `Obj arr[3]`, in half of the pools behind an 8-byte header
            const size_t lead = (vrt::placement_here() && (vrt::placement_next() & 1)) ? 8 : 0;
            add_block(0, lead + 3 * sizeof(Obj));
            for (size_t k = 0; k < 3; ++k) fixed[nfixed++] = block[0] + lead + k * sizeof(Obj);
            break;
        }
        case PAIRS: {         // `std::pair<int, Obj> arr[2]`
            const size_t stride = MEMBER + sizeof(Obj);
            add_block(0, 2 * stride);
            for (size_t k = 0; k < 2; ++k) { add_canary(block[0] + k * stride); fixed[nfixed++] = block[0] + k * stride + MEMBER; }
            break;
        }
        default: layout = NONE; break;
        }
    }
    ~Places()
    {
        for (size_t k = 0; k < 2; ++k)
            if (block[k]) { unpoison(block[k], block_bytes[k]); free(block[k]); }
    }
    bool canaries_intact() const
    {
        for (size_t k = 0; k < ncanary; ++k)
            for (size_t b = 0; b < MEMBER; ++b)
                if (static_cast<unsigned char>(canary[k][b]) != 0xC5) return false;
        return true;
    }
    // a layout for a pool, from the per-case placement stream: half of the pools have stand-alone objects only
    static int draw_layout()
    {
        if (!vrt::placement_here() || !vrt::placement_shifts()) return NONE;
        switch ((vrt::placement_next() >> 5) & 7) {
        case 0: case 1: return RECORDS;
        case 2: return ARRAY;
        case 3: return PAIRS;
        default: return NONE;
        }
    }
    // memory for a stand-alone object: a block that ends where the object ends; the object starts at 0 or 8 mod 16
    struct Own { void *base = nullptr; size_t bytes = 0; };
    static void *obtain(Own &o, int lead_wanted)           // lead_wanted: 0 / 8, or -1 = from the placement stream
    {
        size_t lead = 0;
        if (lead_wanted >= 0) lead = static_cast<size_t>(lead_wanted);
        else if (vrt::placement_here() && vrt::placement_shifts() && (vrt::placement_next() & 1)) lead = 8;
        o.bytes = sizeof(Obj) + lead;
        o.base = vrt::recycle_pool().take(o.bytes);
        if (!o.base) o.base = raw(o.bytes);
        if (lead) poison(o.base, lead);
        return static_cast<char *>(o.base) + lead;
    }
    static void release(Own &o)
    {
        if (o.bytes > sizeof(Obj)) unpoison(o.base, o.bytes - sizeof(Obj));
        if (!vrt::recycle_pool().park(o.base, o.bytes)) free(o.base);
        o.base = nullptr;
        o.bytes = 0;
    }
    static void tally(const void *obj)
    {
        if (reinterpret_cast<uintptr_t>(obj) % 16 == 8) { static uint64_t &c = vrt::counter("placement.objects_at_8_mod_16"); ++c; }
        else { static uint64_t &c = vrt::counter("placement.objects_16_byte_aligned"); ++c; }
    }
};

template <typename T>
struct Pool {
    typedef ST::buffer<T> B;
    typedef std::basic_string<T> BS;
    static const size_t N = 8;
    // the object lives in a heap block that ends where the object ends (a write one element past the in-object array lands
    // in an ASan red zone), at an address 0 or 8 mod 16 - or next to its neighbours inside one block (Places above)
    struct Handle {
        B *p;
        B &operator*() const { return *p; }
        B *operator->() const { return p; }
        bool inside(const void *q) const
        {
            const char *c = static_cast<const char *>(q), *lo = reinterpret_cast<const char *>(p);
            return c >= lo && c < lo + sizeof(B);
        }
    };
    struct Slot {
        Handle *box = nullptr;
        Handle h{nullptr};
        BS shadow;
        bool moved_from = false;
        typename Places<B>::Own own;          // the block of a stand-alone object
        bool foreign = false;                 // the object lives in memory the case supplied (place_next)
    };
    Slot slots[N];
    // where the objects live: slots k < places.nfixed are neighbours inside one block, the others stand alone (half at 8 mod 16)
    Places<B> places;
    void *place_next = nullptr;               // scripted step: the next object is constructed exactly here (memory owned by the case)
    int lead_next = -1;                       // scripted step: the next stand-alone object starts 0 / 8 bytes into its block
    explicit Pool(int layout = -1) { places.init(layout >= 0 ? layout : Places<B>::draw_layout()); }
    std::string history;
    const char *tn = TN<T>::n();
    // a moved-from object may report any value, but not an absurd one: nothing bigger than the largest value this pool has ever
    // been given can come out of a move (100000 covers every length the short phases use; the scale phase raises it to the
    // largest length in play, because a move assignment may legitimately leave the target's former - big - value in the source)
    size_t sane_max = 100000;
    // scale phase: where the lengths come from (the operations and the monitor are the ones every phase uses)
    static const size_t NONE = static_cast<size_t>(-1);
    std::function<size_t(Rng &)> len_fn;      // replaces the size classes around the small-buffer limit
    size_t force_len = NONE;                  // scripted step: the next length asked for is exactly this
    int force_fill = -1;                      // scripted step: 0 zero fill, 1 non-zero fill, 2 an element of the buffer itself
    // the small-buffer limit, from the object layout (not hard-coded)
    static size_t limit() { return (sizeof(B) - sizeof(T *) - sizeof(size_t)) / sizeof(T); }

    ~Pool() { for (Slot &s : slots) destroy(s); }

    void fail(const char *what, size_t slot, const std::string &detail)
    {
        va::HarnessScope hs;
        vrt::violation(sfmt("C05:buffer<%s>:%s", tn, what), sfmt("slot %zu: %s | history: %s", slot, detail.c_str(), history.c_str()));
    }
    void destroy(Slot &s)
    {
        if (s.box) {
            B *obj = s.h.p;
            obj->~B();
            const size_t k = static_cast<size_t>(&s - slots);
            if (s.foreign) { Places<B>::poison(obj, sizeof(B)); s.foreign = false; }
            else if (k < places.nfixed) Places<B>::poison(obj, sizeof(B));         // (the place stays; nothing may touch it until the next object is built there)
            else Places<B>::release(s.own);
            s.h.p = nullptr;
            s.box = nullptr;
        }
        s.shadow.clear();
        s.moved_from = false;
    }
    template <typename... A>
    void construct(Slot &s, A &&...a)
    {
        const size_t k = static_cast<size_t>(&s - slots);
        void *mem;
        if (place_next) { mem = place_next; place_next = nullptr; s.foreign = true; Places<B>::unpoison(mem, sizeof(B)); }
        else if (k < places.nfixed) { mem = places.fixed[k]; Places<B>::unpoison(mem, sizeof(B)); }
        else mem = Places<B>::obtain(s.own, lead_next);
        lead_next = -1;
        Places<B>::tally(mem);
        {
            va::LibScope ls;
            s.h.p = new (mem) B(std::forward<A>(a)...);
        }
        s.box = &s.h;
    }

    // ---- the monitor: every live object, after every step
    void check_all(const char *after)
    {
        va::HarnessScope hs;
        size_t longs = 0;
        std::set<const void *> blocks;
        for (size_t i = 0; i < N; ++i) {
            Slot &s = slots[i];
            if (!s.box) continue;
            const B &b = **s.box;
            const size_t n = b.size();
            const T *d = b.data();
            if (s.moved_from) {
                // value unspecified but it must be a valid exclusive owner: adopt what it reports, then hold it to that
                if (n > sane_max) { fail("moved-from:absurd-size", i, sfmt("size=%zu after %s", n, after)); s.box = nullptr; continue; }
            } else if (n != s.shadow.size()) {
                fail("size-differs-from-model", i, sfmt("size()=%zu model=%zu after %s", n, s.shadow.size(), after));
                continue;
            }
            const bool inside = s.box->inside(d);
            if (n < limit()) {
                if (!inside || !s.box->inside(d + n))
                    fail(s.moved_from ? "moved-from:short-content-not-in-object" : "short-content-not-in-object", i,
                         sfmt("size=%zu < limit %zu but data() is outside the object's own footprint, after %s", n, limit(), after));
            } else {
                va::Block *blk = va::find(d);
                if (inside) {
                    // (nothing is read or released through this object any more: size() elements do not fit into the object)
                    fail(s.moved_from ? "moved-from:long-content-inside-object" : "long-content-inside-object", i, sfmt("size=%zu >= limit but data() is in-object, after %s", n, after));
                    s.box = nullptr;
                    continue;
                } else if (!blk) {
                    fail(s.moved_from ? "moved-from:data-not-a-live-block" : "data-not-a-live-block", i, sfmt("size=%zu: data() is not the start of a live heap block, after %s", n, after));
                    continue;       // do not read through a dangling pointer
                } else {
                    if (!blk->is_array || blk->size != (n + 1) * sizeof(T))
                        fail("heap-block-wrong-size", i, sfmt("size=%zu block bytes=%zu array=%d after %s", n, blk->size, blk->is_array, after));
                    if (!blocks.insert(d).second) fail("storage-shared-between-objects", i, sfmt("after %s", after));
                    ++longs;
                }
            }
            if (n < limit() && !inside) continue;          // unreadable without trusting a foreign pointer
            if (s.moved_from) {
                s.shadow.assign(d, n);
                s.moved_from = false;
                vrt::count("moved_from.adopted");
            } else if (n && memcmp(d, s.shadow.data(), n * sizeof(T)) != 0) {      // (sizes are equal here) every element, whatever n is
                size_t at = 0;
                while (at < n && d[at] == s.shadow[at]) ++at;
                const size_t lo = at > 8 ? at - 8 : 0, cnt = std::min<size_t>(n - lo, 24);
                fail("content-differs-from-model", i, sfmt("size=%zu first difference at element %zu: got[%zu..]=%s model[%zu..]=%s after %s", n, at, lo, vrt::hex(d + lo, cnt, sizeof(T), 40).c_str(), lo,
                                                           vrt::hex(s.shadow.data() + lo, cnt, sizeof(T), 40).c_str(), after));
            }
            if (d[n] != T()) fail("no-terminator", i, sfmt("size=%zu after %s", n, after));
        }
        if (!places.canaries_intact()) fail("neighbouring-member-overwritten", 0, sfmt("the int member in front of a buffer inside a struct / pair no longer holds its value, after %s", after));
        // conservation: every heap block the library holds belongs to exactly one long buffer
        if (va::reg().live_lib != longs)
            fail(va::reg().live_lib > longs ? "leaked-block" : "missing-block", 0, sfmt("library-owned live blocks=%zu, long buffers=%zu after %s", va::reg().live_lib, longs, after));
        va::check_pairing("buffer");
        vrt::evals();
    }

    BS random_content(Rng &r, size_t len)
    {
        BS s(len, T());
        if (len > 2048) {
            // big values: a random tile (same element distribution as below) repeated with a period that is no power of two, so that
            // a block copied to / from the wrong multiple of any block size does not land on equal elements, plus random elements at
            // both ends and around the middle
            static const size_t periods[] = {251, 509, 1021, 2039, 4093, 16381, 65521};
            size_t np = 0;
            while (np < sizeof(periods) / sizeof(periods[0]) && periods[np] < len) ++np;
            const size_t P = periods[r.below(np)];
            for (size_t i = 0; i < P; ++i) s[i] = static_cast<T>(r.chance(1, 10) ? 0 : 1 + r.below(sizeof(T) == 1 ? 126 : 0xD000));
            for (size_t pos = P; pos < len; pos += P) memcpy(&s[pos], &s[0], std::min(P, len - pos) * sizeof(T));
            const size_t marks[] = {0, 1, len / 2 - 1, len / 2, len - 2, len - 1};
            for (size_t m : marks) s[m] = static_cast<T>(1 + r.below(sizeof(T) == 1 ? 126 : 0xD000));
            return s;
        }
        for (size_t i = 0; i < len; ++i) s[i] = static_cast<T>(r.chance(1, 10) ? 0 : 1 + r.below(sizeof(T) == 1 ? 126 : 0xD000));
        return s;
    }
    size_t random_len(Rng &r)
    {
        if (force_len != NONE) { const size_t n = force_len; force_len = NONE; return n; }
        if (len_fn) return len_fn(r);
        return class_len(r);
    }
    size_t class_len(Rng &r)
    {
        const size_t L = limit();
        const size_t cls[] = {0, 1, L - 1, L, L + 1, 3 * L, 1000, 2, L - 2, L + 2, 2 * L};
        return r.chance(1, 5) ? r.below(3 * L) : cls[r.below(sizeof(cls) / sizeof(cls[0]))];
    }
    size_t pick_live(Rng &r)
    {
        for (int tries = 0; tries < 32; ++tries) { size_t i = r.below(N); if (slots[i].box) return i; }
        return N;
    }
    size_t pick_empty(Rng &r)
    {
        for (int tries = 0; tries < 32; ++tries) { size_t i = r.below(N); if (!slots[i].box) return i; }
        return N;
    }

    void step(Rng &r)
    {
        const unsigned op = static_cast<unsigned>(r.below(20));
        size_t i = pick_live(r), j = pick_live(r), e = pick_empty(r);
        do_op(r, op, i, j, e);
    }
    // one operation (numbered as in the switch) on live slots i, j / empty slot e (N = there is none), then the monitor
    enum { OP_PTR_CTOR = 0, OP_DEFAULT_CTOR = 2, OP_FILL_CTOR = 3, OP_COPY_CTOR = 4, OP_MOVE_CTOR = 5, OP_COPY_ASSIGN = 6, OP_MOVE_ASSIGN = 8, OP_ALLOCATE = 10, OP_ALLOCATE_FILL = 12,
           OP_CLEAR = 13, OP_DESTROY = 14, OP_ELEMENT_WRITE = 16, OP_READ = 17, OP_AT_BEYOND = 20 /* scripted only */ };
    T pick_fill(Rng &r)
    {
        T fill = r.chance(1, 5) ? T() : static_cast<T>(1 + r.below(100));        // a zero fill is a fill like any other
        if (force_fill == 0) fill = T();
        else if (force_fill == 1 && fill == T()) fill = static_cast<T>(7);
        return fill;
    }
    void do_op(Rng &r, unsigned op, size_t i, size_t j, size_t e)
    {
        char desc[160];
        desc[0] = 0;
        // (a scripted step names its slots: one that was given up after a violation is skipped like a missing one)
        if (i < N && !slots[i].box) i = N;
        if (j < N && !slots[j].box) j = N;
        if (e < N && slots[e].box) e = N;
        switch (op) {
        case 0: case 1:
            if (e < N) {
                BS c = random_content(r, random_len(r));
                vrt::Exact<T> src(c.data(), c.size());
                construct(slots[e], src.data(), c.size());
                snprintf(desc, sizeof(desc), "s%zu=B(ptr,%zu)", e, c.size());
                slots[e].shadow = std::move(c);
            }
            break;
        case 2:
            if (e < N) { construct(slots[e]); snprintf(desc, sizeof(desc), "s%zu=B()", e); }
            break;
        case 3:
            if (e < N) {
                size_t n = random_len(r);
                T fill = pick_fill(r);
                construct(slots[e], n, fill);
                slots[e].shadow.assign(n, fill);
                snprintf(desc, sizeof(desc), "s%zu=B(%zu,fill %u)", e, n, static_cast<unsigned>(fill));
            }
            break;
        case 4:
            if (e < N && j < N) {
                construct(slots[e], static_cast<const B &>(**slots[j].box));
                slots[e].shadow = slots[j].shadow;
                snprintf(desc, sizeof(desc), "s%zu=B(copy s%zu[%zu])", e, j, slots[j].shadow.size());
                vrt::count("op.copy_construct");
            }
            break;
        case 5:
            if (e < N && j < N) {
                construct(slots[e], std::move(**slots[j].box));
                slots[e].shadow = slots[j].shadow;
                slots[j].moved_from = true;
                snprintf(desc, sizeof(desc), "s%zu=B(move s%zu[%zu])", e, j, slots[e].shadow.size());
                vrt::count("op.move_construct");
            }
            break;
        case 6: case 7:
            if (i < N && j < N) {
                { va::LibScope ls; **slots[i].box = static_cast<const B &>(**slots[j].box); }
                snprintf(desc, sizeof(desc), "s%zu[%zu]=copy s%zu[%zu]", i, slots[i].shadow.size(), j, slots[j].shadow.size());
                if (i != j && slots[i].shadow.size() == slots[j].shadow.size() && slots[j].shadow.size() >= 4096) vrt::count("scale.copy_assign_of_the_size_already_held");
                slots[i].shadow = slots[j].shadow;
                vrt::count(i == j ? "op.self_copy_assign" : "op.copy_assign");
            }
            break;
        case 8: case 9:
            if (i < N && j < N) {
                snprintf(desc, sizeof(desc), "s%zu[%zu]=move s%zu[%zu]", i, slots[i].shadow.size(), j, slots[j].shadow.size());
                { va::LibScope ls; **slots[i].box = std::move(**slots[j].box); }
                if (i == j) { slots[i].moved_from = true; vrt::count("op.self_move_assign"); }
                else {
                    slots[i].shadow = slots[j].shadow;
                    slots[j].moved_from = true;
                    vrt::count("op.move_assign");
                }
            }
            break;
        case 10: case 11:
            if (i < N) {
                size_t n = random_len(r);
                { va::LibScope ls; (*slots[i].box)->allocate(n); }
                // allocate() leaves the elements for the caller to write
                BS c = random_content(r, n);
                T *d = (*slots[i].box)->data();
                for (size_t k = 0; k < n; ++k) d[k] = c[k];
                slots[i].shadow = std::move(c);
                snprintf(desc, sizeof(desc), "s%zu.allocate(%zu)+write", i, n);
                vrt::count("op.allocate");
            }
            break;
        case 12:
            if (i < N) {
                const size_t held = slots[i].shadow.size();
                size_t n = random_len(r);
                T fill = pick_fill(r);
                const char *how = fill == T() ? "zero fill" : "fill";
                if (n == held && n >= 4096) vrt::count("scale.allocate_fill_of_the_size_already_held");
                if (!slots[i].shadow.empty() && (force_fill == 2 || (force_fill < 0 && r.chance(1, 3)))) {
                    // the fill argument is an element of the very buffer being re-allocated (b.allocate(n, b[0]), b.back(), ...)
                    B &b = **slots[i].box;
                    const size_t at = r.chance(1, 2) ? 0 : slots[i].shadow.size() - 1;
                    fill = slots[i].shadow[at];
                    const unsigned form = static_cast<unsigned>(r.below(3));
                    {
                        va::LibScope ls;
                        switch (form) {
                        case 0: b.allocate(n, b[at]); break;
                        case 1: if (at == 0) b.allocate(n, b.front()); else b.allocate(n, b.back()); break;
                        default: b.allocate(n, *(b.begin() + at)); break;
                        }
                    }
                    how = "own element";
                    vrt::count("op.allocate_fill_from_own_element");
                } else { va::LibScope ls; (*slots[i].box)->allocate(n, fill); }
                slots[i].shadow.assign(n, fill);
                snprintf(desc, sizeof(desc), "s%zu.allocate(%zu,%s)", i, n, how);
            }
            break;
        case 13:
            if (i < N) {
                { va::LibScope ls; if (r.chance(1, 3)) **slots[i].box = ST::null_t(); else (*slots[i].box)->clear(); }
                slots[i].shadow.clear();
                snprintf(desc, sizeof(desc), "s%zu.clear()", i);
                vrt::count("op.clear");
            }
            break;
        case 14: case 15:
            if (i < N) {
                snprintf(desc, sizeof(desc), "destroy s%zu[%zu]", i, slots[i].shadow.size());
                destroy(slots[i]);
                vrt::count("op.destroy");
            }
            break;
        case 16:
            if (i < N && !slots[i].shadow.empty()) {
                // element writes through the public accessors
                B &b = **slots[i].box;
                size_t k = r.below(slots[i].shadow.size());
                T v = static_cast<T>(1 + r.below(90));
                switch (r.below(4)) {
                case 0: b[k] = v; break;
                case 1: b.at(k) = v; break;
                case 2: *(b.begin() + k) = v; break;
                default: k = slots[i].shadow.size() - 1; b.back() = v; break;
                }
                slots[i].shadow[k] = v;
                snprintf(desc, sizeof(desc), "s%zu[%zu]=elem", i, k);
            }
            break;
        case OP_AT_BEYOND:
            if (i < N) {
                // a call that fails: at() beyond the last element throws; nothing may have changed (the reference is not used if it does not)
                B &b = **slots[i].box;
                const size_t k = slots[i].shadow.size() + 1 + r.below(3);
                try { va::LibScope ls; (void)&b.at(k); } catch (const std::out_of_range &) { va::HarnessScope hs; vrt::count("op.failing_call_threw"); }
                snprintf(desc, sizeof(desc), "s%zu.at(%zu) beyond the end", i, k);
            }
            break;
        default:
            if (i < N && j < N) {
                // read-only use of any object (also of moved-from ones): nothing may change
                const B &a = **slots[i].box, &b = **slots[j].box;
                va::LibScope ls;
                volatile unsigned sink = static_cast<unsigned>(a.compare(b)) + (a == b) + (a < b) + static_cast<unsigned>(a.empty()) + static_cast<unsigned>(a.front()) + static_cast<unsigned>(a.back());
                (void)sink;
                {
                    // equality and order of two live objects (whatever their histories) are those of their values
                    va::HarnessScope hs;
                    const bool same = slots[i].shadow == slots[j].shadow;
                    if ((a == b) != same || (a != b) == same || (a.compare(b) == 0) != same) fail("equality-differs-from-model", i, "operator== / != / compare()==0 of two live objects");
                }
                BS s = a.to_std_string();
                { va::HarnessScope hs; if (s.size() != a.size()) fail("to_std_string-size", i, "to_std_string().size() != size()"); }
                {
                    // small accessors
                    va::HarnessScope hs;
                    static const T subst[2] = {T('?'), T()};
                    if (a.c_str(subst) != (a.empty() ? subst : a.data())) fail("c_str(substitute)", i, "");
                    auto v = a.view();
                    if (v.size() != a.size() || v.data() != a.data()) fail("view()", i, "");
                    if (a.size() >= 2) { auto w = a.view(1, a.size() - 2); if (w.size() != a.size() - 2 || w.data() != a.data() + 1) fail("view(start,length)", i, ""); auto x = a.view(1); if (x.size() != a.size() - 1) fail("view(start)", i, ""); }
                    if (B::strlen(a.data()) > a.size()) fail("strlen-beyond-size", i, "");
                    if (a.size() && (a.at(a.size() - 1) != a[a.size() - 1] || a.front() != a[0])) fail("at/front", i, "");
                    if (a.cbegin() != a.data() || a.cend() != a.data() + a.size()) fail("cbegin/cend", i, "");
                }
                size_t cnt = 0;
                for (auto it = a.begin(); it != a.end(); ++it) ++cnt;
                for (auto it = a.rbegin(); it != a.rend(); ++it) ++cnt;
                if (cnt != 2 * a.size()) { va::HarnessScope hs; fail("iterator-range", i, "begin..end does not span size() elements"); }
                snprintf(desc, sizeof(desc), "read s%zu,s%zu", i, j);
            }
            break;
        }
        force_len = NONE;
        force_fill = -1;
        if (desc[0]) {
            { va::HarnessScope hs; if (history.size() < 1500) { history += desc; history += "; "; } }
            vrt::cur_printf("%s\n", desc);
            check_all(desc);
            vrt::count("steps");
        }
    }
};

template <typename T>
static void histories()
{
    const char *tn = TN<T>::n();
    std::string pn = std::string("histories_") + tn;
    const size_t steps = vrt::thorough() ? 150 : 80;
    vrt::phase(pn.c_str(), vrt::tier_count(30000, 300000), [&](uint64_t idx, Rng &r) {
        {
            Pool<T> pool;
            for (size_t s = 0; s < steps; ++s) pool.step(r);
            vrt::distinct(vrt::fnv1a(pool.history.data(), pool.history.size(), vrt::fnv_str(tn)));
            if (vrt::want_sample(pn) && idx > 3) vrt::sample(pn, pool.history.substr(0, 500));
        }
        // quiescence: everything destroyed, nothing the library allocated may survive
        if (va::reg().live_lib != 0) {
            vrt::violation(sfmt("C05:buffer<%s>:leak-at-quiescence", tn), sfmt("%zu library-owned blocks alive after all buffers were destroyed", va::reg().live_lib));
            va::reg().live_lib = 0;
        }
        vrt::count(std::string("histories.") + tn);
    });

    // exhaustive two-object table
    std::string tname = std::string("pair_table_") + tn;
    vrt::phase(tname.c_str(), 1, [&](uint64_t, Rng &r) {
        const size_t L = Pool<T>::limit();
        const size_t classes[] = {0, 1, L - 1, L, L + 1, 3 * L, 1000};
        for (size_t tl : classes)
            for (size_t sl : classes)
                for (int op = 0; op < 4; ++op)
                    for (int order = 0; order < 2; ++order) {
                        Pool<T> pool;
                        auto mk = [&](size_t slot, size_t len) {
                            auto c = pool.random_content(r, len);
                            vrt::Exact<T> src(c.data(), c.size());
                            pool.construct(pool.slots[slot], src.data(), c.size());
                            pool.slots[slot].shadow = c;
                        };
                        mk(1, sl);
                        char desc[96];
                        snprintf(desc, sizeof(desc), "pair target=%zu source=%zu op=%d order=%d", tl, sl, op, order);
                        pool.history = desc;
                        vrt::cur_rewind();
                        vrt::cur_printf("%s\n", desc);
                        switch (op) {
                        case 0: mk(0, tl); { va::LibScope ls; **pool.slots[0].box = static_cast<const ST::buffer<T> &>(**pool.slots[1].box); } pool.slots[0].shadow = pool.slots[1].shadow; break;
                        case 1: mk(0, tl); { va::LibScope ls; **pool.slots[0].box = std::move(**pool.slots[1].box); } pool.slots[0].shadow = pool.slots[1].shadow; pool.slots[1].moved_from = true; break;
                        case 2: pool.construct(pool.slots[0], static_cast<const ST::buffer<T> &>(**pool.slots[1].box)); pool.slots[0].shadow = pool.slots[1].shadow; break;
                        default: pool.construct(pool.slots[0], std::move(**pool.slots[1].box)); pool.slots[0].shadow = pool.slots[1].shadow; pool.slots[1].moved_from = true; break;
                        }
                        pool.check_all(desc);
                        // the moved-from / source object can still be assigned to and read
                        if (op == 1 || op == 3) {
                            auto c = pool.random_content(r, tl);
                            vrt::Exact<T> src(c.data(), c.size());
                            { va::LibScope ls; **pool.slots[1].box = ST::buffer<T>(src.data(), c.size()); }
                            pool.slots[1].shadow = c;
                            pool.check_all("assign to moved-from");
                        }
                        pool.destroy(pool.slots[order]);
                        pool.check_all("destroy first");
                        pool.destroy(pool.slots[1 - order]);
                        pool.check_all("destroy second");
                        vrt::count("pair_table.cases");
                    }
    });
}

// ---- scale: the same pool, the same operations and the same monitor (every element of every live buffer against its shadow, the
// ownership / registry classification, conservation) with element counts on and next to q * B for every block size B of
// scale::blocks() and q in 1..8 - a few KiB up to 8 Mi elements.  Each case: fill construction and allocate(n, fill) at exactly
// q * B (zero, non-zero and own-element fills), (pointer, length) construction, copies and moves between big buffers, assignment /
// allocate of exactly the size the target already holds followed by clear / re-allocate of OTHER big buffers, clear / re-allocate
// cycles while the other big buffers stay alive, random steps with lengths from {n, n +- a few, n / 2, 2 n, another boundary
// length, the small classes}, and a long run of consecutive assignments on one object.
template <typename T>
static void scale_phase()
{
    typedef Pool<T> P;
    const char *tn = TN<T>::n();
    const std::string pn = std::string("scale_") + tn;
    const std::vector<size_t> &BL = scale::blocks();
    const size_t pairs = BL.size() * 8;
    const size_t cap = vrt::opt().scale < 1.0 ? (static_cast<size_t>(128) << 10) : (static_cast<size_t>(8) << 20);
    // element-steps one case may spend (every step compares every live element); the memcheck pass runs a scaled-down workload
    const size_t budget = vrt::opt().scale < 1.0 ? (static_cast<size_t>(1) << 21) : (static_cast<size_t>(1) << 25);
    vrt::require(std::string("scale.cases.") + tn, 32);
    vrt::phase(pn.c_str(), vrt::tier_count(2 * pairs, 40 * pairs), [&](uint64_t idx, Rng &r) {
        // (the grid is walked from a different starting point for every element type, so that the biggest cases of the four types
        // do not all land on the same worker)
        const uint64_t cell = (idx + 37 * sizeof(T) + 11 * static_cast<uint64_t>(std::is_same<T, wchar_t>::value)) % pairs;
        const size_t B = BL[cell % BL.size()], q = 1 + (cell / BL.size()) % 8;
        const size_t n = q * B;
        if (n > cap) { vrt::count("scale.skipped_too_large"); return; }
        {
            P pool;
            const size_t N = P::N;
            const bool huge = n > (static_cast<size_t>(1) << 20);
            pool.sane_max = std::max<size_t>(100000, 2 * n + 64);
            const size_t n2 = scale::length(r, std::min<size_t>(n, 262144), 16);
            const size_t near = ((idx / pairs + cell) & 1) ? n + 1 : n - 1;       // (the two passes over the grid of the quick tier take one neighbour each)
            pool.len_fn = [&pool, n, n2, huge](Rng &rr) -> size_t {
                switch (rr.below(10)) {
                case 0: case 1: case 2: case 3: case 4: { const long v = static_cast<long>(n) + scale::nudge(rr); return v < 0 ? 0 : static_cast<size_t>(v); }
                case 5: return n2;
                case 6: return (huge || rr.chance(1, 2)) ? n / 2 : 2 * n;
                default: return pool.class_len(rr);
                }
            };
            auto fill_ctor = [&](size_t e, size_t len, int fill) { pool.force_len = len; pool.force_fill = fill; pool.do_op(r, P::OP_FILL_CTOR, N, N, e); };
            auto ptr_ctor = [&](size_t e, size_t len) { pool.force_len = len; pool.do_op(r, P::OP_PTR_CTOR, N, N, e); };
            auto allocate = [&](size_t i, size_t len) { pool.force_len = len; pool.do_op(r, P::OP_ALLOCATE, i, N, N); };
            auto allocate_fill = [&](size_t i, size_t len, int fill) { pool.force_len = len; pool.force_fill = fill; pool.do_op(r, P::OP_ALLOCATE_FILL, i, N, N); };
            auto op = [&](unsigned o, size_t i, size_t j, size_t e) { pool.do_op(r, o, i, j, e); };
            auto big_alive = [&]() { size_t c = 0; for (auto &sl : pool.slots) c += sl.box && sl.shadow.size() + 1 >= 65536; return c; };

            // -- scripted part: exactly q * B
            fill_ctor(0, n, 1);                                       // B(n, c)
            allocate_fill(0, n, r.chance(1, 2) ? 0 : 1);              // allocate(n, c) on a buffer that holds n elements already
            fill_ctor(1, near, r.chance(1, 3) ? 0 : 1);
            ptr_ctor(2, n);
            op(P::OP_COPY_ASSIGN, 0, 2, N);                           // a value of exactly the size the target holds ...
            op(P::OP_CLEAR, 1, N, N);                                 // ... then ANOTHER big buffer is cleared
            allocate(1, n);                                           // ... and re-allocated (elements written by the caller)
            op(P::OP_READ, 0, 2, N);
            allocate_fill(1, n, 2);                                   // allocate(n, own element), again the size it holds
            vrt::count("scale.fill_at_exact_multiple", 3);
            if (big_alive() >= 3) vrt::count("scale.three_or_more_buffers>=64Ki_alive");
            if (huge) op(P::OP_DESTROY, 2, N, N);                     // (tens of MiB each: at most three or four alive at a time)
            op(P::OP_COPY_CTOR, N, 1, 3);
            op(P::OP_MOVE_CTOR, N, 0, 4);
            op(P::OP_MOVE_ASSIGN, 0, 3, N);                           // into the moved-from object
            if (huge) op(P::OP_DESTROY, 1, N, N);
            op(P::OP_COPY_ASSIGN, 3, 4, N);                           // into the object that was moved from by assignment
            op(P::OP_ELEMENT_WRITE, 3, N, N);
            op(P::OP_MOVE_ASSIGN, 0, 0, N);                           // self move
            op(P::OP_COPY_ASSIGN, 4, 4, N);                           // self copy
            op(P::OP_DESTROY, 3, N, N);
            if (huge) op(P::OP_DEFAULT_CTOR, N, N, 1);

            // -- clear / re-allocate cycles of one big buffer while the other big buffers are alive
            const size_t cycles = huge ? 2 : std::max<size_t>(2, std::min<size_t>(24, budget / (8 * n)));
            for (size_t c = 0; c < cycles; ++c) {
                const size_t v = (c & 1) ? 4 : 1;
                op(P::OP_CLEAR, v, N, N);
                if (r.chance(1, 2)) { pool.force_len = r.chance(2, 3) ? n : near; pool.do_op(r, P::OP_ALLOCATE, v, N, N); }
                else { pool.force_len = r.chance(2, 3) ? n : near; pool.do_op(r, P::OP_ALLOCATE_FILL, v, N, N); }
                vrt::count("scale.clear_reallocate_cycles");
            }

            // -- random steps, lengths from len_fn
            const size_t steps = huge ? 0 : std::min<size_t>(vrt::thorough() ? 150 : 80, budget / (8 * n));
            for (size_t k = 0; k < steps; ++k) pool.step(r);
            vrt::count("scale.random_steps", steps);

            // -- many consecutive assignments on one object (slot 0): sources of exactly its size, one element more / fewer, small
            for (size_t k = 0; k < N; ++k) if (pool.slots[k].box) op(P::OP_DESTROY, k, N, N);
            op(P::OP_DEFAULT_CTOR, N, N, 0);
            ptr_ctor(1, n);
            fill_ctor(2, n, -1);
            ptr_ctor(3, near);
            pool.force_len = pool.class_len(r);
            pool.do_op(r, P::OP_PTR_CTOR, N, N, 4);
            const size_t run = huge ? 4 : std::max<size_t>(6, std::min<size_t>(vrt::thorough() ? 600 : 300, budget / (5 * n)));
            for (size_t k = 0; k < run; ++k) {
                const unsigned w = static_cast<unsigned>(r.below(20));
                const size_t src = w < 8 ? 1 : w < 13 ? 2 : w < 16 ? 3 : 4;
                if (w == 19) allocate_fill(0, n, -1);
                else if (w == 18) op(P::OP_MOVE_ASSIGN, 0, 1 + r.below(4), N);
                else op(P::OP_COPY_ASSIGN, 0, src, N);
            }
            vrt::count("scale.consecutive_assignments_on_one_object", run);
            if (run >= 100) vrt::count("scale.runs_of_100_or_more_assignments");

            vrt::distinct(vrt::fnv1a(pool.history.data(), pool.history.size(), vrt::fnv_u64(idx, vrt::fnv_str(tn))));
            if (vrt::want_sample("scale") && n >= 65536)
                vrt::sample("scale", sfmt("buffer<%s>: n = %zu x %zu elements (neighbour %zu, second length %zu), %zu clear/re-allocate cycles, %zu random steps, %zu consecutive assignments on one object | %s",
                                          tn, q, B, near, n2, cycles, steps, run, pool.history.substr(0, 300).c_str()));
        }
        if (va::reg().live_lib != 0) {
            vrt::violation(sfmt("C05:buffer<%s>:leak-at-quiescence", tn), sfmt("%zu library-owned blocks alive after all buffers were destroyed (scale, n=%zu)", va::reg().live_lib, n));
            va::reg().live_lib = 0;
        }
        vrt::count(std::string("scale.cases.") + tn);
        vrt::count("scale.cases");
        if (n >= 65536) vrt::count("scale.elements>=64Ki");
        if (n >= (1u << 20)) vrt::count("scale.elements>=1Mi");
        if (n >= (4u << 20)) vrt::count("scale.elements>=4Mi");
    });
}

// ---- same_storage: within ONE case, 3..6 different values of IDENTICAL size that share their first and last 16 elements and differ
// in between, each brought to the same addresses before the library sees it: (a) the caller's array is one malloc'ed block
// (ending where the data ends, starting at every alignment 0..15) that is overwritten in place between the calls; (b) the buffer
// under test is destroyed and its successor of the same size built right away, with the releases parked so that the object and
// its heap block come back at the addresses of the dead ones (how often that worked is counted and required, nothing is asserted
// about it).  Every value then goes through the usual operations in an order that differs from value to value, with calls that
// fail (at() beyond the end) in between; the monitor is the one every phase uses.
template <typename T>
static void same_storage_phase()
{
    typedef Pool<T> P;
    typedef typename P::BS BS;
    const char *tn = TN<T>::n();
    const std::string pn = std::string("same_storage_") + tn;
    const size_t L = P::limit();
    const size_t sizes[] = {20, 40, 64, 100, 256, 300, 1024, 1500, 4096, 5000, L, L - 1, 20000, 70000, 2 * L, 33};
    const size_t nsizes = sizeof(sizes) / sizeof(sizes[0]);
    vrt::phase(pn.c_str(), vrt::tier_count(16 * nsizes, 400 * nsizes), [&](uint64_t idx, Rng &r) {
        const size_t n = sizes[idx % nsizes];
        const size_t align = ((idx / nsizes) % 16) / sizeof(T) * sizeof(T);          // bytes between the start of the caller's block and the data
        {
            P pool;
            const size_t N = P::N;
            pool.sane_max = std::max<size_t>(100000, 2 * n + 64);
            pool.len_fn = [&pool, n](Rng &rr) -> size_t { return rr.chance(1, 2) ? n : pool.class_len(rr); };
            // the values: common head and tail, different middles
            const size_t K = 3 + r.below(4), edge = n >= 48 ? 16 : n / 3;
            std::vector<BS> values;
            {
                va::HarnessScope hs;
                const BS first = pool.random_content(r, n);
                for (size_t k = 0; k < K; ++k) {
                    BS v = pool.random_content(r, n);
                    for (size_t e = 0; e < edge; ++e) { v[e] = first[e]; v[n - 1 - e] = first[n - 1 - e]; }
                    if (n) v[n / 2] = static_cast<T>(0x21 + k);                       // (consecutive values do differ)
                    values.push_back(std::move(v));
                }
            }
            // (a) the caller's storage: one block for all values
            char *block = static_cast<char *>(malloc(align + n * sizeof(T) + (n ? 0 : 1)));
            if (!block) { fprintf(stderr, "vrt: out of memory\n"); _exit(98); }
            memset(block, 0x5A, align);
            if (align && align % 8 == 0) Places<typename P::B>::poison(block, align);
            T *const arr = reinterpret_cast<T *>(block + align);
            const size_t X = r.below(4), W = 4, Y = 5, Z = 6, V = 7;                   // X: under test (a neighbour inside a block in some pools); the others stand alone
            auto op = [&](unsigned o, size_t i, size_t j, size_t e) { pool.do_op(r, o, i, j, e); };
            auto drop = [&](size_t k) { if (pool.slots[k].box) op(P::OP_DESTROY, k, N, N); };
            for (size_t k = 0; k < K; ++k) {
                const BS &val = values[k];
                if (n) memcpy(arr, val.data(), n * sizeof(T));                         // in place: same address, same length, same first and last elements
                // (b) the successor of the object under test, at the same addresses
                const void *old_obj = nullptr, *old_data = nullptr;
                const unsigned route = static_cast<unsigned>((k + idx / nsizes) % 4);
                if (route == 3) {
                    // (the buffer the successor will be a copy of is built first, so that the successor's block is the next one asked for)
                    drop(W);
                    pool.construct(pool.slots[W], static_cast<const T *>(arr), n);
                    pool.slots[W].shadow = val;
                }
                if (pool.slots[X].box) {
                    old_obj = pool.slots[X].h.p;
                    old_data = (**pool.slots[X].box).data();
                    vrt::placement_force_parks() = 4;
                    op(P::OP_DESTROY, X, N, N);
                    pool.lead_next = static_cast<int>(reinterpret_cast<uintptr_t>(old_obj) % 16);
                }
                char how[96];
                switch (route) {
                case 0:
                    pool.construct(pool.slots[X], static_cast<const T *>(arr), n);
                    snprintf(how, sizeof(how), "s%zu=B(caller's array,%zu)", X, n);
                    break;
                case 1:
                    pool.construct(pool.slots[X]);
                    { va::LibScope ls; (**pool.slots[X].box).allocate(n); }
                    for (size_t e = 0; e < n; ++e) (**pool.slots[X].box).data()[e] = arr[e];
                    snprintf(how, sizeof(how), "s%zu=B(); allocate(%zu)+write", X, n);
                    break;
                case 2:
                    pool.construct(pool.slots[X], n, T('f'));
                    for (size_t e = 0; e < n; ++e) (**pool.slots[X].box)[e] = arr[e];
                    snprintf(how, sizeof(how), "s%zu=B(%zu,fill)+write", X, n);
                    break;
                default:
                    pool.construct(pool.slots[X], static_cast<const typename P::B &>(**pool.slots[W].box));
                    snprintf(how, sizeof(how), "s%zu=B(copy of s%zu=B(caller's array,%zu))", X, W, n);
                    break;
                }
                vrt::placement_force_parks() = 0;
                pool.lead_next = -1;
                pool.slots[X].shadow = val;
                { va::HarnessScope hs; if (pool.history.size() < 1500) { pool.history += how; pool.history += "; "; } }
                vrt::cur_printf("%s (value %zu of %zu)\n", how, k + 1, K);
                if (old_obj) {
                    vrt::count("same_storage.successors");
                    if (pool.slots[X].h.p == old_obj) vrt::count("same_storage.object_at_the_address_of_its_predecessor");
                    if (n >= L) {
                        vrt::count("same_storage.long_successors");
                        if ((**pool.slots[X].box).data() == old_data) vrt::count("same_storage.heap_block_at_the_address_of_its_predecessor");
                    }
                }
                pool.check_all(how);
                vrt::count("steps");
                vrt::count("same_storage.values");
                // the usual operations, in another order for every value
                unsigned order[10] = {0, 1, 2, 3, 4, 5, 6, 7, 8, 9};               // (the random step stays last: it may give the object under test another value)
                for (size_t a = 8; a > 0; --a) std::swap(order[a], order[r.below(a + 1)]);
                for (unsigned which : order) {
                    switch (which) {
                    case 0: drop(Y); op(P::OP_COPY_CTOR, N, X, Y); break;
                    case 1: if (!pool.slots[Z].box) { pool.force_len = n; op(P::OP_FILL_CTOR, N, N, Z); } op(P::OP_COPY_ASSIGN, Z, X, N); break;     // (Z mostly holds the previous value: same size)
                    case 2: op(P::OP_READ, X, pool.slots[Z].box ? Z : X, N); break;
                    case 3: op(P::OP_AT_BEYOND, X, N, N); break;
                    case 4: drop(V); op(P::OP_MOVE_CTOR, N, X, V); op(P::OP_MOVE_ASSIGN, X, V, N); break;                                       // out and back
                    case 5: op(P::OP_COPY_ASSIGN, X, X, N); break;
                    case 6: if (pool.slots[Z].box) { op(P::OP_MOVE_ASSIGN, Z, X, N); op(P::OP_MOVE_ASSIGN, X, Z, N); } break;                          // out and back by assignment
                    case 7: drop(W); pool.force_len = n; op(P::OP_PTR_CTOR, N, N, W); op(P::OP_COPY_ASSIGN, W, X, N); break;
                    case 8: op(P::OP_READ, X, X, N); op(P::OP_AT_BEYOND, pool.slots[Y].box ? Y : X, N, N); break;
                    default:
                        pool.step(r);
                        if (!pool.slots[X].box) { pool.force_len = n; op(P::OP_FILL_CTOR, N, N, X); }
                        break;
                    }
                }
            }
            if (align && align % 8 == 0) Places<typename P::B>::unpoison(block, align);
            free(block);
            vrt::distinct(vrt::fnv1a(pool.history.data(), pool.history.size(), vrt::fnv_u64(idx, vrt::fnv_str(tn))));
            if (vrt::want_sample("same_storage") && idx > 20)
                vrt::sample("same_storage", sfmt("buffer<%s>: %zu values of %zu elements, caller's array %zu bytes into its block | %s", tn, K, n, align, pool.history.substr(0, 400).c_str()));
        }
        if (va::reg().live_lib != 0) {
            vrt::violation(sfmt("C05:buffer<%s>:leak-at-quiescence", tn), sfmt("%zu library-owned blocks alive after all buffers were destroyed (same_storage, n=%zu)", va::reg().live_lib, n));
            va::reg().live_lib = 0;
        }
        vrt::count("same_storage.cases");
    });
}

// ---- soak: more than 70000 consecutive operations of one family on the buffers of ONE pool inside ONE case (one process, one
// thread), on sizes above the small-buffer limit (64..300 elements, the classes around the limit now and then), so that state a
// library might keep between calls - a counter that enables a path after N calls or wraps after 2^16, a memo of the last block -
// goes through its whole cycle.  Runs of 64..300 calls with the same arguments are followed directly by one that differs (another
// size class, the object itself, an object that was just moved from).  16 cases: four families x four element types.
template <typename T>
static void soak_case(uint64_t idx, Rng &r, unsigned family)
{
    typedef Pool<T> P;
    const char *tn = TN<T>::n();
    static const char *const fam[] = {"copy assignment", "move assignment / construction", "allocate / clear", "construction / destruction"};
    const size_t target = vrt::opt().scale < 1.0 ? 8000 : 72000;          // (the memcheck pass runs a short one)
    size_t done = 0, runs = 0;
    {
        P pool;
        const size_t N = P::N, L = P::limit();
        pool.len_fn = [&pool, L](Rng &rr) -> size_t {
            switch (rr.below(8)) {
            case 0: return pool.class_len(rr);
            case 1: return L + rr.below(3);
            default: return 64 + rr.below(237);
            }
        };
        auto op = [&](unsigned o, size_t i, size_t j, size_t e) { pool.do_op(r, o, i, j, e); ++done; };
        auto lenop = [&](unsigned o, size_t len, size_t i, size_t j, size_t e) { pool.force_len = len; op(o, i, j, e); };
        auto live = [&](size_t k) { if (!pool.slots[k].box) lenop(P::OP_PTR_CTOR, pool.len_fn(r), N, N, k); };
        auto odd_len = [&]() -> size_t { const size_t c[] = {0, 1, L - 1, L, L + 1, 2 * L, 1000}; return c[r.below(7)]; };
        for (size_t k = 0; k + 2 < N; ++k) live(k);
        while (done < target) {
            const size_t run = 64 + r.below(237);
            size_t i = r.below(N), j = (i + 1 + r.below(N - 1)) % N;
            const size_t len = 64 + r.below(237);
            if ((runs & 7) == 0) vrt::cur_rewind();                 // (the recorder keeps the last runs only)
            switch (family) {
            case 0: {
                live(i); live(j);
                lenop(P::OP_ALLOCATE, len, j, N, N);
                for (size_t k = 0; k < run; ++k) op(P::OP_COPY_ASSIGN, i, j, N);                    // after the first: a value of the size (and content) held
                switch (r.below(4)) {
                case 0: lenop(P::OP_ALLOCATE, odd_len(), j, N, N); op(P::OP_COPY_ASSIGN, i, j, N); break;       // another size class
                case 1: op(P::OP_COPY_ASSIGN, i, i, N); break;
                case 2: op(P::OP_ELEMENT_WRITE, j, N, N); op(P::OP_COPY_ASSIGN, i, j, N); break;                // same size, one element differs
                default: op(P::OP_MOVE_ASSIGN, j, i, N); op(P::OP_COPY_ASSIGN, i, j, N); break;                 // from / into a moved-from object
                }
                break;
            }
            case 1: {
                live(i); live(j);
                lenop(P::OP_ALLOCATE, len, j, N, N);
                for (size_t k = 0; k < run; ++k) { if (k & 1) op(P::OP_MOVE_ASSIGN, j, i, N); else op(P::OP_MOVE_ASSIGN, i, j, N); }     // the value goes back and forth
                switch (r.below(4)) {
                case 0: lenop(P::OP_ALLOCATE, odd_len(), j, N, N); op(P::OP_MOVE_ASSIGN, i, j, N); break;
                case 1: op(P::OP_MOVE_ASSIGN, i, i, N); break;
                case 2: { const size_t e = (i + 1 + r.below(N - 1)) % N; if (pool.slots[e].box) op(P::OP_DESTROY, e, N, N); op(P::OP_MOVE_CTOR, N, i, e); op(P::OP_MOVE_ASSIGN, i, e, N); break; }
                default: op(P::OP_MOVE_ASSIGN, i, j, N); op(P::OP_MOVE_ASSIGN, i, j, N); break;                 // twice from the same source: the second time it is a moved-from object
                }
                break;
            }
            case 2: {
                live(i);
                const bool fill = r.chance(1, 2);
                for (size_t k = 0; k < run; ++k) lenop(fill ? P::OP_ALLOCATE_FILL : P::OP_ALLOCATE, len, i, N, N);                  // the size it holds, again and again
                switch (r.below(5)) {
                case 0: lenop(P::OP_ALLOCATE, L + r.below(len - L), i, N, N); lenop(P::OP_ALLOCATE, len, i, N, N); break;           // smaller (still long), then back
                case 1: lenop(P::OP_ALLOCATE_FILL, odd_len(), i, N, N); lenop(P::OP_ALLOCATE, len + 1, i, N, N); break;
                case 2: op(P::OP_CLEAR, i, N, N); lenop(P::OP_ALLOCATE, len, i, N, N); break;
                case 3: live(j); op(P::OP_MOVE_ASSIGN, j, i, N); lenop(P::OP_ALLOCATE, len - 1, i, N, N); lenop(P::OP_ALLOCATE, len, j, N, N); break;
                default: pool.force_fill = 2; lenop(P::OP_ALLOCATE_FILL, len, i, N, N); break;
                }
                break;
            }
            default: {
                live(j);
                for (size_t k = 0; k < run; k += 2) {                                                                               // one object after the other at (often) the same place
                    if (pool.slots[i].box) op(P::OP_DESTROY, i, N, N);
                    lenop(P::OP_PTR_CTOR, len, N, N, i);
                }
                if (pool.slots[i].box) op(P::OP_DESTROY, i, N, N);
                switch (r.below(4)) {
                case 0: lenop(P::OP_FILL_CTOR, len, N, N, i); break;
                case 1: op(P::OP_COPY_CTOR, N, j, i); break;
                case 2: op(P::OP_MOVE_CTOR, N, j, i); break;
                default: lenop(P::OP_PTR_CTOR, odd_len(), N, N, i); break;
                }
                break;
            }
            }
            vrt::count("soak.runs_of_64_or_more_equal_calls_then_a_different_one");
            ++runs;
            for (size_t k = r.below(4); k > 0; --k) { pool.step(r); ++done; }                      // (something else in between)
        }
        vrt::distinct(vrt::fnv1a(pool.history.data(), pool.history.size(), vrt::fnv_u64(idx, vrt::fnv_str(tn))));
        if (vrt::want_sample("soak", 4))
            vrt::sample("soak", sfmt("buffer<%s>, %s: %zu consecutive operations on one pool in one case, %zu runs of 64..300 equal calls each followed by a different one", tn, fam[family], done, runs), 4);
    }
    if (va::reg().live_lib != 0) {
        vrt::violation(sfmt("C05:buffer<%s>:leak-at-quiescence", tn), sfmt("%zu library-owned blocks alive after all buffers were destroyed (soak)", va::reg().live_lib));
        va::reg().live_lib = 0;
    }
    vrt::count("soak.operations", done);
    if (done >= 70000) vrt::count("soak.cases_with_70000_or_more_consecutive_operations");
}

// ---- congruent: the address of the object in a chosen relation to the address of its own heap block.  For a long buffer whose
// block is at H the case computes a place A with  A + (offset of the in-object array) + d == H  modulo 2^16, 2^24, 2^32 bytes or
// 2^32 elements (d = 0 or a few elements below the small-buffer limit), maps memory there, and moves / copies the buffer into and
// out of an object at A; a second object is built in place at an address computed for a block that was just released (and is
// re-issued to it, best effort).  A distance between two pointers that is narrowed, or compared after truncation, gives the
// wrong answer only for such pairs - and no amount of random histories produces one.  The monitor is the usual one.
#ifndef MAP_FIXED_NOREPLACE
#define MAP_FIXED_NOREPLACE 0x100000
#endif
struct Mapping {
    char *p = nullptr;
    size_t len = 0;
    Mapping() { }
    Mapping(const Mapping &) = delete;
    Mapping &operator=(const Mapping &) = delete;
    void drop() { if (p) { vrt::RecyclePool::unpoison(p, len); munmap(p, len); p = nullptr; } }
    ~Mapping() { drop(); }
    // an address A (a multiple of 8) with  A == want  modulo 2^bits, in fresh memory; nullptr when there is none to be had
    char *at(Rng &r, uintptr_t want, unsigned bits, uintptr_t keep_off)
    {
        drop();
        const uintptr_t M = static_cast<uintptr_t>(1) << bits, low = want & (M - 1);
        if (bits <= 24) {
            // any mapping of 2^bits bytes (plus room for the object) holds every residue
            len = M + 2 * 4096;
            void *m = mmap(nullptr, len, PROT_READ | PROT_WRITE, MAP_PRIVATE | MAP_ANONYMOUS | MAP_NORESERVE, -1, 0);
            if (m == MAP_FAILED) { p = nullptr; return nullptr; }
            p = static_cast<char *>(m);
            const uintptr_t a = reinterpret_cast<uintptr_t>(p);
            uintptr_t c = (a & ~(M - 1)) + low;
            if (c < a) c += M;
            vrt::RecyclePool::poison(p, len);
            return reinterpret_cast<char *>(c);
        }
        static const uintptr_t bases[] = {0x200000000000u, 0x300000000000u, 0x400000000000u, 0x180000000000u, 0x280000000000u, 0x500000000000u, 0x600000000000u,
                                          0x001000000000u, 0x000800000000u, 0x000c00000000u, 0x002000000000u, 0x700000000000u};
        const uintptr_t page_low = low & ~static_cast<uintptr_t>(4095);
        len = 2 * 4096;
        for (int tries = 0; tries < 24; ++tries) {
            const uintptr_t base = bases[r.below(sizeof(bases) / sizeof(bases[0]))] & ~(M - 1);
            const uintptr_t addr = base + r.below(bits >= 36 ? 16 : 64) * M + page_low;
            if (addr == 0 || addr + len >= (static_cast<uintptr_t>(1) << 47)) continue;
            if ((addr >> 24) == (keep_off >> 24)) continue;                  // (not next to the heap block itself)
            void *m = mmap(reinterpret_cast<void *>(addr), len, PROT_READ | PROT_WRITE, MAP_PRIVATE | MAP_ANONYMOUS | MAP_FIXED_NOREPLACE, -1, 0);
            if (m == MAP_FAILED) continue;
            if (reinterpret_cast<uintptr_t>(m) != addr) { munmap(m, len); continue; }          // (a kernel / emulator that took the address as a hint)
            p = static_cast<char *>(m);
            vrt::RecyclePool::poison(p, len);
            return p + (low & 4095);
        }
        p = nullptr;
        return nullptr;
    }
};

template <typename T>
static void congruent_phase()
{
    typedef Pool<T> P;
    typedef typename P::B B;
    const char *tn = TN<T>::n();
    const std::string pn = std::string("congruent_") + tn;
    unsigned elem_bits = 0;
    while ((static_cast<size_t>(1) << elem_bits) < sizeof(T)) ++elem_bits;
    vrt::phase(pn.c_str(), vrt::tier_count(96, 4000), [&](uint64_t idx, Rng &r) {
        const size_t L = P::limit();
        // where the in-object array is, from an object (not from the declaration)
        size_t data_off;
        { B probe; data_off = static_cast<size_t>(reinterpret_cast<const char *>(probe.data()) - reinterpret_cast<const char *>(&probe)); }
        const unsigned choices[] = {16, 32, 32 + elem_bits, 24, 32 + elem_bits, sizeof(T) == 1 ? 33u : 32u};
        const unsigned bits = choices[idx % 6];
        const uintptr_t M = static_cast<uintptr_t>(1) << bits;
        const size_t lens[] = {L, L + 1, 2 * L, 40, 100, 1000, 5000};
        const size_t n = lens[r.below(7)];
        // the block starts d bytes behind the congruent point: 0, or a few elements (whole 8-byte steps: the object must stay aligned)
        const size_t d = r.chance(1, 2) ? 0 : 8 * r.below(L * sizeof(T) / 8);
        {
            Mapping map1, map2;
            P pool(Places<B>::NONE);
            const size_t N = P::N;
            pool.len_fn = [&pool, n](Rng &rr) -> size_t { return rr.chance(1, 2) ? n : pool.class_len(rr); };
            auto op = [&](unsigned o, size_t i, size_t j, size_t e) { pool.do_op(r, o, i, j, e); };
            auto lenop = [&](unsigned o, size_t len, size_t i, size_t j, size_t e) { pool.force_len = len; op(o, i, j, e); };
            auto drop = [&](size_t k) { if (pool.slots[k].box) op(P::OP_DESTROY, k, N, N); };
            auto related = [&](size_t k) -> bool {
                const B &b = **pool.slots[k].box;
                return b.size() >= L && ((reinterpret_cast<uintptr_t>(b.data()) - (reinterpret_cast<uintptr_t>(&b) + data_off + d)) & (M - 1)) == 0;
            };
            auto tally = [&](size_t k, const char *how) {
                if (!pool.slots[k].box || !related(k)) return;
                vrt::count("congruent.object_congruent_to_its_own_block");
                vrt::count(sfmt("congruent.modulo_2^%u", bits));
                vrt::count(std::string("congruent.reached_by.") + how);
                if (d) vrt::count("congruent.block_a_few_elements_behind_the_congruent_point");
            };
            const size_t S = 1;                 // the slot whose object lives at the computed place
            // 1. a long buffer at an ordinary place; its block is at H
            lenop(P::OP_PTR_CTOR, n, N, N, 0);
            if (!pool.slots[0].box) return;
            const uintptr_t H = reinterpret_cast<uintptr_t>((**pool.slots[0].box).data());
            char *A = map1.at(r, H - data_off - d, bits, H);
            if (!A) { vrt::count("congruent.skipped"); return; }
            // 2. moved into the place
            pool.place_next = A;
            op(P::OP_MOVE_CTOR, N, 0, S);
            tally(S, "move_construction");
            op(P::OP_READ, S, 0, N);
            // 3. out of it: copies first (the object keeps its block), then a move; back in by move assignment; out the other way
            lenop(P::OP_PTR_CTOR, r.chance(1, 2) ? n : pool.class_len(r), N, N, 3);
            const bool ctor_first = r.chance(1, 2);
            for (unsigned round = 0; round < 2; ++round) {
                if (r.chance(1, 2)) { drop(2); op(P::OP_COPY_CTOR, N, S, 2); }
                if (r.chance(1, 2)) op(P::OP_COPY_ASSIGN, 3, S, N);
                if (r.chance(1, 3)) op(P::OP_COPY_ASSIGN, S, S, N);
                if (r.chance(1, 3)) op(P::OP_MOVE_ASSIGN, S, S, N);
                if (r.chance(1, 3)) op(P::OP_ELEMENT_WRITE, S, N, N);
                size_t holder;
                if ((round == 0) == ctor_first) { drop(4); op(P::OP_MOVE_CTOR, N, S, 4); holder = 4; }
                else { op(P::OP_MOVE_ASSIGN, 3, S, N); holder = 3; }
                vrt::count("congruent.moved_out_of_the_place");
                op(P::OP_READ, holder, S, N);
                if (round == 0) {
                    op(P::OP_MOVE_ASSIGN, S, holder, N);                   // the block comes back to the object at A
                    tally(S, "move_assignment");
                }
            }
            // 4. the object at A, whatever it holds now, takes part in a few random steps
            for (unsigned k = 0; k < 8; ++k) pool.step(r);
            // 5. an object built in place at an address computed for a block that has just been released: the library's own
            // allocation for it gets that block back (rt/vrt_alloc.h re-issues a parked block to the next request of its size)
            drop(S);
            drop(5);
            if (!pool.slots[2].box || pool.slots[2].shadow.size() != n) { drop(2); lenop(P::OP_FILL_CTOR, n, N, N, 2); }
            op(P::OP_COPY_CTOR, N, 2, 5);
            if (!pool.slots[5].box) return;                       // (given up after a violation)
            const uintptr_t H2 = reinterpret_cast<uintptr_t>((**pool.slots[5].box).data());
            vrt::placement_force_parks() = 1;
            op(P::OP_DESTROY, 5, N, N);
            vrt::placement_force_parks() = 0;
            char *A2 = map2.at(r, H2 - data_off - d, bits, H2);
            if (!A2) { vrt::count("congruent.skipped"); return; }
            pool.place_next = A2;
            const char *how;
            switch (r.below(5)) {
            case 0: op(P::OP_COPY_CTOR, N, 2, S); how = "copy_construction"; break;
            case 1: lenop(P::OP_FILL_CTOR, n, N, N, S); how = "fill_construction"; break;
            case 2: op(P::OP_DEFAULT_CTOR, N, N, S); op(P::OP_COPY_ASSIGN, S, 2, N); how = "copy_assignment"; break;
            case 3: op(P::OP_DEFAULT_CTOR, N, N, S); lenop(P::OP_ALLOCATE, n, S, N, N); how = "allocate"; break;
            default: op(P::OP_DEFAULT_CTOR, N, N, S); pool.force_fill = 1; lenop(P::OP_ALLOCATE_FILL, n, S, N, N); how = "allocate_fill"; break;
            }
            vrt::count("congruent.objects_built_in_place");
            if (pool.slots[S].box && reinterpret_cast<uintptr_t>((**pool.slots[S].box).data()) == H2) vrt::count("congruent.objects_built_in_place_that_got_the_expected_block");
            tally(S, how);
            op(P::OP_READ, S, 2, N);
            if (r.chance(1, 2)) { drop(4); op(P::OP_MOVE_CTOR, N, S, 4); } else { pool.slots[3].box ? op(P::OP_MOVE_ASSIGN, 3, S, N) : op(P::OP_MOVE_CTOR, N, S, 3); }
            vrt::count("congruent.moved_out_of_the_place");
            for (unsigned k = 0; k < 4; ++k) pool.step(r);
            for (size_t k = 0; k < N; ++k) drop(k);
            vrt::distinct(vrt::fnv1a(pool.history.data(), pool.history.size(), vrt::fnv_u64(idx, vrt::fnv_str(tn))));
            if (vrt::want_sample("congruent") && bits >= 32)
                vrt::sample("congruent", sfmt("buffer<%s>: %zu elements, heap block at %#zx, object at %p: in-object array (offset %zu) + %zu == block modulo 2^%u; second object at %p for the block at %#zx | %s",
                                              tn, n, static_cast<size_t>(H), static_cast<void *>(A), data_off, d, bits, static_cast<void *>(A2), static_cast<size_t>(H2), pool.history.substr(0, 300).c_str()));
        }
        if (va::reg().live_lib != 0) {
            vrt::violation(sfmt("C05:buffer<%s>:leak-at-quiescence", tn), sfmt("%zu library-owned blocks alive after all buffers were destroyed (congruent)", va::reg().live_lib));
            va::reg().live_lib = 0;
        }
        vrt::count("congruent.cases");
    });
}

static void body()
{
    vrt::require("static_init.checks", 4);
    vrt::phase("static_initialisation", 1, [&](uint64_t, Rng &) {
        auto chk = [&](const char *what, bool ok) { vrt::evals(); vrt::count("static_init.checks"); if (!ok) vrt::violation(sfmt("C05:%s:value-assigned-during-static-initialisation-lost", what), "a namespace-scope default-constructed buffer no longer holds what an earlier static initialiser assigned to it"); };
        chk("buffer<char>", g_static_char.size() == sizeof(EARLY_TEXT) - 1 && memcmp(g_static_char.data(), EARLY_TEXT, sizeof(EARLY_TEXT)) == 0);
        chk("buffer<char16_t>", g_static_u16.size() == 5 && g_static_u16[4] == u'y' && g_static_u16.data()[5] == 0);
        chk("buffer<char32_t>", g_static_u32.size() == 40 && g_static_u32[39] == U'e' && g_static_u32.data()[40] == 0);
        chk("buffer<wchar_t>", g_static_wide.size() == 37 && g_static_wide[0] == L'a' && g_static_wide.data()[37] == 0);
        // the literal macros construct what the corresponding prefixed literal holds
        auto lit = [&](const char *what, bool ok) { vrt::evals(); if (!ok) vrt::violation(sfmt("C05:%s:literal-macro", what), "size or elements differ from the prefixed string literal"); };
#define LITCHK(text)                                                                                                                     \
        do {                                                                                                                             \
            { ST::char_buffer b = ST_CHAR_LITERAL(text); lit("ST_CHAR_LITERAL", b.size() == sizeof(text) - 1 && memcmp(b.data(), text, sizeof(text)) == 0); }            \
            { ST::wchar_buffer b = ST_WCHAR_LITERAL(text); lit("ST_WCHAR_LITERAL", b.size() == sizeof(L"" text) / sizeof(wchar_t) - 1 && memcmp(b.data(), L"" text, sizeof(L"" text)) == 0); } \
            { ST::utf16_buffer b = ST_UTF16_LITERAL(text); lit("ST_UTF16_LITERAL", b.size() == sizeof(u"" text) / 2 - 1 && memcmp(b.data(), u"" text, sizeof(u"" text)) == 0); } \
            { ST::utf32_buffer b = ST_UTF32_LITERAL(text); lit("ST_UTF32_LITERAL", b.size() == sizeof(U"" text) / 4 - 1 && memcmp(b.data(), U"" text, sizeof(U"" text)) == 0); } \
        } while (0)
        LITCHK("");
        LITCHK("abc");
        LITCHK("caf\u00e9");
        LITCHK("\u20ac\u20ac \U0001F600 and a tail long enough for the heap");
        LITCHK("fifteen chars..");
        LITCHK("sixteen chars...");
#undef LITCHK
    });

    vrt::require("steps", 100000);
    vrt::require("op.copy_assign", 1000);
    vrt::require("op.move_assign", 1000);
    vrt::require("op.self_copy_assign", 100);
    vrt::require("op.self_move_assign", 100);
    vrt::require("op.copy_construct", 1000);
    vrt::require("op.move_construct", 1000);
    vrt::require("op.allocate", 1000);
    vrt::require("op.destroy", 1000);
    vrt::require("moved_from.adopted", 1000);
    vrt::require("pair_table.cases", 4 * 392);
    vrt::note("limits read from the object layout: char " + std::to_string(Pool<char>::limit()) + ", wchar_t " + std::to_string(Pool<wchar_t>::limit()) +
              ", char16_t " + std::to_string(Pool<char16_t>::limit()) + ", char32_t " + std::to_string(Pool<char32_t>::limit()));
    histories<char>();
    histories<wchar_t>();
    histories<char16_t>();
    histories<char32_t>();

    // objects that are not 16-byte aligned, neighbours inside one block (all phases)
    vrt::require("placement.objects_at_8_mod_16", 100000);
    vrt::require("placement.objects_16_byte_aligned", 100000);
    vrt::note("half of the stand-alone pool objects live at an address 8 mod 16 (8 bytes into a block that ends where the object ends); a quarter of the pools keep their first 2..4 slots inside one block "
              "laid out as struct { int id; B a; B b; } (two of them), B arr[3] or std::pair<int, B> arr[2]; the monitor looks at every live object after every step");

    vrt::require("same_storage.cases", 256);
    vrt::require("same_storage.values", 1000);
    vrt::require("same_storage.object_at_the_address_of_its_predecessor", 300);
    vrt::require("same_storage.heap_block_at_the_address_of_its_predecessor", 200);
    vrt::require("op.failing_call_threw", 500);
    same_storage_phase<char>();
    same_storage_phase<wchar_t>();
    same_storage_phase<char16_t>();
    same_storage_phase<char32_t>();

    vrt::require("soak.cases_with_70000_or_more_consecutive_operations", 16);
    vrt::require("soak.runs_of_64_or_more_equal_calls_then_a_different_one", 1000);
    vrt::phase("soak", vrt::thorough() ? 64 : 16, [&](uint64_t idx, Rng &r) {
        const unsigned family = static_cast<unsigned>((idx / 4) % 4);
        switch (idx % 4) {
        case 0: soak_case<char>(idx, r, family); break;
        case 1: soak_case<char16_t>(idx, r, family); break;
        case 2: soak_case<char32_t>(idx, r, family); break;
        default: soak_case<wchar_t>(idx, r, family); break;
        }
    });

    vrt::require("congruent.cases", 64);
    vrt::require("congruent.object_congruent_to_its_own_block", 200);
    vrt::require("congruent.modulo_2^16", 20);
    vrt::require("congruent.modulo_2^32", 20);
    vrt::require("congruent.moved_out_of_the_place", 200);
    vrt::require("congruent.objects_built_in_place_that_got_the_expected_block", 40);
    congruent_phase<char>();
    congruent_phase<wchar_t>();
    congruent_phase<char16_t>();
    congruent_phase<char32_t>();

    vrt::require("scale.cases", 64);
    vrt::require("scale.fill_at_exact_multiple", 64);
    vrt::require("scale.copy_assign_of_the_size_already_held", 64);
    vrt::require("scale.allocate_fill_of_the_size_already_held", 64);
    vrt::require("scale.clear_reallocate_cycles", 64);
    vrt::require("scale.three_or_more_buffers>=64Ki_alive", 8);
    vrt::require("scale.consecutive_assignments_on_one_object", 1000);
    vrt::require("scale.runs_of_100_or_more_assignments", 16);
    vrt::require("scale.elements>=64Ki", 8);
    vrt::note("scale phases: element counts q x B (q = 1..8, B over the block sizes of rt/gen_scale.h: 16 .. 1 Mi incl. 255, 1000, 3 x 2^14, 65535) and their neighbours, up to 8 Mi elements, for every element type; "
              "every live element is compared with the shadow after every step");
    scale_phase<char>();
    scale_phase<wchar_t>();
    scale_phase<char16_t>();
    scale_phase<char32_t>();
}

VRT_MAIN(body)
