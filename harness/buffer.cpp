// C05 - ST::buffer<T> keeps size, content, terminator and exclusive ownership
// over any history.  A pool of buffers in exact-size heap blocks is driven
// through random operation sequences; after EVERY step EVERY live buffer is
// compared with its shadow std::basic_string<T> and its storage is classified
// through the allocation registry (in-object vs. one exclusive new[] block).
#include "vrt.h"
#include "vrt_alloc.h"
// Dynamic initialisation of namespace-scope objects runs in definition order: this object's constructor (defined further
// down) runs before any dynamically initialised object defined after it - so before the library's, should it have any, and
// before g_static_* below would be if their constexpr default constructor stopped being a constant expression.
struct EarlyInit { EarlyInit(); };
static EarlyInit g_early_init;
#include "vrt_st.h"
#include "gen_text.h"
#include "gen_scale.h"
#include <set>
#include <functional>
#include <type_traits>

// default-constructed namespace-scope buffers are constant-initialised (constexpr buffer()): a value assigned to them during
// static initialisation is still theirs when main() starts
static ST::char_buffer g_static_char;
static ST::utf16_buffer g_static_u16;
static ST::utf32_buffer g_static_u32;
static ST::wchar_buffer g_static_wide;
static const char EARLY_TEXT[] = "assigned during static initialisation";
EarlyInit::EarlyInit()
{
    g_static_char = ST::char_buffer(EARLY_TEXT, sizeof(EARLY_TEXT) - 1);
    g_static_u16 = ST::utf16_buffer(u"early", 5);
    g_static_u32.allocate(40, U'e');
    g_static_wide = ST::wchar_buffer(L"assigned during static initialisation", 37);
}

using vrt::Rng;
using vrt::sfmt;
namespace va = vrt::alloc;

template <typename T> struct TN;
template <> struct TN<char> { static const char *n() { return "char"; } };
template <> struct TN<wchar_t> { static const char *n() { return "wchar_t"; } };
template <> struct TN<char16_t> { static const char *n() { return "char16_t"; } };
template <> struct TN<char32_t> { static const char *n() { return "char32_t"; } };

template <typename T>
struct Pool {
    typedef ST::buffer<T> B;
    typedef std::basic_string<T> BS;
    static const size_t N = 8;
    // the object lives in a heap block of exactly sizeof(B) bytes: a write one element
    // past the in-object array lands in an ASan red zone
    struct Handle {
        B *p;
        B &operator*() const { return *p; }
        B *operator->() const { return p; }
        bool inside(const void *q) const
        {
            const char *c = static_cast<const char *>(q), *lo = reinterpret_cast<const char *>(p);
            return c >= lo && c < lo + sizeof(B);
        }
    };
    struct Slot {
        Handle *box = nullptr;
        Handle h{nullptr};
        BS shadow;
        bool moved_from = false;
    };
    Slot slots[N];
    std::string history;
    const char *tn = TN<T>::n();
    // a moved-from object may report any value, but not an absurd one: nothing bigger than the largest value this pool has ever
    // been given can come out of a move (100000 covers every length the short phases use; the scale phase raises it to the
    // largest length in play, because a move assignment may legitimately leave the target's former - big - value in the source)
    size_t sane_max = 100000;
    // scale phase: where the lengths come from (the operations and the monitor are the ones every phase uses)
    static const size_t NONE = static_cast<size_t>(-1);
    std::function<size_t(Rng &)> len_fn;      // replaces the size classes around the small-buffer limit
    size_t force_len = NONE;                  // scripted step: the next length asked for is exactly this
    int force_fill = -1;                      // scripted step: 0 zero fill, 1 non-zero fill, 2 an element of the buffer itself
    // the small-buffer limit, from the object layout (not hard-coded)
    static size_t limit() { return (sizeof(B) - sizeof(T *) - sizeof(size_t)) / sizeof(T); }

    ~Pool() { for (Slot &s : slots) destroy(s); }

    void fail(const char *what, size_t slot, const std::string &detail)
    {
        va::HarnessScope hs;
        vrt::violation(sfmt("C05:buffer<%s>:%s", tn, what), sfmt("slot %zu: %s | history: %s", slot, detail.c_str(), history.c_str()));
    }
    void destroy(Slot &s)
    {
        if (s.box) {
            B *obj = s.h.p;
            obj->~B();
            free(obj);
            s.h.p = nullptr;
            s.box = nullptr;
        }
        s.shadow.clear();
        s.moved_from = false;
    }
    template <typename... A>
    void construct(Slot &s, A &&...a)
    {
        void *mem = malloc(sizeof(B));
        {
            va::LibScope ls;
            s.h.p = new (mem) B(std::forward<A>(a)...);
        }
        s.box = &s.h;
    }

    // ---- the monitor: every live object, after every step
    void check_all(const char *after)
    {
        va::HarnessScope hs;
        size_t longs = 0;
        std::set<const void *> blocks;
        for (size_t i = 0; i < N; ++i) {
            Slot &s = slots[i];
            if (!s.box) continue;
            const B &b = **s.box;
            const size_t n = b.size();
            const T *d = b.data();
            if (s.moved_from) {
                // value unspecified but it must be a valid exclusive owner: adopt what it reports, then hold it to that
                if (n > sane_max) { fail("moved-from:absurd-size", i, sfmt("size=%zu after %s", n, after)); s.box = nullptr; continue; }
            } else if (n != s.shadow.size()) {
                fail("size-differs-from-model", i, sfmt("size()=%zu model=%zu after %s", n, s.shadow.size(), after));
                continue;
            }
            const bool inside = s.box->inside(d);
            if (n < limit()) {
                if (!inside || !s.box->inside(d + n))
                    fail(s.moved_from ? "moved-from:short-content-not-in-object" : "short-content-not-in-object", i,
                         sfmt("size=%zu < limit %zu but data() is outside the object's own footprint, after %s", n, limit(), after));
            } else {
                va::Block *blk = va::find(d);
                if (inside) fail("long-content-inside-object", i, sfmt("size=%zu >= limit but data() is in-object, after %s", n, after));
                else if (!blk) {
                    fail(s.moved_from ? "moved-from:data-not-a-live-block" : "data-not-a-live-block", i, sfmt("size=%zu: data() is not the start of a live heap block, after %s", n, after));
                    continue;       // do not read through a dangling pointer
                } else {
                    if (!blk->is_array || blk->size != (n + 1) * sizeof(T))
                        fail("heap-block-wrong-size", i, sfmt("size=%zu block bytes=%zu array=%d after %s", n, blk->size, blk->is_array, after));
                    if (!blocks.insert(d).second) fail("storage-shared-between-objects", i, sfmt("after %s", after));
                    ++longs;
                }
            }
            if (n < limit() && !inside) continue;          // unreadable without trusting a foreign pointer
            if (s.moved_from) {
                s.shadow.assign(d, n);
                s.moved_from = false;
                vrt::count("moved_from.adopted");
            } else if (n && memcmp(d, s.shadow.data(), n * sizeof(T)) != 0) {      // (sizes are equal here) every element, whatever n is
                size_t at = 0;
                while (at < n && d[at] == s.shadow[at]) ++at;
                const size_t lo = at > 8 ? at - 8 : 0, cnt = std::min<size_t>(n - lo, 24);
                fail("content-differs-from-model", i, sfmt("size=%zu first difference at element %zu: got[%zu..]=%s model[%zu..]=%s after %s", n, at, lo, vrt::hex(d + lo, cnt, sizeof(T), 40).c_str(), lo,
                                                           vrt::hex(s.shadow.data() + lo, cnt, sizeof(T), 40).c_str(), after));
            }
            if (d[n] != T()) fail("no-terminator", i, sfmt("size=%zu after %s", n, after));
        }
        // conservation: every heap block the library holds belongs to exactly one long buffer
        if (va::reg().live_lib != longs)
            fail(va::reg().live_lib > longs ? "leaked-block" : "missing-block", 0, sfmt("library-owned live blocks=%zu, long buffers=%zu after %s", va::reg().live_lib, longs, after));
        va::check_pairing("buffer");
        vrt::evals();
    }

    BS random_content(Rng &r, size_t len)
    {
        BS s(len, T());
        if (len > 2048) {
            // big values: a random tile (same element distribution as below) repeated with a period that is no power of two, so that
            // a block copied to / from the wrong multiple of any block size does not land on equal elements, plus random elements at
            // both ends and around the middle
            static const size_t periods[] = {251, 509, 1021, 2039, 4093, 16381, 65521};
            size_t np = 0;
            while (np < sizeof(periods) / sizeof(periods[0]) && periods[np] < len) ++np;
            const size_t P = periods[r.below(np)];
            for (size_t i = 0; i < P; ++i) s[i] = static_cast<T>(r.chance(1, 10) ? 0 : 1 + r.below(sizeof(T) == 1 ? 126 : 0xD000));
            for (size_t pos = P; pos < len; pos += P) memcpy(&s[pos], &s[0], std::min(P, len - pos) * sizeof(T));
            const size_t marks[] = {0, 1, len / 2 - 1, len / 2, len - 2, len - 1};
            for (size_t m : marks) s[m] = static_cast<T>(1 + r.below(sizeof(T) == 1 ? 126 : 0xD000));
            return s;
        }
        for (size_t i = 0; i < len; ++i) s[i] = static_cast<T>(r.chance(1, 10) ? 0 : 1 + r.below(sizeof(T) == 1 ? 126 : 0xD000));
        return s;
    }
    size_t random_len(Rng &r)
    {
        if (force_len != NONE) { const size_t n = force_len; force_len = NONE; return n; }
        if (len_fn) return len_fn(r);
        return class_len(r);
    }
    size_t class_len(Rng &r)
    {
        const size_t L = limit();
        const size_t cls[] = {0, 1, L - 1, L, L + 1, 3 * L, 1000, 2, L - 2, L + 2, 2 * L};
        return r.chance(1, 5) ? r.below(3 * L) : cls[r.below(sizeof(cls) / sizeof(cls[0]))];
    }
    size_t pick_live(Rng &r)
    {
        for (int tries = 0; tries < 32; ++tries) { size_t i = r.below(N); if (slots[i].box) return i; }
        return N;
    }
    size_t pick_empty(Rng &r)
    {
        for (int tries = 0; tries < 32; ++tries) { size_t i = r.below(N); if (!slots[i].box) return i; }
        return N;
    }

    void step(Rng &r)
    {
        const unsigned op = static_cast<unsigned>(r.below(20));
        size_t i = pick_live(r), j = pick_live(r), e = pick_empty(r);
        do_op(r, op, i, j, e);
    }
    // one operation (numbered as in the switch) on live slots i, j / empty slot e (N = there is none), then the monitor
    enum { OP_PTR_CTOR = 0, OP_DEFAULT_CTOR = 2, OP_FILL_CTOR = 3, OP_COPY_CTOR = 4, OP_MOVE_CTOR = 5, OP_COPY_ASSIGN = 6, OP_MOVE_ASSIGN = 8, OP_ALLOCATE = 10, OP_ALLOCATE_FILL = 12,
           OP_CLEAR = 13, OP_DESTROY = 14, OP_ELEMENT_WRITE = 16, OP_READ = 17 };
    T pick_fill(Rng &r)
    {
        T fill = r.chance(1, 5) ? T() : static_cast<T>(1 + r.below(100));        // a zero fill is a fill like any other
        if (force_fill == 0) fill = T();
        else if (force_fill == 1 && fill == T()) fill = static_cast<T>(7);
        return fill;
    }
    void do_op(Rng &r, unsigned op, size_t i, size_t j, size_t e)
    {
        char desc[160];
        desc[0] = 0;
        switch (op) {
        case 0: case 1:
            if (e < N) {
                BS c = random_content(r, random_len(r));
                vrt::Exact<T> src(c.data(), c.size());
                construct(slots[e], src.data(), c.size());
                snprintf(desc, sizeof(desc), "s%zu=B(ptr,%zu)", e, c.size());
                slots[e].shadow = std::move(c);
            }
            break;
        case 2:
            if (e < N) { construct(slots[e]); snprintf(desc, sizeof(desc), "s%zu=B()", e); }
            break;
        case 3:
            if (e < N) {
                size_t n = random_len(r);
                T fill = pick_fill(r);
                construct(slots[e], n, fill);
                slots[e].shadow.assign(n, fill);
                snprintf(desc, sizeof(desc), "s%zu=B(%zu,fill %u)", e, n, static_cast<unsigned>(fill));
            }
            break;
        case 4:
            if (e < N && j < N) {
                construct(slots[e], static_cast<const B &>(**slots[j].box));
                slots[e].shadow = slots[j].shadow;
                snprintf(desc, sizeof(desc), "s%zu=B(copy s%zu[%zu])", e, j, slots[j].shadow.size());
                vrt::count("op.copy_construct");
            }
            break;
        case 5:
            if (e < N && j < N) {
                construct(slots[e], std::move(**slots[j].box));
                slots[e].shadow = slots[j].shadow;
                slots[j].moved_from = true;
                snprintf(desc, sizeof(desc), "s%zu=B(move s%zu[%zu])", e, j, slots[e].shadow.size());
                vrt::count("op.move_construct");
            }
            break;
        case 6: case 7:
            if (i < N && j < N) {
                { va::LibScope ls; **slots[i].box = static_cast<const B &>(**slots[j].box); }
                snprintf(desc, sizeof(desc), "s%zu[%zu]=copy s%zu[%zu]", i, slots[i].shadow.size(), j, slots[j].shadow.size());
                if (i != j && slots[i].shadow.size() == slots[j].shadow.size() && slots[j].shadow.size() >= 4096) vrt::count("scale.copy_assign_of_the_size_already_held");
                slots[i].shadow = slots[j].shadow;
                vrt::count(i == j ? "op.self_copy_assign" : "op.copy_assign");
            }
            break;
        case 8: case 9:
            if (i < N && j < N) {
                snprintf(desc, sizeof(desc), "s%zu[%zu]=move s%zu[%zu]", i, slots[i].shadow.size(), j, slots[j].shadow.size());
                { va::LibScope ls; **slots[i].box = std::move(**slots[j].box); }
                if (i == j) { slots[i].moved_from = true; vrt::count("op.self_move_assign"); }
                else {
                    slots[i].shadow = slots[j].shadow;
                    slots[j].moved_from = true;
                    vrt::count("op.move_assign");
                }
            }
            break;
        case 10: case 11:
            if (i < N) {
                size_t n = random_len(r);
                { va::LibScope ls; (*slots[i].box)->allocate(n); }
                // allocate() leaves the elements for the caller to write
                BS c = random_content(r, n);
                T *d = (*slots[i].box)->data();
                for (size_t k = 0; k < n; ++k) d[k] = c[k];
                slots[i].shadow = std::move(c);
                snprintf(desc, sizeof(desc), "s%zu.allocate(%zu)+write", i, n);
                vrt::count("op.allocate");
            }
            break;
        case 12:
            if (i < N) {
                const size_t held = slots[i].shadow.size();
                size_t n = random_len(r);
                T fill = pick_fill(r);
                const char *how = fill == T() ? "zero fill" : "fill";
                if (n == held && n >= 4096) vrt::count("scale.allocate_fill_of_the_size_already_held");
                if (!slots[i].shadow.empty() && (force_fill == 2 || (force_fill < 0 && r.chance(1, 3)))) {
                    // the fill argument is an element of the very buffer being re-allocated (b.allocate(n, b[0]), b.back(), ...)
                    B &b = **slots[i].box;
                    const size_t at = r.chance(1, 2) ? 0 : slots[i].shadow.size() - 1;
                    fill = slots[i].shadow[at];
                    const unsigned form = static_cast<unsigned>(r.below(3));
                    {
                        va::LibScope ls;
                        switch (form) {
                        case 0: b.allocate(n, b[at]); break;
                        case 1: if (at == 0) b.allocate(n, b.front()); else b.allocate(n, b.back()); break;
                        default: b.allocate(n, *(b.begin() + at)); break;
                        }
                    }
                    how = "own element";
                    vrt::count("op.allocate_fill_from_own_element");
                } else { va::LibScope ls; (*slots[i].box)->allocate(n, fill); }
                slots[i].shadow.assign(n, fill);
                snprintf(desc, sizeof(desc), "s%zu.allocate(%zu,%s)", i, n, how);
            }
            break;
        case 13:
            if (i < N) {
                { va::LibScope ls; if (r.chance(1, 3)) **slots[i].box = ST::null_t(); else (*slots[i].box)->clear(); }
                slots[i].shadow.clear();
                snprintf(desc, sizeof(desc), "s%zu.clear()", i);
                vrt::count("op.clear");
            }
            break;
        case 14: case 15:
            if (i < N) {
                snprintf(desc, sizeof(desc), "destroy s%zu[%zu]", i, slots[i].shadow.size());
                destroy(slots[i]);
                vrt::count("op.destroy");
            }
            break;
        case 16:
            if (i < N && !slots[i].shadow.empty()) {
                // element writes through the public accessors
                B &b = **slots[i].box;
                size_t k = r.below(slots[i].shadow.size());
                T v = static_cast<T>(1 + r.below(90));
                switch (r.below(4)) {
                case 0: b[k] = v; break;
                case 1: b.at(k) = v; break;
                case 2: *(b.begin() + k) = v; break;
                default: k = slots[i].shadow.size() - 1; b.back() = v; break;
                }
                slots[i].shadow[k] = v;
                snprintf(desc, sizeof(desc), "s%zu[%zu]=elem", i, k);
            }
            break;
        default:
            if (i < N && j < N) {
                // read-only use of any object (also of moved-from ones): nothing may change
                const B &a = **slots[i].box, &b = **slots[j].box;
                va::LibScope ls;
                volatile unsigned sink = static_cast<unsigned>(a.compare(b)) + (a == b) + (a < b) + static_cast<unsigned>(a.empty()) + static_cast<unsigned>(a.front()) + static_cast<unsigned>(a.back());
                (void)sink;
                {
                    // equality and order of two live objects (whatever their histories) are those of their values
                    va::HarnessScope hs;
                    const bool same = slots[i].shadow == slots[j].shadow;
                    if ((a == b) != same || (a != b) == same || (a.compare(b) == 0) != same) fail("equality-differs-from-model", i, "operator== / != / compare()==0 of two live objects");
                }
                BS s = a.to_std_string();
                { va::HarnessScope hs; if (s.size() != a.size()) fail("to_std_string-size", i, "to_std_string().size() != size()"); }
                {
                    // small accessors
                    va::HarnessScope hs;
                    static const T subst[2] = {T('?'), T()};
                    if (a.c_str(subst) != (a.empty() ? subst : a.data())) fail("c_str(substitute)", i, "");
                    auto v = a.view();
                    if (v.size() != a.size() || v.data() != a.data()) fail("view()", i, "");
                    if (a.size() >= 2) { auto w = a.view(1, a.size() - 2); if (w.size() != a.size() - 2 || w.data() != a.data() + 1) fail("view(start,length)", i, ""); auto x = a.view(1); if (x.size() != a.size() - 1) fail("view(start)", i, ""); }
                    if (B::strlen(a.data()) > a.size()) fail("strlen-beyond-size", i, "");
                    if (a.size() && (a.at(a.size() - 1) != a[a.size() - 1] || a.front() != a[0])) fail("at/front", i, "");
                    if (a.cbegin() != a.data() || a.cend() != a.data() + a.size()) fail("cbegin/cend", i, "");
                }
                size_t cnt = 0;
                for (auto it = a.begin(); it != a.end(); ++it) ++cnt;
                for (auto it = a.rbegin(); it != a.rend(); ++it) ++cnt;
                if (cnt != 2 * a.size()) { va::HarnessScope hs; fail("iterator-range", i, "begin..end does not span size() elements"); }
                snprintf(desc, sizeof(desc), "read s%zu,s%zu", i, j);
            }
            break;
        }
        force_len = NONE;
        force_fill = -1;
        if (desc[0]) {
            { va::HarnessScope hs; if (history.size() < 1500) { history += desc; history += "; "; } }
            vrt::cur_printf("%s\n", desc);
            check_all(desc);
            vrt::count("steps");
        }
    }
};

template <typename T>
static void histories()
{
    const char *tn = TN<T>::n();
    std::string pn = std::string("histories_") + tn;
    const size_t steps = vrt::thorough() ? 150 : 80;
    vrt::phase(pn.c_str(), vrt::tier_count(30000, 300000), [&](uint64_t idx, Rng &r) {
        {
            Pool<T> pool;
            for (size_t s = 0; s < steps; ++s) pool.step(r);
            vrt::distinct(vrt::fnv1a(pool.history.data(), pool.history.size(), vrt::fnv_str(tn)));
            if (vrt::want_sample(pn) && idx > 3) vrt::sample(pn, pool.history.substr(0, 500));
        }
        // quiescence: everything destroyed, nothing the library allocated may survive
        if (va::reg().live_lib != 0) {
            vrt::violation(sfmt("C05:buffer<%s>:leak-at-quiescence", tn), sfmt("%zu library-owned blocks alive after all buffers were destroyed", va::reg().live_lib));
            va::reg().live_lib = 0;
        }
        vrt::count(std::string("histories.") + tn);
    });

    // exhaustive two-object table
    std::string tname = std::string("pair_table_") + tn;
    vrt::phase(tname.c_str(), 1, [&](uint64_t, Rng &r) {
        const size_t L = Pool<T>::limit();
        const size_t classes[] = {0, 1, L - 1, L, L + 1, 3 * L, 1000};
        for (size_t tl : classes)
            for (size_t sl : classes)
                for (int op = 0; op < 4; ++op)
                    for (int order = 0; order < 2; ++order) {
                        Pool<T> pool;
                        auto mk = [&](size_t slot, size_t len) {
                            auto c = pool.random_content(r, len);
                            vrt::Exact<T> src(c.data(), c.size());
                            pool.construct(pool.slots[slot], src.data(), c.size());
                            pool.slots[slot].shadow = c;
                        };
                        mk(1, sl);
                        char desc[96];
                        snprintf(desc, sizeof(desc), "pair target=%zu source=%zu op=%d order=%d", tl, sl, op, order);
                        pool.history = desc;
                        vrt::cur_rewind();
                        vrt::cur_printf("%s\n", desc);
                        switch (op) {
                        case 0: mk(0, tl); { va::LibScope ls; **pool.slots[0].box = static_cast<const ST::buffer<T> &>(**pool.slots[1].box); } pool.slots[0].shadow = pool.slots[1].shadow; break;
                        case 1: mk(0, tl); { va::LibScope ls; **pool.slots[0].box = std::move(**pool.slots[1].box); } pool.slots[0].shadow = pool.slots[1].shadow; pool.slots[1].moved_from = true; break;
                        case 2: pool.construct(pool.slots[0], static_cast<const ST::buffer<T> &>(**pool.slots[1].box)); pool.slots[0].shadow = pool.slots[1].shadow; break;
                        default: pool.construct(pool.slots[0], std::move(**pool.slots[1].box)); pool.slots[0].shadow = pool.slots[1].shadow; pool.slots[1].moved_from = true; break;
                        }
                        pool.check_all(desc);
                        // the moved-from / source object can still be assigned to and read
                        if (op == 1 || op == 3) {
                            auto c = pool.random_content(r, tl);
                            vrt::Exact<T> src(c.data(), c.size());
                            { va::LibScope ls; **pool.slots[1].box = ST::buffer<T>(src.data(), c.size()); }
                            pool.slots[1].shadow = c;
                            pool.check_all("assign to moved-from");
                        }
                        pool.destroy(pool.slots[order]);
                        pool.check_all("destroy first");
                        pool.destroy(pool.slots[1 - order]);
                        pool.check_all("destroy second");
                        vrt::count("pair_table.cases");
                    }
    });
}

// ---- scale: the same pool, the same operations and the same monitor (every element of every live buffer against its shadow, the
// ownership / registry classification, conservation) with element counts on and next to q * B for every block size B of
// scale::blocks() and q in 1..8 - a few KiB up to 8 Mi elements.  Each case: fill construction and allocate(n, fill) at exactly
// q * B (zero, non-zero and own-element fills), (pointer, length) construction, copies and moves between big buffers, assignment /
// allocate of exactly the size the target already holds followed by clear / re-allocate of OTHER big buffers, clear / re-allocate
// cycles while the other big buffers stay alive, random steps with lengths from {n, n +- a few, n / 2, 2 n, another boundary
// length, the small classes}, and a long run of consecutive assignments on one object.
template <typename T>
static void scale_phase()
{
    typedef Pool<T> P;
    const char *tn = TN<T>::n();
    const std::string pn = std::string("scale_") + tn;
    const std::vector<size_t> &BL = scale::blocks();
    const size_t pairs = BL.size() * 8;
    const size_t cap = vrt::opt().scale < 1.0 ? (static_cast<size_t>(128) << 10) : (static_cast<size_t>(8) << 20);
    // element-steps one case may spend (every step compares every live element); the memcheck pass runs a scaled-down workload
    const size_t budget = vrt::opt().scale < 1.0 ? (static_cast<size_t>(1) << 21) : (static_cast<size_t>(1) << 25);
    vrt::require(std::string("scale.cases.") + tn, 32);
    vrt::phase(pn.c_str(), vrt::tier_count(2 * pairs, 40 * pairs), [&](uint64_t idx, Rng &r) {
        // (the grid is walked from a different starting point for every element type, so that the biggest cases of the four types
        // do not all land on the same worker)
        const uint64_t cell = (idx + 37 * sizeof(T) + 11 * static_cast<uint64_t>(std::is_same<T, wchar_t>::value)) % pairs;
        const size_t B = BL[cell % BL.size()], q = 1 + (cell / BL.size()) % 8;
        const size_t n = q * B;
        if (n > cap) { vrt::count("scale.skipped_too_large"); return; }
        {
            P pool;
            const size_t N = P::N;
            const bool huge = n > (static_cast<size_t>(1) << 20);
            pool.sane_max = std::max<size_t>(100000, 2 * n + 64);
            const size_t n2 = scale::length(r, std::min<size_t>(n, 262144), 16);
            const size_t near = ((idx / pairs + cell) & 1) ? n + 1 : n - 1;       // (the two passes over the grid of the quick tier take one neighbour each)
            pool.len_fn = [&pool, n, n2, huge](Rng &rr) -> size_t {
                switch (rr.below(10)) {
                case 0: case 1: case 2: case 3: case 4: { const long v = static_cast<long>(n) + scale::nudge(rr); return v < 0 ? 0 : static_cast<size_t>(v); }
                case 5: return n2;
                case 6: return (huge || rr.chance(1, 2)) ? n / 2 : 2 * n;
                default: return pool.class_len(rr);
                }
            };
            auto fill_ctor = [&](size_t e, size_t len, int fill) { pool.force_len = len; pool.force_fill = fill; pool.do_op(r, P::OP_FILL_CTOR, N, N, e); };
            auto ptr_ctor = [&](size_t e, size_t len) { pool.force_len = len; pool.do_op(r, P::OP_PTR_CTOR, N, N, e); };
            auto allocate = [&](size_t i, size_t len) { pool.force_len = len; pool.do_op(r, P::OP_ALLOCATE, i, N, N); };
            auto allocate_fill = [&](size_t i, size_t len, int fill) { pool.force_len = len; pool.force_fill = fill; pool.do_op(r, P::OP_ALLOCATE_FILL, i, N, N); };
            auto op = [&](unsigned o, size_t i, size_t j, size_t e) { pool.do_op(r, o, i, j, e); };
            auto big_alive = [&]() { size_t c = 0; for (auto &sl : pool.slots) c += sl.box && sl.shadow.size() + 1 >= 65536; return c; };

            // -- scripted part: exactly q * B
            fill_ctor(0, n, 1);                                       // B(n, c)
            allocate_fill(0, n, r.chance(1, 2) ? 0 : 1);              // allocate(n, c) on a buffer that holds n elements already
            fill_ctor(1, near, r.chance(1, 3) ? 0 : 1);
            ptr_ctor(2, n);
            op(P::OP_COPY_ASSIGN, 0, 2, N);                           // a value of exactly the size the target holds ...
            op(P::OP_CLEAR, 1, N, N);                                 // ... then ANOTHER big buffer is cleared
            allocate(1, n);                                           // ... and re-allocated (elements written by the caller)
            op(P::OP_READ, 0, 2, N);
            allocate_fill(1, n, 2);                                   // allocate(n, own element), again the size it holds
            vrt::count("scale.fill_at_exact_multiple", 3);
            if (big_alive() >= 3) vrt::count("scale.three_or_more_buffers>=64Ki_alive");
            if (huge) op(P::OP_DESTROY, 2, N, N);                     // (tens of MiB each: at most three or four alive at a time)
            op(P::OP_COPY_CTOR, N, 1, 3);
            op(P::OP_MOVE_CTOR, N, 0, 4);
            op(P::OP_MOVE_ASSIGN, 0, 3, N);                           // into the moved-from object
            if (huge) op(P::OP_DESTROY, 1, N, N);
            op(P::OP_COPY_ASSIGN, 3, 4, N);                           // into the object that was moved from by assignment
            op(P::OP_ELEMENT_WRITE, 3, N, N);
            op(P::OP_MOVE_ASSIGN, 0, 0, N);                           // self move
            op(P::OP_COPY_ASSIGN, 4, 4, N);                           // self copy
            op(P::OP_DESTROY, 3, N, N);
            if (huge) op(P::OP_DEFAULT_CTOR, N, N, 1);

            // -- clear / re-allocate cycles of one big buffer while the other big buffers are alive
            const size_t cycles = huge ? 2 : std::max<size_t>(2, std::min<size_t>(24, budget / (8 * n)));
            for (size_t c = 0; c < cycles; ++c) {
                const size_t v = (c & 1) ? 4 : 1;
                op(P::OP_CLEAR, v, N, N);
                if (r.chance(1, 2)) { pool.force_len = r.chance(2, 3) ? n : near; pool.do_op(r, P::OP_ALLOCATE, v, N, N); }
                else { pool.force_len = r.chance(2, 3) ? n : near; pool.do_op(r, P::OP_ALLOCATE_FILL, v, N, N); }
                vrt::count("scale.clear_reallocate_cycles");
            }

            // -- random steps, lengths from len_fn
            const size_t steps = huge ? 0 : std::min<size_t>(vrt::thorough() ? 150 : 80, budget / (8 * n));
            for (size_t k = 0; k < steps; ++k) pool.step(r);
            vrt::count("scale.random_steps", steps);

            // -- many consecutive assignments on one object (slot 0): sources of exactly its size, one element more / fewer, small
            for (size_t k = 0; k < N; ++k) if (pool.slots[k].box) op(P::OP_DESTROY, k, N, N);
            op(P::OP_DEFAULT_CTOR, N, N, 0);
            ptr_ctor(1, n);
            fill_ctor(2, n, -1);
            ptr_ctor(3, near);
            pool.force_len = pool.class_len(r);
            pool.do_op(r, P::OP_PTR_CTOR, N, N, 4);
            const size_t run = huge ? 4 : std::max<size_t>(6, std::min<size_t>(vrt::thorough() ? 600 : 300, budget / (5 * n)));
            for (size_t k = 0; k < run; ++k) {
                const unsigned w = static_cast<unsigned>(r.below(20));
                const size_t src = w < 8 ? 1 : w < 13 ? 2 : w < 16 ? 3 : 4;
                if (w == 19) allocate_fill(0, n, -1);
                else if (w == 18) op(P::OP_MOVE_ASSIGN, 0, 1 + r.below(4), N);
                else op(P::OP_COPY_ASSIGN, 0, src, N);
            }
            vrt::count("scale.consecutive_assignments_on_one_object", run);
            if (run >= 100) vrt::count("scale.runs_of_100_or_more_assignments");

            vrt::distinct(vrt::fnv1a(pool.history.data(), pool.history.size(), vrt::fnv_u64(idx, vrt::fnv_str(tn))));
            if (vrt::want_sample("scale") && n >= 65536)
                vrt::sample("scale", sfmt("buffer<%s>: n = %zu x %zu elements (neighbour %zu, second length %zu), %zu clear/re-allocate cycles, %zu random steps, %zu consecutive assignments on one object | %s",
                                          tn, q, B, near, n2, cycles, steps, run, pool.history.substr(0, 300).c_str()));
        }
        if (va::reg().live_lib != 0) {
            vrt::violation(sfmt("C05:buffer<%s>:leak-at-quiescence", tn), sfmt("%zu library-owned blocks alive after all buffers were destroyed (scale, n=%zu)", va::reg().live_lib, n));
            va::reg().live_lib = 0;
        }
        vrt::count(std::string("scale.cases.") + tn);
        vrt::count("scale.cases");
        if (n >= 65536) vrt::count("scale.elements>=64Ki");
        if (n >= (1u << 20)) vrt::count("scale.elements>=1Mi");
        if (n >= (4u << 20)) vrt::count("scale.elements>=4Mi");
    });
}

static void body()
{
    vrt::require("static_init.checks", 4);
    vrt::phase("static_initialisation", 1, [&](uint64_t, Rng &) {
        auto chk = [&](const char *what, bool ok) { vrt::evals(); vrt::count("static_init.checks"); if (!ok) vrt::violation(sfmt("C05:%s:value-assigned-during-static-initialisation-lost", what), "a namespace-scope default-constructed buffer no longer holds what an earlier static initialiser assigned to it"); };
        chk("buffer<char>", g_static_char.size() == sizeof(EARLY_TEXT) - 1 && memcmp(g_static_char.data(), EARLY_TEXT, sizeof(EARLY_TEXT)) == 0);
        chk("buffer<char16_t>", g_static_u16.size() == 5 && g_static_u16[4] == u'y' && g_static_u16.data()[5] == 0);
        chk("buffer<char32_t>", g_static_u32.size() == 40 && g_static_u32[39] == U'e' && g_static_u32.data()[40] == 0);
        chk("buffer<wchar_t>", g_static_wide.size() == 37 && g_static_wide[0] == L'a' && g_static_wide.data()[37] == 0);
        // the literal macros construct what the corresponding prefixed literal holds
        auto lit = [&](const char *what, bool ok) { vrt::evals(); if (!ok) vrt::violation(sfmt("C05:%s:literal-macro", what), "size or elements differ from the prefixed string literal"); };
#define LITCHK(text)                                                                                                                     \
        do {                                                                                                                             \
            { ST::char_buffer b = ST_CHAR_LITERAL(text); lit("ST_CHAR_LITERAL", b.size() == sizeof(text) - 1 && memcmp(b.data(), text, sizeof(text)) == 0); }            \
            { ST::wchar_buffer b = ST_WCHAR_LITERAL(text); lit("ST_WCHAR_LITERAL", b.size() == sizeof(L"" text) / sizeof(wchar_t) - 1 && memcmp(b.data(), L"" text, sizeof(L"" text)) == 0); } \
            { ST::utf16_buffer b = ST_UTF16_LITERAL(text); lit("ST_UTF16_LITERAL", b.size() == sizeof(u"" text) / 2 - 1 && memcmp(b.data(), u"" text, sizeof(u"" text)) == 0); } \
            { ST::utf32_buffer b = ST_UTF32_LITERAL(text); lit("ST_UTF32_LITERAL", b.size() == sizeof(U"" text) / 4 - 1 && memcmp(b.data(), U"" text, sizeof(U"" text)) == 0); } \
        } while (0)
        LITCHK("");
        LITCHK("abc");
        LITCHK("caf\u00e9");
        LITCHK("\u20ac\u20ac \U0001F600 and a tail long enough for the heap");
        LITCHK("fifteen chars..");
        LITCHK("sixteen chars...");
#undef LITCHK
    });

    vrt::require("steps", 100000);
    vrt::require("op.copy_assign", 1000);
    vrt::require("op.move_assign", 1000);
    vrt::require("op.self_copy_assign", 100);
    vrt::require("op.self_move_assign", 100);
    vrt::require("op.copy_construct", 1000);
    vrt::require("op.move_construct", 1000);
    vrt::require("op.allocate", 1000);
    vrt::require("op.destroy", 1000);
    vrt::require("moved_from.adopted", 1000);
    vrt::require("pair_table.cases", 4 * 392);
    vrt::note("limits read from the object layout: char " + std::to_string(Pool<char>::limit()) + ", wchar_t " + std::to_string(Pool<wchar_t>::limit()) +
              ", char16_t " + std::to_string(Pool<char16_t>::limit()) + ", char32_t " + std::to_string(Pool<char32_t>::limit()));
    histories<char>();
    histories<wchar_t>();
    histories<char16_t>();
    histories<char32_t>();

    vrt::require("scale.cases", 64);
    vrt::require("scale.fill_at_exact_multiple", 64);
    vrt::require("scale.copy_assign_of_the_size_already_held", 64);
    vrt::require("scale.allocate_fill_of_the_size_already_held", 64);
    vrt::require("scale.clear_reallocate_cycles", 64);
    vrt::require("scale.three_or_more_buffers>=64Ki_alive", 8);
    vrt::require("scale.consecutive_assignments_on_one_object", 1000);
    vrt::require("scale.runs_of_100_or_more_assignments", 16);
    vrt::require("scale.elements>=64Ki", 8);
    vrt::note("scale phases: element counts q x B (q = 1..8, B over the block sizes of rt/gen_scale.h: 16 .. 1 Mi incl. 255, 1000, 3 x 2^14, 65535) and their neighbours, up to 8 Mi elements, for every element type; "
              "every live element is compared with the shadow after every step");
    scale_phase<char>();
    scale_phase<wchar_t>();
    scale_phase<char16_t>();
    scale_phase<char32_t>();
}

VRT_MAIN(body)
