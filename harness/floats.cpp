// C13 - floating-point text against the C library (snprintf / strtod / strtof
// on this platform), for ST::format, from_float/from_double, string_stream and
// to_float/to_double; ASan+UBSan and the assertion observer watch the scratch
// buffers ("Format buffer too small" class of aborts).
#include "vrt.h"
#include "vrt_alloc.h"
#include "vrt_st.h"
#include "gen_text.h"
#include <cmath>
#include <cfloat>
#include <cerrno>

using vrt::Rng;
using vrt::sfmt;
typedef std::string S;

static std::string show(const S &s) { return vrt::hex(s.data(), s.size()); }

static S c_render(const char *fmt, double v)
{
    char small[128];
    int n = snprintf(small, sizeof(small), fmt, v);
    if (n < 0) return S("\x01<snprintf failed>");
    if (static_cast<size_t>(n) < sizeof(small)) return S(small, n);
    S big(static_cast<size_t>(n) + 1, '\0');
    snprintf(&big[0], big.size(), fmt, v);
    big.resize(n);
    return big;
}

static std::string dbl_bits(double v)
{
    uint64_t b;
    memcpy(&b, &v, 8);
    return sfmt("%.17g(0x%016llx)", v, static_cast<unsigned long long>(b));
}

struct Spec {
    char cls;        // 0, 'f', 'e', 'E'
    int precision;   // -1 none
    bool plus;
    int width;       // 0 none
    char align;      // 0, '<', '>'
    int padkind;     // 0 none, 1 "_c", 2 "0"
    char padc;
};

static S spec_text(const Spec &s)
{
    S f = "{";
    if (s.align) f += s.align;
    if (s.padkind == 1) { f += '_'; f += s.padc; }
    if (s.padkind == 2) f += '0';
    if (s.plus) f += '+';
    if (s.width) f += sfmt("%d", s.width);
    if (s.precision >= 0) f += sfmt(".%d", s.precision);
    if (s.cls) f += s.cls;
    return f + "}";
}

static S ref_format(const Spec &s, double v)
{
    S pf = "%";
    if (s.plus) pf += '+';
    if (s.precision >= 0) pf += sfmt(".%d", s.precision);
    pf += s.cls ? s.cls : 'g';
    S r = c_render(pf.c_str(), v);
    if (s.width > static_cast<int>(r.size())) {
        char pad = s.padkind == 1 ? s.padc : s.padkind == 2 ? '0' : ' ';
        S fill(static_cast<size_t>(s.width) - r.size(), pad);
        r = (s.align == '<') ? r + fill : fill + r;
    }
    return r;
}

template <typename FT>
static void format_case(const Spec &s, FT value)
{
    const double dv = static_cast<double>(value);
    S fmt = "[" + spec_text(s) + "]";
    vrt::cur_rewind();
    vrt::cur_printf("format fmt=%s value=%s type=%s\n", fmt.c_str(), dbl_bits(dv).c_str(), sizeof(FT) == 4 ? "float" : "double");
    vrt::Exact<char> f(fmt.data(), fmt.size(), true);
    S want = "[" + ref_format(s, dv) + "]";
    vrt::evals();
    try {
        ST::string got = ST::format(f.data(), value);
        if (vrt::str_of(got) != want)
            vrt::violation("C13:format:differs-from-printf", sfmt("fmt=%s value=%s got=%s want=%s", fmt.c_str(), dbl_bits(dv).c_str(),
                                                                  vrt::str_of(got).substr(0, 200).c_str(), want.substr(0, 200).c_str()));
        if (got.c_str()[got.size()] != 0) vrt::violation("C13:format:no-terminator", fmt);
    } catch (const std::exception &e) {
        vrt::violation(sfmt("C13:format:threw:%s", vrt::demangle(typeid(e).name()).c_str()), sfmt("fmt=%s value=%s: %s", fmt.c_str(), dbl_bits(dv).c_str(), e.what()));
    }
    size_t rl = want.size() - 2;
    vrt::count("format.calls");
    if (rl >= 62 && rl <= 66 && s.width == 0) vrt::count(sfmt("format.rendering_len_%zu", rl));
    if (rl >= 64) vrt::count("format.rendering_64_or_longer");
    if (s.width > 0 && static_cast<size_t>(s.width) > ref_format(Spec{s.cls, s.precision, s.plus, 0, 0, 0, 0}, dv).size()) vrt::count("format.padded");
}

template <typename FT>
static void mini_case(FT value)
{
    const double dv = static_cast<double>(value);
    vrt::cur_rewind();
    vrt::cur_printf("from_float/from_double/string_stream value=%s\n", dbl_bits(dv).c_str());
    static const char classes[] = "efgEFG";
    for (const char *c = classes; *c; ++c) {
        char pf[3] = {'%', *c, 0};
        S want = c_render(pf, dv);
        ST::string got;
        if constexpr (sizeof(FT) == 4) got = ST::string::from_float(value, *c);
        else got = ST::string::from_double(value, *c);
        vrt::evals();
        if (vrt::str_of(got) != want || got.c_str()[got.size()] != 0)
            vrt::violation(sfmt("C13:from_%s:differs-from-printf", sizeof(FT) == 4 ? "float" : "double"),
                           sfmt("value=%s class=%c got=%s want=%s", dbl_bits(dv).c_str(), *c, vrt::str_of(got).substr(0, 200).c_str(), want.substr(0, 200).c_str()));
        {   // the overload of from_float that takes a double forwards the letter as well
            ST::string viad = ST::string::from_float(dv, *c);
            vrt::evals();
            if (vrt::str_of(viad) != want)
                vrt::violation("C13:from_float(double,letter):differs-from-printf", sfmt("value=%s class=%c got=%s want=%s", dbl_bits(dv).c_str(), *c, vrt::str_of(viad).substr(0, 200).c_str(), want.substr(0, 200).c_str()));
        }
        if (want.size() >= 64) vrt::count("mini.rendering_64_or_longer");
        if (want.size() >= 62 && want.size() <= 66) vrt::count(sfmt("mini.rendering_len_%zu", want.size()));
    }
    {
        S want = c_render("%g", dv);
        ST::string got = sizeof(FT) == 4 ? ST::string::from_float(value) : ST::string::from_double(value);
        ST::string got2 = ST::string::from_float(dv);       // from_float(double) forwards to from_double
        vrt::evals(2);
        if (vrt::str_of(got) != want || vrt::str_of(got2) != want)
            vrt::violation("C13:from_float:default-class", sfmt("value=%s got=%s want=%s", dbl_bits(dv).c_str(), vrt::str_of(got).c_str(), want.c_str()));
        vrt::Box<ST::string_stream> ss;
        *ss << "<" << value << ">";
        vrt::evals();
        if (S(ss->raw_buffer(), ss->size()) != "<" + want + ">")
            vrt::violation("C13:string_stream:differs-from-printf-g", sfmt("value=%s got=%s want=%s", dbl_bits(dv).c_str(), S(ss->raw_buffer(), ss->size()).c_str(), want.c_str()));
        // the same into a stream that is already nearly full: the rendering ends just below, at and just beyond the
        // in-object capacity (256) / the first heap capacity (512), and more text follows
        for (size_t cap : {size_t(256), size_t(512)})
            for (int d = -1; d <= 1; ++d) {
                if (want.size() + 2 > cap) continue;
                const size_t fill = cap - want.size() + static_cast<size_t>(d + 1) - 1;
                vrt::Box<ST::string_stream> s2;
                const S prefix(fill, 'p');
                s2->append(prefix.data(), prefix.size());
                *s2 << value << "tail";
                vrt::evals();
                if (S(s2->raw_buffer(), s2->size()) != prefix + want + "tail")
                    vrt::violation("C13:string_stream:nearly-full-stream", sfmt("value=%s after %zu bytes got ...%s", dbl_bits(dv).c_str(), fill, S(s2->raw_buffer(), s2->size()).substr(fill > 4 ? fill - 4 : 0).c_str()));
                vrt::count("mini.nearly_full_stream_inserts");
            }
    }
    vrt::count("mini.values");
}

// A conversion_result is an out-parameter: what an earlier conversion left in it must not show.
static void predirty(ST::conversion_result &r)
{
    static unsigned n = 0;
    static const ST::string full("4.5"), part("7x");
    switch (n++ % 3) {
    case 0: break;
    case 1: (void)full.to_double(r); vrt::count("parse.result_object_reused"); break;
    default: (void)part.to_float(r); vrt::count("parse.result_object_reused"); break;
    }
}

// whatever an unrelated earlier C library call left in errno must not influence a conversion
static int stale_errno()
{
    static unsigned n = 0;
    static const int vals[] = {0, EINVAL, ERANGE, ENOENT, EDOM};
    return vals[n++ % 5];
}

static void parse_case(const S &text)
{
    vrt::cur_rewind();
    vrt::cur_printf("parse text=%s\n", show(text).c_str());
    vrt::Box<ST::string> st(vrt::mk(text));
    const char *c = st->c_str();
    const bool empty = text.empty();
    {
        char *endp = nullptr;
        double want = strtod(c, &endp);
        bool wok = !empty && endp != c, wfull = empty || endp == c + text.size();
        if (empty) want = 0;
        ST::conversion_result r;
        predirty(r);
        errno = stale_errno();
        double got = st->to_double(r), got2 = st->to_double();
        vrt::evals(2);
        if (memcmp(&got, &want, 8) != 0 || r.ok() != wok || r.full_match() != wfull)
            vrt::violation("C13:to_double", sfmt("text=%s got=%s ok=%d full=%d want=%s ok=%d full=%d", show(text).c_str(), dbl_bits(got).c_str(), r.ok(), r.full_match(), dbl_bits(want).c_str(), wok, wfull));
        if (memcmp(&got2, &want, 8) != 0)
            vrt::violation("C13:to_double:no-result-arg", sfmt("text=%s got=%s want=%s", show(text).c_str(), dbl_bits(got2).c_str(), dbl_bits(want).c_str()));
        vrt::count(wok ? (wfull ? "parse.full_match" : "parse.partial") : "parse.no_match");
    }
    {
        char *endp = nullptr;
        float want = strtof(c, &endp);
        bool wok = !empty && endp != c, wfull = empty || endp == c + text.size();
        if (empty) want = 0;
        ST::conversion_result r;
        predirty(r);
        errno = stale_errno();
        float got = st->to_float(r), got2 = st->to_float();
        vrt::evals(2);
        if (memcmp(&got, &want, 4) != 0 || r.ok() != wok || r.full_match() != wfull)
            vrt::violation("C13:to_float", sfmt("text=%s got=%.9g ok=%d full=%d want=%.9g ok=%d full=%d", show(text).c_str(), got, r.ok(), r.full_match(), want, wok, wfull));
        if (memcmp(&got2, &want, 4) != 0)
            vrt::violation("C13:to_float:no-result-arg", sfmt("text=%s got=%.9g want=%.9g", show(text).c_str(), got2, want));
        double viadouble = strtod(c, nullptr);
        if (static_cast<float>(viadouble) != want && want == want) vrt::count("parse.float_differs_from_rounded_double");
    }
    vrt::distinct(vrt::fnv1a(text.data(), text.size(), 61));
}

static double pick_double(Rng &r)
{
    switch (r.below(12)) {
    case 0: { static const double sp[] = {0.0, -0.0, INFINITY, -INFINITY, NAN, -NAN, DBL_MIN, DBL_MAX, -DBL_MAX, DBL_TRUE_MIN, -DBL_TRUE_MIN, DBL_EPSILON,
                                          1.0, -1.0, 0.5, 1.5, 0.1, 123456789.0, 1e15, 1e16, 1e17, 9.999999e5, 999999.5, 1e-5, 9.9999e-5, 1e-4, 4.9e-324, 2.2250738585072009e-308};
              return r.pick(sp); }
    case 1: return std::pow(10.0, static_cast<double>(r.range(-324, 308)));
    case 2: return std::ldexp(1.0, static_cast<int>(r.range(-1074, 1023)));
    case 3: { double p = std::pow(10.0, static_cast<double>(r.range(-30, 70))); return std::nextafter(p, r.chance(1, 2) ? 0.0 : INFINITY); }
    case 4: return static_cast<double>(r.range(-1000000, 1000000)) / 64.0;
    case 5: return -std::pow(10.0, static_cast<double>(r.range(40, 120)));
    case 6: { float f; uint32_t b = static_cast<uint32_t>(r.next()); memcpy(&f, &b, 4); return f; }
    case 7: return static_cast<double>(r.range(-99999, 99999)) * std::pow(10.0, static_cast<double>(r.range(-12, 60)));
    default: { double d; uint64_t b = r.next(); memcpy(&d, &b, 8); return d; }
    }
}

static Spec pick_spec(Rng &r, double v)
{
    Spec s{};
    static const char classes[] = {0, 'f', 'e', 'E'};
    s.cls = r.pick(classes);
    static const int precs[] = {-1, -1, 0, 1, 2, 3, 5, 6, 8, 10, 15, 17, 20, 40, 55, 60, 61, 62, 63, 64, 65, 100, 340, 1000};
    s.precision = r.pick(precs);
    if (r.chance(1, 10)) s.precision = static_cast<int>(r.below(80));
    s.plus = r.chance(1, 3);
    if (r.chance(1, 2)) {
        // width relative to the natural length
        Spec bare = s;
        size_t len = ref_format(bare, v).size();
        static const int deltas[] = {-1, 0, 1, 5, 12};
        int w = static_cast<int>(len) + r.pick(deltas);
        s.width = w > 0 ? w : 1;
        static const char aligns[] = {0, '<', '>'};
        s.align = r.pick(aligns);
        switch (r.below(4)) {
        case 0: { static const char padcs[] = {'*', '_', '.', '#', 'x', '-', '~', ' '}; s.padkind = 1; s.padc = r.pick(padcs); break; }
        case 1:
            // zero padding: position relative to the sign is not fixed by the statement,
            // so only used where there is no sign and the padding goes left
            if (!(v < 0) && !std::signbit(v) && !s.plus && s.align != '<') s.padkind = 2;
            break;
        default: break;
        }
    }
    return s;
}

static void body()
{
    vrt::require("format.calls", 10000);
    vrt::require("format.padded", 1000);
    vrt::require("format.rendering_64_or_longer", 500);
    vrt::require("format.rendering_len_63", 5);
    vrt::require("format.rendering_len_64", 5);
    vrt::require("format.rendering_len_65", 5);
    vrt::require("mini.values", 1000);
    vrt::require("mini.rendering_64_or_longer", 100);
    vrt::require("mini.rendering_len_64", 3);
    vrt::require("parse.full_match", 1000);
    vrt::require("parse.partial", 1000);
    vrt::require("parse.no_match", 100);
    vrt::require("parse.float_differs_from_rounded_double", 20);

    // renderings of every length around the 64-byte scratch buffers
    vrt::phase("len_sweep", 200, [&](uint64_t i, Rng &) {
        int p = static_cast<int>(i % 100);          // precision 0..99
        bool plus = i >= 100;
        for (char cls : {'f', 'e', 'E', char(0)}) {
            for (double v : {1.5, -1.5, 0.0, 1e10, 123456.789, 1e-7, 1e300}) {
                format_case(Spec{cls, p, plus, 0, 0, 0, 0}, v);
                format_case(Spec{cls, p, plus, 0, 0, 0, 0}, static_cast<float>(v > 1e38 ? 1e38 : v));
            }
        }
        // {f} of 10^k: 1 digit per power
        if (i < 100) {
            double v = std::pow(10.0, static_cast<double>(i));
            format_case(Spec{'f', -1, false, 0, 0, 0, 0}, v);
            format_case(Spec{'f', 0, true, 0, 0, 0, 0}, v);
            format_case(Spec{'f', 3, true, 0, 0, 0, 0}, -v);
            mini_case<double>(v);
            mini_case<double>(-v);
            mini_case<double>(v * 1.25);
            if (i < 39) mini_case<float>(static_cast<float>(v));
        }
        vrt::distinct(vrt::fnv_u64(i, 62));
    });

    // precision INT_MAX: snprintf itself fails (EOVERFLOW) and the library aborts - known finding K2
    vrt::phase("libc_precision_limit", 1, [&](uint64_t, Rng &) {
        vrt::st().assert_throws = true;
        vrt::evals();
        try {
            ST::string s = ST::format("{.2147483647f}", 1.0);
            (void)s;
        } catch (const vrt::assertion_reached &a) {
            vrt::violation(sfmt("C13:format:aborts:%s", a.message.c_str()), "ST::format(\"{.2147483647f}\", 1.0): snprintf returns -1 (EOVERFLOW) and the library asserts");
        } catch (const std::exception &) { }
        vrt::st().assert_throws = false;
    });

    vrt::phase("format_random", vrt::tier_count(400000, 10000000), [&](uint64_t, Rng &r) {
        double v = pick_double(r);
        Spec s = pick_spec(r, v);
        if (r.chance(1, 4)) format_case<float>(s, static_cast<float>(v));
        else format_case<double>(s, v);
        uint64_t b;
        memcpy(&b, &v, 8);
        S st = spec_text(s);
        vrt::distinct(vrt::fnv_u64(b, vrt::fnv1a(st.data(), st.size(), 63)));
        if (vrt::want_sample("format_random") && s.width && s.precision > 3) vrt::sample("format_random", sfmt("ST::format(\"%s\", %s) == \"%s\"", st.c_str(), dbl_bits(v).c_str(), ref_format(s, v).substr(0, 120).c_str()));
    });

    vrt::phase("mini_random", vrt::tier_count(150000, 4000000), [&](uint64_t, Rng &r) {
        double v = pick_double(r);
        if (r.chance(1, 3)) mini_case<float>(static_cast<float>(v));
        else mini_case<double>(v);
        uint64_t b;
        memcpy(&b, &v, 8);
        vrt::distinct(vrt::fnv_u64(b, 64));
    });

    vrt::phase("parse_directed", 1, [&](uint64_t, Rng &) {
        static const char *const texts[] = {"", " ", "0", "-0", "+0", "1", "1.", ".5", "-.5", ".", "e5", "1e", "1e+", "1e5", "1E-5", "1e400", "-1e400", "1e-400", "inf", "-inf", "INF", "infinity",
                                            "infinit", "nan", "NaN", "nan(123)", "nan(", "0x1p3", "0x1.8p1", "0x", "0x.p1", "1.5f", "  2.5", "2.5  ", "\t\n3", "1,5", "1.7976931348623157e308",
                                            "1.7976931348623159e308", "4.9406564584124654e-324", "2.4703282292062327e-324", "2.4703282292062328e-324", "3.4028234664e38", "3.4028235677973366e38",
                                            "1.401298464324817e-45", "7.006492321624085e-46", "1.0000000596046447753906250", "1.0000000596046447753906251", "1.0000000596046447753906249",
                                            "16777217", "16777216.999999999", "9007199254740993", "0.1", "0.30000000000000004", "123abc", "abc", "--1", "+-1", "1e5e5", "1.2.3", "true"};
        for (const char *t : texts) parse_case(t);
        parse_case(S("1.5\0", 4));
        parse_case(S("1.5\0" "7", 5));
        parse_case(S("\0" "1.5", 4));
        parse_case(S("12\0\0", 4));
    });

    vrt::phase("parse_random", vrt::tier_count(300000, 8000000), [&](uint64_t, Rng &r) {
        S t;
        switch (r.below(6)) {
        case 0: case 1: {
            // a decimal text right beside the midpoint of two adjacent floats (double rounding shows here)
            uint32_t bits = static_cast<uint32_t>(r.below(0x7f000000u - 0x00800000u)) + 0x00800000u;
            float f;
            memcpy(&f, &bits, 4);
            float g = std::nextafterf(f, INFINITY);
            double mid = (static_cast<double>(f) + static_cast<double>(g)) / 2;      // exact in double
            t = c_render("%.70e", mid);                                                // exact decimal expansion (<= 53 bits)
            size_t e = t.find('e');
            S mant = t.substr(0, e), ex = t.substr(e);
            while (mant.size() > 3 && mant.back() == '0') mant.pop_back();
            switch (r.below(3)) {
            case 0: mant += "0000000000000000000001"; break;      // just above the tie
            case 1: {                                            // just below the tie
                size_t k = mant.size() - 1;
                while (mant[k] == '0' || mant[k] == '.') --k;
                mant[k] = static_cast<char>(mant[k] - 1);
                mant += "9999999999999999999999";
                break;
            }
            default: break;                                      // exactly the tie
            }
            t = mant + ex;
            if (r.chance(1, 2)) t.insert(0, "-");
            break;
        }
        case 2: t = c_render(r.chance(1, 2) ? "%.17g" : "%.9g", pick_double(r)); break;
        case 3: t = c_render("%a", pick_double(r)); break;
        default: {
            static const char *const pieces[] = {"", " ", "-", "+", "0", "1", "9", ".", "e", "E", "e-", "e+", "5", "00", "inf", "nan", "0x", "p", "x", "1.5", "308", "400", "\t"};
            size_t n = 1 + r.below(7);
            for (size_t i = 0; i < n; ++i) t += r.pick(pieces);
            if (r.chance(1, 10)) { t.push_back('\0'); t += "5"; }
            break;
        }
        }
        if (r.chance(1, 8)) { static const char *const tails[] = {"x", " ", "f", "e", "..", "\xc3\xa9"}; t += r.pick(tails); }
        parse_case(t);
        if (vrt::want_sample("parse_random") && t.size() > 30) vrt::sample("parse_random", "text=" + t);
    });
    vrt::alloc::check_pairing("floats");
}

VRT_MAIN(body)
