// C13 - floating-point text against the C library (snprintf / strtod / strtof
// on this platform), for ST::format, from_float/from_double, string_stream and
// to_float/to_double; ASan+UBSan and the assertion observer watch the scratch
// buffers ("Format buffer too small" class of aborts).
#include "vrt.h"
#include "vrt_alloc.h"
#include "vrt_st.h"
#include "gen_text.h"
#include "gen_scale.h"
#include "ambient.h"
#include <cmath>
#include <cfloat>
#include <cerrno>
#include <cfenv>
#include <optional>

using vrt::Rng;
using vrt::sfmt;
typedef std::string S;

static std::string show(const S &s) { return vrt::hex(s.data(), s.size()); }

// ---------------------------------------------------------------- rounding direction
// glibc's printf and strtod / strtof honour the floating-point rounding direction of the calling thread (fesetround): "%.1f" of
// 0.25 is "0.2" to-nearest and "0.3" upward, "%g" of 0.1 is "0.100001" upward, strtod("0.1") has another last bit downward.  The
// property asks for what the C library gives for the same call, so a share of all cases runs under each of the four directions.
// The direction is in force ONLY around the reference call and the library call it is compared with (struct Dir); generators,
// bookkeeping and reports run to-nearest, so the harness's own arithmetic is the same whatever the case's direction.
static const int DIRS[4] = {FE_TONEAREST, FE_UPWARD, FE_DOWNWARD, FE_TOWARDZERO};
static const char *dir_name(int d) { return d == FE_TONEAREST ? "to-nearest" : d == FE_UPWARD ? "upward" : d == FE_DOWNWARD ? "downward" : "toward-zero"; }
static int g_dir = FE_TONEAREST;            // what the next Dir scope switches to
struct Dir {
    Dir() { if (g_dir != FE_TONEAREST) fesetround(g_dir); }
    ~Dir() { if (g_dir != FE_TONEAREST) fesetround(FE_TONEAREST); }
    Dir(const Dir &) = delete;
    Dir &operator=(const Dir &) = delete;
};
struct UseDir {
    int saved;
    explicit UseDir(int d) : saved(g_dir) { g_dir = d; }
    ~UseDir() { g_dir = saved; }
    UseDir(const UseDir &) = delete;
    UseDir &operator=(const UseDir &) = delete;
};
// half of the cases of a phase to-nearest, a sixth each upward / downward / toward zero; a function of the case address only
static int dir_of_case(uint64_t i, uint64_t salt)
{
    switch ((vrt::fnv_u64(i, vrt::fnv_u64(salt)) >> 11) % 6) {
    case 3: return FE_UPWARD;
    case 4: return FE_DOWNWARD;
    case 5: return FE_TOWARDZERO;
    default: return FE_TONEAREST;
    }
}
static void count_dir(const char *what)
{
    if (g_dir != FE_TONEAREST) vrt::count(sfmt("rounding.%s.%s", what, dir_name(g_dir)));
}

static S c_render(const char *fmt, double v)
{
    char small[128];
    int n = snprintf(small, sizeof(small), fmt, v);
    if (n < 0) return S("\x01<snprintf failed>");
    if (static_cast<size_t>(n) < sizeof(small)) return S(small, n);
    S big(static_cast<size_t>(n) + 1, '\0');
    snprintf(&big[0], big.size(), fmt, v);
    big.resize(n);
    return big;
}

static std::string dbl_bits(double v)
{
    uint64_t b;
    memcpy(&b, &v, 8);
    return sfmt("%.17g(0x%016llx)", v, static_cast<unsigned long long>(b));
}

struct Spec {
    char cls;        // 0, 'f', 'e', 'E'
    int precision;   // -1 none
    bool plus;
    int width;       // 0 none
    char align;      // 0, '<', '>'
    int padkind;     // 0 none, 1 "_c", 2 "0"
    char padc;
};

static S spec_text(const Spec &s)
{
    S f = "{";
    if (s.align) f += s.align;
    if (s.padkind == 1) { f += '_'; f += s.padc; }
    if (s.padkind == 2) f += '0';
    if (s.plus) f += '+';
    if (s.width) f += sfmt("%d", s.width);
    if (s.precision >= 0) f += sfmt(".%d", s.precision);
    if (s.cls) f += s.cls;
    return f + "}";
}

static S ref_format(const Spec &s, double v)
{
    S pf = "%";
    if (s.plus) pf += '+';
    if (s.precision >= 0) pf += sfmt(".%d", s.precision);
    pf += s.cls ? s.cls : 'g';
    S r = c_render(pf.c_str(), v);
    if (s.width > static_cast<int>(r.size())) {
        char pad = s.padkind == 1 ? s.padc : s.padkind == 2 ? '0' : ' ';
        S fill(static_cast<size_t>(s.width) - r.size(), pad);
        r = (s.align == '<') ? r + fill : fill + r;
    }
    return r;
}

// `prefix` (no braces in it) is output in front of the field: literal text of the format string, or - `prefix_as_argument` - a string
// argument formatted before the number, so that the rendering and its padding land at any offset of the output
template <typename FT>
static S format_case(const Spec &s, FT value, const S &prefix = S(), bool prefix_as_argument = false)
{
    const double dv = static_cast<double>(value);
    const S field = "[" + spec_text(s) + "]";
    const S fmt = prefix.empty() ? field : prefix_as_argument ? "{}" + field : prefix + field;
    const S fmt_shown = prefix.empty() ? field : sfmt("<%zu bytes %s>", prefix.size(), prefix_as_argument ? "from a string argument" : "of literal text") + field;
    vrt::cur_rewind();
    vrt::cur_printf("format fmt=%s value=%s type=%s rounding=%s\n", fmt_shown.c_str(), dbl_bits(dv).c_str(), sizeof(FT) == 4 ? "float" : "double", dir_name(g_dir));
    vrt::Exact<char> f(fmt.data(), fmt.size(), true);
    S rendering;
    ST::string got;
    std::string threw, threw_what;
    vrt::evals();
    {
        Dir in_force;           // reference and library call under the case's rounding direction, nothing else
        rendering = ref_format(s, dv);
        try {
            got = (!prefix.empty() && prefix_as_argument) ? ST::format(f.data(), vrt::mk(prefix), value) : ST::format(f.data(), value);
        } catch (const std::exception &e) {
            threw = typeid(e).name();
            threw_what = e.what();
        }
    }
    S want = prefix + "[" + rendering + "]";
    if (!threw.empty())
        vrt::violation(sfmt("C13:format:threw:%s", vrt::demangle(threw.c_str()).c_str()), sfmt("fmt=%s value=%s rounding=%s: %s", fmt_shown.c_str(), dbl_bits(dv).c_str(), dir_name(g_dir), threw_what.c_str()));
    else {
        if (vrt::str_of(got) != want) {
            if (want.size() <= 400 && got.size() <= 400)
                vrt::violation("C13:format:differs-from-printf", sfmt("fmt=%s value=%s rounding=%s got=%s want=%s", fmt.c_str(), dbl_bits(dv).c_str(), dir_name(g_dir),
                                                                      vrt::str_of(got).substr(0, 200).c_str(), want.substr(0, 200).c_str()));
            else {
                const S g = vrt::str_of(got);
                const size_t at = scale::first_diff(g, want);
                vrt::violation("C13:format:differs-from-printf", sfmt("fmt=%s value=%s rounding=%s got %s want %s (first difference at %zu)", fmt_shown.c_str(), dbl_bits(dv).c_str(), dir_name(g_dir),
                                                                      scale::brief(g, at).c_str(), scale::brief(want, at).c_str(), at));
            }
        }
        if (got.c_str()[got.size()] != 0) vrt::violation("C13:format:no-terminator", fmt_shown);
    }
    if (g_dir != FE_TONEAREST) {
        count_dir("format_calls");
        if (rendering.size() <= 2000 && ref_format(s, dv) != rendering) vrt::count("rounding.format_rendering_differs_from_to_nearest");
    }
    want = "[" + rendering + "]";
    size_t rl = want.size() - 2;
    vrt::count("format.calls");
    if (rl >= 62 && rl <= 66 && s.width == 0) vrt::count(sfmt("format.rendering_len_%zu", rl));
    if (rl >= 64) vrt::count("format.rendering_64_or_longer");
    if (s.width > 0 && static_cast<size_t>(s.width) > ref_format(Spec{s.cls, s.precision, s.plus, 0, 0, 0, 0}, dv).size()) vrt::count("format.padded");
    return rendering;
}

// how a stream came to hold what it holds before the number goes in
enum History { ONE_APPEND, CHUNKS, GROWN_THEN_TRUNCATED, NUMBERS, MOVED, N_HISTORIES };
static const char *history_name(unsigned h)
{
    static const char *const n[] = {"one_append", "chunks", "grown_then_truncated", "numbers", "moved"};
    return n[h % N_HISTORIES];
}

// text of exactly `fill` bytes; with c == 0 one that tells positions apart (a block copied to or from the wrong offset shows)
static S position_pattern(size_t fill, char c)
{
    S p(fill, c);
    if (c != 0) return p;
    for (size_t i = 0; i < fill; ++i) p[i] = static_cast<char>('a' + (i + i / 251 + i / 65521) % 26);
    return p;
}

static double pick_double(Rng &r);

// Brings `ss` to hold `prefix` (history NUMBERS rewrites `prefix`: most of it becomes numbers that went in through <<).
static void fill_stream(ST::string_stream &ss, S &prefix, unsigned history, Rng *r)
{
    const size_t fill = prefix.size();
    switch (r ? history : ONE_APPEND) {
    case CHUNKS: {          // many appends: the buffer goes through every doubling on the way
        size_t done = 0;
        while (done < fill) {
            size_t n = r->chance(1, 4) ? 1 + r->below(16) : r->chance(1, 2) ? 1 + r->below(700) : 1 + r->below(40000);
            n = std::min(n, fill - done);
            if (n == 1 && r->chance(1, 2)) ss.append_char(prefix[done]); else ss.append(prefix.data() + done, n);
            done += n;
        }
        break;
    }
    case GROWN_THEN_TRUNCATED: {   // capacity left over from a bigger past
        const S junk(fill + 1 + r->below(2 * fill + 600), '#');
        if (r->chance(1, 2)) {
            ss.append(junk.data(), junk.size());
            ss.truncate(0);
            ss.append(prefix.data(), prefix.size());
        } else {
            ss.append(prefix.data(), prefix.size());
            ss.append(junk.data(), junk.size());
            if (r->chance(1, 2)) ss.truncate(fill); else ss.erase(junk.size());
        }
        break;
    }
    case NUMBERS: {         // thousands of consecutive insertions into one object
        S model;
        model.reserve(fill);
        uint64_t inserts = 0;
        while (model.size() + 16 <= fill) {
            const double x = pick_double(*r);
            if (r->chance(1, 3)) { const float f = static_cast<float>(x); ss << f; model += c_render("%g", static_cast<double>(f)); }
            else { ss << x; model += c_render("%g", x); }
            ss << ';';
            model += ';';
            ++inserts;
        }
        vrt::count("scale.consecutive_number_inserts", inserts);
        const size_t rest = fill - model.size();
        ss.append_char('p', rest);
        model.append(rest, 'p');
        prefix = model;
        break;
    }
    default:
        ss.append(prefix.data(), prefix.size());
        break;
    }
}

// A number streamed into a stream that already holds text: the %g rendering ends (`end_anchored`) or starts just below, at and
// just beyond `mark`, and more text follows.
template <typename FT>
static void nearly_full_stream(FT value, size_t mark, bool end_anchored, unsigned history, char pattern, Rng *r)
{
    const double dv = static_cast<double>(value);
    S want;
    { Dir in_force; want = c_render("%g", dv); }
    for (int d = -1; d <= 1; ++d) {
        const long start = static_cast<long>(mark) - (end_anchored ? static_cast<long>(want.size()) : 0) + d;
        if (start < 0 || (!r && want.size() + 2 > mark)) continue;
        const size_t fill = static_cast<size_t>(start);
        S prefix = position_pattern(fill, pattern);
        vrt::Box<ST::string_stream> s2;
        if (r && history == MOVED) {        // the stream that takes the number was move-constructed, the one that is read move-assigned
            vrt::Box<ST::string_stream> first;
            fill_stream(*first, prefix, CHUNKS, r);
            vrt::Box<ST::string_stream> second(std::move(*first));
            { Dir in_force; *second << value << "tail"; }
            *s2 = std::move(*second);
        } else {
            fill_stream(*s2, prefix, history, r);
            Dir in_force;
            *s2 << value << "tail";
        }
        vrt::evals();
        const S got(s2->raw_buffer(), s2->size());
        if (got != prefix + want + "tail") {
            const size_t at = scale::first_diff(got, prefix + want + "tail");
            vrt::violation("C13:string_stream:nearly-full-stream", sfmt("value=%s rounding=%s after %zu bytes (%s) got ...%s; %s, first difference at %zu", dbl_bits(dv).c_str(), dir_name(g_dir), fill, history_name(r ? history : 0),
                                                                        got.substr(fill > 4 ? std::min(fill - 4, got.size()) : 0, 60).c_str(), scale::brief(got, at).c_str(), at));
        }
        vrt::count("mini.nearly_full_stream_inserts");
    }
}

template <typename FT>
static void mini_case(FT value)
{
    const double dv = static_cast<double>(value);
    vrt::cur_rewind();
    vrt::cur_printf("from_float/from_double/string_stream value=%s rounding=%s\n", dbl_bits(dv).c_str(), dir_name(g_dir));
    static const char classes[] = "efgEFG";
    for (const char *c = classes; *c; ++c) {
        char pf[3] = {'%', *c, 0};
        S want;
        ST::string got, viad;
        {
            Dir in_force;
            want = c_render(pf, dv);
            if constexpr (sizeof(FT) == 4) got = ST::string::from_float(value, *c);
            else got = ST::string::from_double(value, *c);
            viad = ST::string::from_float(dv, *c);      // the overload of from_float that takes a double forwards the letter as well
        }
        vrt::evals(2);
        if (vrt::str_of(got) != want || got.c_str()[got.size()] != 0)
            vrt::violation(sfmt("C13:from_%s:differs-from-printf", sizeof(FT) == 4 ? "float" : "double"),
                           sfmt("value=%s class=%c rounding=%s got=%s want=%s", dbl_bits(dv).c_str(), *c, dir_name(g_dir), vrt::str_of(got).substr(0, 200).c_str(), want.substr(0, 200).c_str()));
        if (vrt::str_of(viad) != want)
            vrt::violation("C13:from_float(double,letter):differs-from-printf", sfmt("value=%s class=%c rounding=%s got=%s want=%s", dbl_bits(dv).c_str(), *c, dir_name(g_dir), vrt::str_of(viad).substr(0, 200).c_str(), want.substr(0, 200).c_str()));
        if (want.size() >= 64) vrt::count("mini.rendering_64_or_longer");
        if (want.size() >= 62 && want.size() <= 66) vrt::count(sfmt("mini.rendering_len_%zu", want.size()));
    }
    {
        S want;
        ST::string got, got2;
        vrt::Box<ST::string_stream> ss;
        {
            Dir in_force;
            want = c_render("%g", dv);
            got = sizeof(FT) == 4 ? ST::string::from_float(value) : ST::string::from_double(value);
            got2 = ST::string::from_float(dv);       // from_float(double) forwards to from_double
            *ss << "<" << value << ">";
        }
        vrt::evals(3);
        if (vrt::str_of(got) != want || vrt::str_of(got2) != want)
            vrt::violation("C13:from_float:default-class", sfmt("value=%s rounding=%s got=%s want=%s", dbl_bits(dv).c_str(), dir_name(g_dir), vrt::str_of(got).c_str(), want.c_str()));
        if (S(ss->raw_buffer(), ss->size()) != "<" + want + ">")
            vrt::violation("C13:string_stream:differs-from-printf-g", sfmt("value=%s rounding=%s got=%s want=%s", dbl_bits(dv).c_str(), dir_name(g_dir), S(ss->raw_buffer(), ss->size()).c_str(), want.c_str()));
        if (g_dir != FE_TONEAREST) {
            count_dir("mini_values");
            if (c_render("%g", dv) != want) vrt::count("rounding.mini_rendering_differs_from_to_nearest");
        }
        // the same into a stream that is already nearly full: the rendering ends just below, at and just beyond the
        // in-object capacity (256) / the first heap capacity (512), and more text follows
        for (size_t cap : {size_t(256), size_t(512)})
            nearly_full_stream<FT>(value, cap, true, ONE_APPEND, 'p', nullptr);
    }
    vrt::count("mini.values");
}

// A conversion_result is an out-parameter: what an earlier conversion left in it must not show.
static void predirty(ST::conversion_result &r)
{
    static unsigned n = 0;
    static const ST::string full("4.5"), part("7x");
    switch (n++ % 3) {
    case 0: break;
    case 1: (void)full.to_double(r); vrt::count("parse.result_object_reused"); break;
    default: (void)part.to_float(r); vrt::count("parse.result_object_reused"); break;
    }
}

// whatever an unrelated earlier C library call left in errno must not influence a conversion
static int stale_errno()
{
    static unsigned n = 0;
    static const int vals[] = {0, EINVAL, ERANGE, ENOENT, EDOM};
    return vals[n++ % 5];
}

// `str` holds `text`; with `float_first` to_float is called before to_double (what one leaves behind on the thread must not show
// in the other, whichever comes first)
static void parse_on(const ST::string &str, const S &text, bool float_first = false)
{
    vrt::cur_rewind();
    vrt::cur_printf("parse text=%s rounding=%s\n", show(text).c_str(), dir_name(g_dir));
    const ST::string *st = &str;
    const char *c = st->c_str();
    const bool empty = text.empty();
    auto as_double = [&]() {
        char *endp = nullptr;
        double want, got, got2;
        ST::conversion_result r;
        {
            Dir in_force;
            want = strtod(c, &endp);
            predirty(r);
            errno = stale_errno();
            got = st->to_double(r);
            got2 = st->to_double();
        }
        bool wok = !empty && endp != c, wfull = empty || endp == c + text.size();
        if (empty) want = 0;
        vrt::evals(2);
        if (memcmp(&got, &want, 8) != 0 || r.ok() != wok || r.full_match() != wfull)
            vrt::violation("C13:to_double", sfmt("text=%s rounding=%s got=%s ok=%d full=%d want=%s ok=%d full=%d", show(text).c_str(), dir_name(g_dir), dbl_bits(got).c_str(), r.ok(), r.full_match(), dbl_bits(want).c_str(), wok, wfull));
        if (memcmp(&got2, &want, 8) != 0)
            vrt::violation("C13:to_double:no-result-arg", sfmt("text=%s rounding=%s got=%s want=%s", show(text).c_str(), dir_name(g_dir), dbl_bits(got2).c_str(), dbl_bits(want).c_str()));
        vrt::count(wok ? (wfull ? "parse.full_match" : "parse.partial") : "parse.no_match");
        if (g_dir != FE_TONEAREST) {
            count_dir("parsed_texts");
            if (text.size() <= 2000) { const double near = strtod(c, nullptr); if (memcmp(&near, &want, 8) != 0) vrt::count("rounding.strtod_differs_from_to_nearest"); }
        }
    };
    auto as_float = [&]() {
        char *endp = nullptr;
        float want, got, got2;
        ST::conversion_result r;
        {
            Dir in_force;
            want = strtof(c, &endp);
            predirty(r);
            errno = stale_errno();
            got = st->to_float(r);
            got2 = st->to_float();
        }
        bool wok = !empty && endp != c, wfull = empty || endp == c + text.size();
        if (empty) want = 0;
        vrt::evals(2);
        if (memcmp(&got, &want, 4) != 0 || r.ok() != wok || r.full_match() != wfull)
            vrt::violation("C13:to_float", sfmt("text=%s rounding=%s got=%.9g ok=%d full=%d want=%.9g ok=%d full=%d", show(text).c_str(), dir_name(g_dir), got, r.ok(), r.full_match(), want, wok, wfull));
        if (memcmp(&got2, &want, 4) != 0)
            vrt::violation("C13:to_float:no-result-arg", sfmt("text=%s rounding=%s got=%.9g want=%.9g", show(text).c_str(), dir_name(g_dir), got2, want));
        if (g_dir == FE_TONEAREST) {
            double viadouble = strtod(c, nullptr);
            if (static_cast<float>(viadouble) != want && want == want) vrt::count("parse.float_differs_from_rounded_double");
        } else if (text.size() <= 2000) {
            const float near = strtof(c, nullptr);
            if (memcmp(&near, &want, 4) != 0) vrt::count("rounding.strtof_differs_from_to_nearest");
        }
    };
    if (float_first) { as_float(); as_double(); } else { as_double(); as_float(); }
    vrt::distinct(vrt::fnv1a(text.data(), text.size(), 61));
}

static void parse_case(const S &text)
{
    vrt::Box<ST::string> st(vrt::mk(text));
    parse_on(*st, text);
}

// ---------------------------------------------------------------- scale: floating-point texts of several KiB up to ~1 MiB
// white space, sign, then  zeros digits . zeros digits e sign zeros digits  |  0x hexdigits . hexdigits p sign digits  |
// nan( n-char-sequence )  |  inf / infinity,  then (optionally) a byte that stops the C library and more bytes
struct BigFloat {
    enum Kind { DECIMAL, HEX, NAN_SEQ, INF } kind = DECIMAL;
    size_t W = 0, IZ = 0, ID = 0, FZ = 0, FD = 0, EZ = 0, ED = 0, N = 0, J = 0;
    bool dot = false, exp = false, close = true, long_inf = false;
    S sign, esign;
    size_t planned() const
    {
        size_t n = W + sign.size();
        switch (kind) {
        case NAN_SEQ: return n + 3 + (close ? 1 + N + 1 : 0);
        case INF: return n + (long_inf ? 8 : 3);
        case HEX: n += 2; break;
        default: break;
        }
        n += IZ + ID + (dot ? 1 : 0) + FZ + FD;
        if (exp) n += 1 + esign.size() + EZ + ED;
        return n;
    }
};
enum Run { RUN_W, RUN_IZ, RUN_ID, RUN_FZ, RUN_FD, RUN_EZ, RUN_ED, RUN_N, N_RUNS };
static const char *const run_names[] = {"white space", "leading zeros", "integer digits", "zeros after the point", "fraction digits", "zeros in the exponent", "exponent digits", "nan(...) sequence"};
static size_t &run_of(BigFloat &p, unsigned which)
{
    switch (which) {
    case RUN_W: return p.W;
    case RUN_IZ: return p.IZ;
    case RUN_ID: return p.ID;
    case RUN_FZ: return p.FZ;
    case RUN_FD: return p.FD;
    case RUN_EZ: return p.EZ;
    case RUN_ED: return p.ED;
    default: return p.N;
    }
}

static void put_run(Rng &r, S &t, size_t n, const char *alphabet, bool first_nonzero)
{
    const size_t k = strlen(alphabet);
    const unsigned style = static_cast<unsigned>(r.below(3));       // one character repeated / random / the last of the alphabet
    const char fixed = style == 2 ? alphabet[k - 1] : alphabet[r.below(k)];
    for (size_t i = 0; i < n; ++i) {
        char c = style == 1 ? alphabet[r.below(k)] : fixed;
        if (i == 0 && first_nonzero && c == '0') c = '1';
        t += c;
    }
}

// a decimal exponent that brings a mantissa with `shift` more (or fewer) digits than fit back into the range of a double
static S compensating(long shift) { return sfmt("%ld", shift < 0 ? -shift : shift); }

static S big_float_text(Rng &r, const BigFloat &p, const S &exponent_digits)
{
    S t;
    t.reserve(p.planned() + p.J);
    {
        static const char ws[] = " \t\n\v\f\r";
        if (r.chance(1, 2)) t.append(p.W, ws[r.below(6)]);
        else for (size_t i = 0; i < p.W; ++i) t += ws[r.below(6)];
    }
    t += p.sign;
    switch (p.kind) {
    case BigFloat::NAN_SEQ:
        t += r.chance(1, 2) ? "nan" : "NaN";
        t += '(';
        put_run(r, t, p.N, "0123456789abcdefXYZ_", false);
        if (p.close) t += ')';          // without it only "nan" is consumed, however long the sequence
        break;
    case BigFloat::INF:
        t += p.long_inf ? (r.chance(1, 2) ? "infinity" : "INFINITY") : (r.chance(1, 2) ? "inf" : "Inf");
        break;
    default: {
        const bool hex = p.kind == BigFloat::HEX;
        const char *digits = hex ? "0123456789abcdefABCDEF" : "0123456789";
        if (hex) t += r.chance(1, 2) ? "0x" : "0X";
        t.append(p.IZ, '0');
        put_run(r, t, p.ID, digits, true);
        if (p.dot) t += '.';
        t.append(p.FZ, '0');
        put_run(r, t, p.FD, digits, p.FD <= 40);
        if (p.exp) {
            t += hex ? (r.chance(1, 2) ? 'p' : 'P') : (r.chance(1, 2) ? 'e' : 'E');
            t += p.esign;
            t.append(p.EZ, '0');
            if (!exponent_digits.empty()) t += exponent_digits; else put_run(r, t, p.ED, "0123456789", true);
        }
        break;
    }
    }
    if (p.J) {
        S stoppers = S(" _,z-+g\xe9") + S(1, '\0') + S(1, '\0');
        t += stoppers[r.below(stoppers.size())];
        const size_t rest = p.J - 1;
        switch (r.below(3)) {
        case 0: put_run(r, t, rest, "0123456789", false); break;       // what follows would parse, had the C library not stopped
        case 1: { S al = " x.9_0e\xc3"; al.push_back('\0'); t += scale::byte_background(r, rest, al); break; }
        default: t.append(rest, "x 9."[r.below(4)]); break;
        }
    }
    return t;
}

// A text of which the C library consumes `consumed` characters, most of them in one run (`which`); with `exact_run` that run is
// `consumed` characters long and the rest comes on top.  Returns the text.
static S plan_big_float(Rng &r, BigFloat &p, size_t consumed, unsigned which, size_t junk, bool exact_run = false)
{
    static const char *const signs[] = {"", "", "-", "+"};
    p = BigFloat();
    p.J = junk;
    p.sign = r.pick(signs);
    if (which == RUN_N) {
        p.kind = BigFloat::NAN_SEQ;
        p.W = r.chance(1, 3) ? r.below(4) : 0;
    } else {
        p.kind = (which != RUN_EZ && which != RUN_ED && r.chance(1, 5)) ? BigFloat::HEX : BigFloat::DECIMAL;
        p.W = r.chance(1, 3) ? r.below(4) : 0;
        p.IZ = r.chance(1, 3) ? r.below(3) : 0;
        p.ID = 1 + r.below(r.chance(1, 4) ? 30 : 4);
        p.dot = r.chance(1, 2) || which == RUN_FZ || which == RUN_FD;
        if (p.dot) { p.FZ = r.chance(1, 3) ? r.below(3) : 0; p.FD = r.below(r.chance(1, 4) ? 30 : 4); }
        p.exp = r.chance(1, 2) || which == RUN_EZ || which == RUN_ED;
        if (p.exp) { p.esign = r.pick(signs); p.EZ = r.chance(1, 3) ? r.below(3) : 0; p.ED = 1 + r.below(3); }
    }
    run_of(p, which) = 0;
    const size_t others = exact_run ? 0 : p.planned();
    if (consumed <= others) {            // too short for the extras: white space, one digit, and the run
        const S sg = p.sign;
        const BigFloat::Kind k = p.kind;
        p = BigFloat();
        p.J = junk;
        if (k == BigFloat::NAN_SEQ && consumed >= 5) { p.kind = k; p.N = consumed - 5; return big_float_text(r, p, S()); }
        p.ID = 1;
        if (consumed >= 2 && which == RUN_W) p.W = consumed - 1;
        else if (consumed >= 2) p.IZ = consumed - 1;
        return big_float_text(r, p, S());
    }
    const size_t L = consumed - others;
    run_of(p, which) = L;
    // keep the value inside the range of a double where a decimal exponent can do that, so that digits far inside the text decide it
    S expd;
    if (p.kind == BigFloat::DECIMAL && p.exp && which != RUN_EZ && which != RUN_ED && r.chance(2, 3)) {
        const long shift = which == RUN_ID ? -static_cast<long>(L) : which == RUN_FZ ? static_cast<long>(L) : 0;
        if (shift != 0) {
            const BigFloat before = p;
            const long e = shift + static_cast<long>(r.below(40)) - 20;
            expd = compensating(e);
            p.esign = e < 0 ? "-" : (r.chance(1, 2) ? "+" : "");
            p.ED = expd.size();
            // the exponent's digits are part of what is consumed: take them out of the run
            const size_t was = 1 + before.esign.size() + before.EZ + before.ED, now = 1 + p.esign.size() + p.EZ + p.ED;
            if (exact_run) { }
            else if (L + was > now) run_of(p, which) = L + was - now;
            else { p = before; expd.clear(); }
        }
    }
    return big_float_text(r, p, expd);
}

static double pick_double(Rng &r)
{
    switch (r.below(12)) {
    case 0: { static const double sp[] = {0.0, -0.0, INFINITY, -INFINITY, NAN, -NAN, DBL_MIN, DBL_MAX, -DBL_MAX, DBL_TRUE_MIN, -DBL_TRUE_MIN, DBL_EPSILON,
                                          1.0, -1.0, 0.5, 1.5, 0.1, 123456789.0, 1e15, 1e16, 1e17, 9.999999e5, 999999.5, 1e-5, 9.9999e-5, 1e-4, 4.9e-324, 2.2250738585072009e-308};
              return r.pick(sp); }
    case 1: return std::pow(10.0, static_cast<double>(r.range(-324, 308)));
    case 2: return std::ldexp(1.0, static_cast<int>(r.range(-1074, 1023)));
    case 3: { double p = std::pow(10.0, static_cast<double>(r.range(-30, 70))); return std::nextafter(p, r.chance(1, 2) ? 0.0 : INFINITY); }
    case 4: return static_cast<double>(r.range(-1000000, 1000000)) / 64.0;
    case 5: return -std::pow(10.0, static_cast<double>(r.range(40, 120)));
    case 6: { float f; uint32_t b = static_cast<uint32_t>(r.next()); memcpy(&f, &b, 4); return f; }
    case 7: return static_cast<double>(r.range(-99999, 99999)) * std::pow(10.0, static_cast<double>(r.range(-12, 60)));
    default: { double d; uint64_t b = r.next(); memcpy(&d, &b, 8); return d; }
    }
}

static Spec pick_spec(Rng &r, double v)
{
    Spec s{};
    static const char classes[] = {0, 'f', 'e', 'E'};
    s.cls = r.pick(classes);
    static const int precs[] = {-1, -1, 0, 1, 2, 3, 5, 6, 8, 10, 15, 17, 20, 40, 55, 60, 61, 62, 63, 64, 65, 100, 340, 1000};
    s.precision = r.pick(precs);
    if (r.chance(1, 10)) s.precision = static_cast<int>(r.below(80));
    s.plus = r.chance(1, 3);
    if (r.chance(1, 2)) {
        // width relative to the natural length
        Spec bare = s;
        size_t len = ref_format(bare, v).size();
        static const int deltas[] = {-1, 0, 1, 5, 12};
        int w = static_cast<int>(len) + r.pick(deltas);
        s.width = w > 0 ? w : 1;
        static const char aligns[] = {0, '<', '>'};
        s.align = r.pick(aligns);
        switch (r.below(4)) {
        case 0: { static const char padcs[] = {'*', '_', '.', '#', 'x', '-', '~', ' '}; s.padkind = 1; s.padc = r.pick(padcs); break; }
        case 1:
            // zero padding: position relative to the sign is not fixed by the statement,
            // so only used where there is no sign and the padding goes left
            if (!(v < 0) && !std::signbit(v) && !s.plus && s.align != '<') s.padkind = 2;
            break;
        default: break;
        }
    }
    return s;
}

// ---------------------------------------------------------------- state that survives a call: sequences of renderings / parses
// Rendering a value and parsing a text are functions of (value or text, notation, rounding direction in force during the call);
// nothing an earlier call on the thread did may show.  A sequence step renders ONE value through one entry point under one
// direction and compares it with snprintf under that direction; consecutive steps repeat the value with the direction, the entry
// point, the type, the notation or one bit changed.
enum FVia { F_FORMAT, F_FROM, F_FROM_FLOAT_OF_DOUBLE, F_STREAM, N_FVIA };
static const char *fvia_name(unsigned v)
{
    static const char *const n[] = {"format", "from_double", "from_float(double)", "string_stream"};
    return n[v % N_FVIA];
}
struct Step {
    double v = 0;               // representable as float when as_float
    bool as_float = false;
    char letter = 'g';          // e f g E F G
    int precision = -1;         // used by ST::format only
    unsigned via = F_FROM;      // falls back to from_double / from_float where the entry point has no such notation
    int dir = FE_TONEAREST;
};
static S step_text(const Step &s)
{
    return sfmt("%s %s '%c' precision %d via %s rounding=%s", s.as_float ? "float" : "double", dbl_bits(s.v).c_str(), s.letter, s.precision, fvia_name(s.via), dir_name(s.dir));
}
static unsigned effective_via(const Step &s)
{
    if (s.via == F_FORMAT && (s.letter == 'F' || s.letter == 'G')) return F_FROM;
    if (s.via == F_STREAM && s.letter != 'g') return F_FROM;
    return s.via;
}

// returns what the C library renders (without padding)
static S run_step(const Step &s, const Step *prev, const char *what, bool record)
{
    UseDir use(s.dir);
    const unsigned via = effective_via(s);
    static uint64_t *const per_via[N_FVIA] = {&vrt::counter("memo.via.format"), &vrt::counter("memo.via.from_double"), &vrt::counter("memo.via.from_float(double)"), &vrt::counter("memo.via.string_stream")};
    ++*per_via[via];
    if (via == F_FORMAT) {
        Spec sp{};
        sp.cls = s.letter == 'g' ? 0 : s.letter;
        sp.precision = s.precision;
        return s.as_float ? format_case<float>(sp, static_cast<float>(s.v)) : format_case<double>(sp, s.v);
    }
    if (record) {
        vrt::cur_rewind();
        vrt::cur_printf("%s: %s\n", what, step_text(s).c_str());
    }
    const char pf[3] = {'%', s.letter, 0};
    const float fv = s.as_float ? static_cast<float>(s.v) : 0.0f;
    S want, got;
    {
        Dir in_force;
        want = c_render(pf, s.v);
        switch (via) {
        case F_FROM: got = vrt::str_of(s.as_float ? ST::string::from_float(fv, s.letter) : ST::string::from_double(s.v, s.letter)); break;
        case F_FROM_FLOAT_OF_DOUBLE: got = vrt::str_of(ST::string::from_float(s.v, s.letter)); break;
        default: {
            vrt::Box<ST::string_stream> ss;
            if (s.as_float) *ss << fv; else *ss << s.v;
            got.assign(ss->raw_buffer(), ss->size());
            break;
        }
        }
    }
    vrt::evals();
    if (got != want)
        vrt::violation(sfmt("C13:consecutive:%s:differs-from-printf", fvia_name(via)),
                       sfmt("%s: %s got=%s want=%s; the call right before it on this thread: %s", what, step_text(s).c_str(), got.substr(0, 200).c_str(), want.substr(0, 200).c_str(), prev ? step_text(*prev).c_str() : "(first of the sequence)"));
    count_dir("sequence_steps");
    return want;
}

static bool same_bits(double a, double b) { return memcmp(&a, &b, 8) == 0; }

// what two consecutive steps have in common (counted, so that a run shows which repetitions it produced)
static void classify_steps(const Step &a, const S &wa, const Step &b, const S &wb)
{
    static uint64_t &n = vrt::counter("memo.consecutive_renderings");
    ++n;
    const bool same_value = same_bits(a.v, b.v) && a.as_float == b.as_float, same_notation = a.letter == b.letter && (a.precision == b.precision || (effective_via(a) != F_FORMAT && effective_via(b) != F_FORMAT));
    if (same_value && same_notation) {
        if (a.dir != b.dir) {
            static uint64_t &c = vrt::counter("rounding.same_value_twice_direction_changed_in_between"), &d = vrt::counter("rounding.same_value_twice_and_the_renderings_differ");
            ++c;
            const bool comparable = effective_via(a) == effective_via(b) || (a.precision == -1 && b.precision == -1) || (effective_via(a) != F_FORMAT && effective_via(b) != F_FORMAT);
            if (comparable && wa != wb) ++d;
            if (effective_via(a) == effective_via(b)) { static uint64_t &e = vrt::counter("rounding.same_value_same_entry_point_direction_changed"); ++e; }
        } else if (effective_via(a) != effective_via(b)) {
            static uint64_t &c = vrt::counter("memo.same_value_through_another_entry_point"); ++c;
        } else {
            static uint64_t &c = vrt::counter("memo.identical_rendering_repeated"); ++c;
        }
    } else if (same_value) {
        static uint64_t &c = vrt::counter("memo.same_value_other_notation"); ++c;
    } else if (same_bits(a.v, b.v)) {
        static uint64_t &c = vrt::counter("memo.same_value_as_the_other_type"); ++c;
    } else if (same_bits(a.v, -b.v)) {
        static uint64_t &c = vrt::counter("memo.same_value_other_sign"); ++c;
    }
}

static int other_dir(Rng &r, int d) { int n; do n = DIRS[r.below(4)]; while (n == d); return n; }

static Step next_step(Rng &r, const Step &prev, unsigned kind)
{
    Step s = prev;
    switch (kind) {
    case 0: s.dir = other_dir(r, prev.dir); break;                                                   // only the direction changes
    case 1: s.via = static_cast<unsigned>(r.below(N_FVIA)); break;                                   // another entry point
    case 2: s.dir = other_dir(r, prev.dir); s.via = static_cast<unsigned>(r.below(N_FVIA)); break;   // both
    case 3: break;                                                                                   // the same again
    case 4:                                                                                          // the neighbouring value
        if (s.as_float) s.v = static_cast<double>(std::nextafterf(static_cast<float>(s.v), r.chance(1, 2) ? INFINITY : -INFINITY));
        else s.v = std::nextafter(s.v, r.chance(1, 2) ? INFINITY : -INFINITY);
        break;
    case 5: s.v = -s.v; break;
    case 6:                                                                                          // the same number as the other type
        if (s.as_float) s.as_float = false;
        else if (std::isnan(s.v) || std::isinf(s.v) || std::fabs(s.v) <= 3e38) { s.v = static_cast<double>(static_cast<float>(s.v)); s.as_float = true; }
        break;
    case 7: {                                                                                        // another notation
        static const char letters[] = {'e', 'f', 'g', 'E', 'F', 'G'};
        s.letter = r.pick(letters);
        if (r.chance(1, 2)) s.precision = r.chance(1, 2) ? -1 : static_cast<int>(r.below(25));
        break;
    }
    default: {
        s = Step();
        s.v = pick_double(r);
        s.as_float = r.chance(1, 4) && (std::isnan(s.v) || std::isinf(s.v) || std::fabs(s.v) <= 3e38);
        if (s.as_float) s.v = static_cast<double>(static_cast<float>(s.v));
        static const char letters[] = {'g', 'g', 'g', 'e', 'f', 'E', 'F', 'G'};
        s.letter = r.pick(letters);
        if (s.letter == 'f' || s.letter == 'F') { if (std::fabs(s.v) > 1e40 && r.chance(3, 4)) s.letter = 'g'; }       // keep most renderings short (the long ones have their own phases)
        s.precision = r.chance(2, 3) ? -1 : static_cast<int>(r.below(25));
        s.via = static_cast<unsigned>(r.below(N_FVIA));
        s.dir = r.chance(1, 2) ? FE_TONEAREST : DIRS[r.below(4)];
        break;
    }
    }
    return s;
}

// ---- texts
// a decimal / hexadecimal / special text of exactly n bytes (n >= 8) that is consumed completely: blanks, sign, digits, point, digits, exponent
static S float_text(Rng &r, size_t n)
{
    S t;
    if (r.chance(1, 12)) {          // far outside the range: the result depends on the direction (largest finite / infinity, smallest subnormal / zero)
        t = r.chance(1, 2) ? "1e400" : "1e-400";
        if (r.chance(1, 2)) t.insert(0, "-");
        t.insert(0, n > t.size() ? n - t.size() : 0, ' ');
        return t;
    }
    const size_t blanks = r.chance(1, 3) ? r.below(n / 3) : 0;
    t.append(blanks, ' ');
    if (r.chance(1, 3)) t += r.chance(1, 2) ? '-' : '+';
    S ex;
    if (r.chance(1, 2)) ex = sfmt("e%+03d", static_cast<int>(r.range(-320, 300)));
    const bool hex = r.chance(1, 10);
    if (hex) { t += "0x"; ex = r.chance(1, 2) ? sfmt("p%+d", static_cast<int>(r.range(-1080, 1000))) : S(); }
    size_t room = n > t.size() + ex.size() ? n - t.size() - ex.size() : 1;
    const size_t point = r.chance(1, 6) ? room : r.below(room);        // where the point goes (room: none)
    for (size_t i = 0; i < room; ++i) {
        if (i == point && i + 1 < room) { t += '.'; continue; }
        const unsigned d = static_cast<unsigned>(r.below(hex ? 16 : 10));
        t += static_cast<char>(d < 10 ? '0' + d : 'a' + d - 10);
    }
    t += ex;
    return t;
}

// 3..6 texts of exactly n bytes with the same first and last `share` bytes; the middles differ in what decides the result
static std::vector<S> sibling_floats(Rng &r, size_t n, size_t &share)
{
    share = std::min<size_t>(16, (n - 4) / 2);
    S head;
    {
        const size_t blanks = r.chance(1, 2) ? 0 : r.below(share);
        head.append(blanks, ' ');
        if (head.size() < share && r.chance(1, 2)) head += r.chance(1, 2) ? '-' : '+';
        const bool early_point = r.chance(1, 2);
        while (head.size() < share) head += (early_point && head.size() + 1 == share) ? '.' : static_cast<char>(r.chance(1, 2) ? '0' : '1' + r.below(9));
    }
    S tail;
    switch (r.below(3)) {
    case 0: for (size_t i = 0; i < share; ++i) tail += static_cast<char>('0' + r.below(10)); break;                 // digits to the end
    case 1: { const S ex = sfmt("e%+03d", static_cast<int>(r.range(-99, 99))); for (size_t i = 0; i + ex.size() < share; ++i) tail += static_cast<char>('0' + r.below(10)); tail += ex; tail.resize(share, '0'); break; }
    default: for (size_t i = 0; i < share; ++i) tail += "xyz _,g"[r.below(7)]; break;                                  // bytes behind the place where the C library stops
    }
    const size_t mid = n - 2 * share;
    const size_t count = 3 + r.below(4);
    std::vector<S> out;
    S m0;
    for (size_t i = 0; i < mid; ++i) m0 += static_cast<char>('0' + r.below(10));
    for (size_t k = 0; k < count; ++k) {
        S m = m0;
        if (mid) {
            const size_t at = r.below(mid);
            switch (r.below(7)) {
            case 0: m[at] = static_cast<char>(m[at] == '9' ? '0' : m[at] + 1); break;         // another digit
            case 1: m[at] = '.'; break;                                                        // a (second?) point
            case 2: m[at] = 'e'; break;                                                        // an exponent starts here
            case 3: m[at] = "x ,_"[r.below(4)]; break;                                         // the number stops here
            case 4: m[at] = '\0'; break;
            case 5: m[0] = 'z'; break;                                                         // little or nothing to convert
            default: for (size_t i = 0; i < mid; ++i) m[i] = static_cast<char>('0' + r.below(10)); break;
            }
        }
        out.push_back(head + m + tail);
    }
    return out;
}

// puts `t` into `cur` in one of four ways; three of them aim at the address the previous text had
static void store_text(std::optional<vrt::Box<ST::string>> &cur, const S &t, unsigned how)
{
    if (!cur) { cur.emplace(vrt::mk(t)); return; }
    switch (how % 4) {
    case 0: **cur = vrt::mk(t); break;                                                                                               // assigned
    case 1: vrt::placement_force_parks() = 1; **cur = ST::string(); **cur = vrt::mk(t); vrt::placement_force_parks() = 0; break;     // emptied (block parked), assigned (block taken again)
    default: vrt::placement_force_parks() = 2; cur.reset(); cur.emplace(vrt::mk(t)); vrt::placement_force_parks() = 0; break;        // destroyed and rebuilt at once
    }
}

static void body()
{
    ambient::enable(3);
    vrt::box_shifts() = true;
    vrt::require("format.calls", 10000);
    vrt::require("format.padded", 1000);
    vrt::require("format.rendering_64_or_longer", 500);
    vrt::require("format.rendering_len_63", 5);
    vrt::require("format.rendering_len_64", 5);
    vrt::require("format.rendering_len_65", 5);
    vrt::require("mini.values", 1000);
    vrt::require("mini.rendering_64_or_longer", 100);
    vrt::require("mini.rendering_len_64", 3);
    vrt::require("parse.full_match", 1000);
    vrt::require("parse.partial", 1000);
    vrt::require("parse.no_match", 100);
    vrt::require("parse.float_differs_from_rounded_double", 20);

    // renderings of every length around the 64-byte scratch buffers
    vrt::phase("len_sweep", 200, [&](uint64_t i, Rng &) {
      for (int dir : DIRS) {                        // ... under each rounding direction
        UseDir use(dir);
        int p = static_cast<int>(i % 100);          // precision 0..99
        bool plus = i >= 100;
        for (char cls : {'f', 'e', 'E', char(0)}) {
            for (double v : {1.5, -1.5, 0.0, 1e10, 123456.789, 1e-7, 1e300}) {
                format_case(Spec{cls, p, plus, 0, 0, 0, 0}, v);
                format_case(Spec{cls, p, plus, 0, 0, 0, 0}, static_cast<float>(v > 1e38 ? 1e38 : v));
            }
        }
        // {f} of 10^k: 1 digit per power
        if (i < 100) {
            double v = std::pow(10.0, static_cast<double>(i));
            format_case(Spec{'f', -1, false, 0, 0, 0, 0}, v);
            format_case(Spec{'f', 0, true, 0, 0, 0, 0}, v);
            format_case(Spec{'f', 3, true, 0, 0, 0, 0}, -v);
            mini_case<double>(v);
            mini_case<double>(-v);
            mini_case<double>(v * 1.25);
            if (i < 39) mini_case<float>(static_cast<float>(v));
        }
      }
        vrt::distinct(vrt::fnv_u64(i, 62));
    });

    // precision INT_MAX: snprintf itself fails (EOVERFLOW) and the library aborts - known finding K2
    vrt::phase("libc_precision_limit", 1, [&](uint64_t, Rng &) {
        vrt::st().assert_throws = true;
        vrt::evals();
        try {
            ST::string s = ST::format("{.2147483647f}", 1.0);
            (void)s;
        } catch (const vrt::assertion_reached &a) {
            vrt::violation(sfmt("C13:format:aborts:%s", a.message.c_str()), "ST::format(\"{.2147483647f}\", 1.0): snprintf returns -1 (EOVERFLOW) and the library asserts");
        } catch (const std::exception &) { }
        vrt::st().assert_throws = false;
    });

    vrt::phase("format_random", vrt::tier_count(400000, 10000000), [&](uint64_t i, Rng &r) {
        double v = pick_double(r);
        Spec s = pick_spec(r, v);
        UseDir use(dir_of_case(i, 1));
        if (r.chance(1, 4)) format_case<float>(s, static_cast<float>(v));
        else format_case<double>(s, v);
        uint64_t b;
        memcpy(&b, &v, 8);
        S st = spec_text(s);
        vrt::distinct(vrt::fnv_u64(b, vrt::fnv1a(st.data(), st.size(), 63)));
        if (vrt::want_sample("format_random") && s.width && s.precision > 3) vrt::sample("format_random", sfmt("ST::format(\"%s\", %s) == \"%s\"", st.c_str(), dbl_bits(v).c_str(), ref_format(s, v).substr(0, 120).c_str()));
    });

    vrt::phase("mini_random", vrt::tier_count(150000, 4000000), [&](uint64_t i, Rng &r) {
        double v = pick_double(r);
        UseDir use(dir_of_case(i, 2));
        if (r.chance(1, 3)) mini_case<float>(static_cast<float>(v));
        else mini_case<double>(v);
        uint64_t b;
        memcpy(&b, &v, 8);
        vrt::distinct(vrt::fnv_u64(b, 64));
    });

    vrt::phase("parse_directed", 1, [&](uint64_t, Rng &) {
        static const char *const texts[] = {"", " ", "0", "-0", "+0", "1", "1.", ".5", "-.5", ".", "e5", "1e", "1e+", "1e5", "1E-5", "1e400", "-1e400", "1e-400", "inf", "-inf", "INF", "infinity",
                                            "infinit", "nan", "NaN", "nan(123)", "nan(", "0x1p3", "0x1.8p1", "0x", "0x.p1", "1.5f", "  2.5", "2.5  ", "\t\n3", "1,5", "1.7976931348623157e308",
                                            "1.7976931348623159e308", "4.9406564584124654e-324", "2.4703282292062327e-324", "2.4703282292062328e-324", "3.4028234664e38", "3.4028235677973366e38",
                                            "1.401298464324817e-45", "7.006492321624085e-46", "1.0000000596046447753906250", "1.0000000596046447753906251", "1.0000000596046447753906249",
                                            "16777217", "16777216.999999999", "9007199254740993", "0.1", "0.30000000000000004", "123abc", "abc", "--1", "+-1", "1e5e5", "1.2.3", "true"};
        for (int dir : DIRS) {
            UseDir use(dir);
            for (const char *t : texts) parse_case(t);
            parse_case(S("1.5\0", 4));
            parse_case(S("1.5\0" "7", 5));
            parse_case(S("\0" "1.5", 4));
            parse_case(S("12\0\0", 4));
        }
    });

    vrt::phase("parse_random", vrt::tier_count(300000, 8000000), [&](uint64_t i, Rng &r) {
        S t;
        switch (r.below(6)) {
        case 0: case 1: {
            // a decimal text right beside the midpoint of two adjacent floats (double rounding shows here)
            uint32_t bits = static_cast<uint32_t>(r.below(0x7f000000u - 0x00800000u)) + 0x00800000u;
            float f;
            memcpy(&f, &bits, 4);
            float g = std::nextafterf(f, INFINITY);
            double mid = (static_cast<double>(f) + static_cast<double>(g)) / 2;      // exact in double
            t = c_render("%.70e", mid);                                                // exact decimal expansion (<= 53 bits)
            size_t e = t.find('e');
            S mant = t.substr(0, e), ex = t.substr(e);
            while (mant.size() > 3 && mant.back() == '0') mant.pop_back();
            switch (r.below(3)) {
            case 0: mant += "0000000000000000000001"; break;      // just above the tie
            case 1: {                                            // just below the tie
                size_t k = mant.size() - 1;
                while (mant[k] == '0' || mant[k] == '.') --k;
                mant[k] = static_cast<char>(mant[k] - 1);
                mant += "9999999999999999999999";
                break;
            }
            default: break;                                      // exactly the tie
            }
            t = mant + ex;
            if (r.chance(1, 2)) t.insert(0, "-");
            break;
        }
        case 2: t = c_render(r.chance(1, 2) ? "%.17g" : "%.9g", pick_double(r)); break;
        case 3: t = c_render("%a", pick_double(r)); break;
        default: {
            static const char *const pieces[] = {"", " ", "-", "+", "0", "1", "9", ".", "e", "E", "e-", "e+", "5", "00", "inf", "nan", "0x", "p", "x", "1.5", "308", "400", "\t"};
            size_t n = 1 + r.below(7);
            for (size_t i = 0; i < n; ++i) t += r.pick(pieces);
            if (r.chance(1, 10)) { t.push_back('\0'); t += "5"; }
            break;
        }
        }
        if (r.chance(1, 8)) { static const char *const tails[] = {"x", " ", "f", "e", "..", "\xc3\xa9"}; t += r.pick(tails); }
        UseDir use(dir_of_case(i, 3));
        parse_case(t);
        if (vrt::want_sample("parse_random") && t.size() > 30) vrt::sample("parse_random", "text=" + t);
    });
    // scale: texts of several KiB up to ~1 MiB.  The case index walks a grid: block size B x multiple q x what is measured in
    // multiples of B (the length the C library consumes / the total length / the length of what follows the number / the position
    // of an embedded NUL / the length of one run: white space, leading zeros, integer digits, zeros after the point, fraction
    // digits, zeros in the exponent, exponent digits, the nan(...) sequence); every grid point is tried on the multiple and next to it
    {
        vrt::require("scale.parse_texts", 1000);
        vrt::require("scale.consumed>=64KiB", 100);
        vrt::require("scale.consumed_is_multiple_of_256", 100);
        vrt::require("scale.consumed_is_multiple_of_65536", 20);
        vrt::require("scale.full_match>=64KiB", 20);
        vrt::require("scale.full_match_on_multiple_of_65536", 3);
        vrt::require("scale.total_is_multiple_of_65536", 10);
        vrt::require("scale.embedded_NUL_beyond_64KiB", 10);
        vrt::require("scale.finite_nonzero_value_from_text>=4KiB", 100);
        vrt::require("scale.mantissa>=1000_digits", 100);
        vrt::require("scale.exponent>=1000_digits", 20);
        vrt::require("scale.text>=256KiB", 20);
        const std::vector<size_t> &BL = scale::blocks();
        const size_t grid = BL.size() * 8, origins = 5;
        vrt::phase("scale_parse", vrt::tier_count(grid * origins * 2, grid * origins * 40), [&](uint64_t i, Rng &r) {
            const size_t B = BL[i % BL.size()], q = 1 + (i / BL.size()) % 8;
            const unsigned origin = static_cast<unsigned>((i / grid) % origins);
            const size_t T = q * B;
            if (T > 1310720) { vrt::count("scale.skipped_too_large"); return; }
            static const char *const oname[] = {"consumed length", "total length", "length after the number", "position of an embedded NUL", "length of one run"};
            UseDir use(dir_of_case(i, 4));      // in force inside parse_case only (digits far inside a long text decide the last bit differently under each direction)
            const long nudges[4] = {0, -1, 1, r.chance(1, 2) ? static_cast<long>(2 + r.below(8)) : -static_cast<long>(2 + r.below(8))};
            for (long d : nudges) {
                if (static_cast<long>(T) + d < 1) continue;
                const size_t t = static_cast<size_t>(static_cast<long>(T) + d);
                const size_t some = r.chance(1, 3) ? r.below(40) : r.chance(1, 2) ? 1000 + r.below(70000) : 131072 + r.below(140000);
                unsigned which = static_cast<unsigned>(r.below(N_RUNS));
                BigFloat p;
                S text;
                switch (origin) {
                case 0:                     // the C library stops after t characters
                    text = plan_big_float(r, p, t, which, r.chance(1, 4) ? 0 : 1 + some);
                    break;
                case 1: {                   // the text is t characters long; nothing, little or a lot follows the number
                    size_t j = r.chance(1, 2) ? 0 : r.chance(1, 2) ? 1 + r.below(9) : 1 + r.below(t);
                    if (j >= t) j = t - 1;
                    text = plan_big_float(r, p, t - j, which, j);
                    break;
                }
                case 2:                     // t characters follow the number
                    if (r.chance(1, 6)) {   // ... among them an unterminated nan( sequence: only "nan" counts
                        p = BigFloat();
                        p.kind = BigFloat::NAN_SEQ;
                        p.close = false;
                        p.N = t - 1;
                        p.W = r.below(3);
                        text = big_float_text(r, p, S());
                    } else if (r.chance(1, 6)) {
                        p = BigFloat();
                        p.kind = BigFloat::INF;
                        p.long_inf = r.chance(1, 2);
                        p.W = r.chance(1, 2) ? 0 : scale::length(r, 200000, 1);
                        p.J = t;
                        text = big_float_text(r, p, S());
                    } else
                        text = plan_big_float(r, p, r.chance(1, 2) ? 1 + r.below(40) : scale::length(r, 300000, 1), which, t);
                    break;
                case 3:                     // a NUL at offset t, the same kind of characters on both sides of it
                    text = plan_big_float(r, p, t, which, 0);
                    text.push_back('\0');
                    put_run(r, text, 1 + some, which == RUN_W ? " " : which == RUN_N ? "0123456789abcdefXYZ_" : "0123456789", false);
                    if (which == RUN_N) text += ')';
                    break;
                default: {                  // one run is exactly t long
                    which = static_cast<unsigned>((i + i / BL.size()) % N_RUNS);
                    text = plan_big_float(r, p, t, which, r.chance(1, 2) ? 0 : 1 + r.below(300), true);
                    if (run_of(p, which) == t) vrt::count(std::string("scale.run_of_exact_length.") + run_names[which]);
                    break;
                }
                }
                // what the C library makes of it (bookkeeping only; parse_case asks the C library itself)
                char *endp = nullptr;
                const double val = strtod(text.c_str(), &endp);
                const size_t consumed = static_cast<size_t>(endp - text.c_str());
                parse_case(text);
                vrt::count("scale.parse_texts");
                vrt::count(consumed == p.planned() ? "scale.consumed_as_planned" : "scale.consumed_other_than_planned");
                if (consumed >= 65536) vrt::count("scale.consumed>=64KiB");
                if (consumed && consumed % 256 == 0) vrt::count("scale.consumed_is_multiple_of_256");
                if (consumed && consumed % 65536 == 0) vrt::count("scale.consumed_is_multiple_of_65536");
                if (consumed == text.size() && consumed >= 65536) vrt::count("scale.full_match>=64KiB");
                if (consumed == text.size() && consumed % 65536 == 0) vrt::count("scale.full_match_on_multiple_of_65536");
                if (text.size() % 65536 == 0) vrt::count("scale.total_is_multiple_of_65536");
                if (text.size() >= 262144) vrt::count("scale.text>=256KiB");
                { const size_t z = text.find('\0'); if (z != S::npos && z >= 65536) vrt::count("scale.embedded_NUL_beyond_64KiB"); }
                if (consumed >= 4096 && std::isfinite(val) && val != 0) vrt::count("scale.finite_nonzero_value_from_text>=4KiB");
                if (p.kind != BigFloat::NAN_SEQ && p.kind != BigFloat::INF && p.ID + p.FD >= 1000) vrt::count("scale.mantissa>=1000_digits");
                if (p.exp && p.EZ + p.ED >= 1000) vrt::count("scale.exponent>=1000_digits");
                if (p.kind == BigFloat::HEX) vrt::count("scale.hexadecimal_text");
                if (p.kind == BigFloat::NAN_SEQ) vrt::count("scale.nan_sequence_text");
                if (vrt::want_sample("scale"))
                    vrt::sample("scale", sfmt("parse: text %s: %zu blanks, sign '%s', %s, %zu+%zu integer / %zu+%zu fraction zeros+digits, exponent %zu+%zu, nan sequence %zu, %zu more bytes; %s%s%s = %zu x %zu %+ld; the C library consumes %zu",
                                              scale::brief(text).c_str(), p.W, p.sign.c_str(), p.kind == BigFloat::HEX ? "hexadecimal" : p.kind == BigFloat::NAN_SEQ ? "nan(...)" : p.kind == BigFloat::INF ? "inf" : "decimal",
                                              p.IZ, p.ID, p.FZ, p.FD, p.exp ? p.EZ : 0, p.exp ? p.ED : 0, p.N, text.size() - std::min(text.size(), p.planned()), oname[origin],
                                              origin == 4 ? ": " : "", origin == 4 ? run_names[which] : "", q, B, d, consumed));
            }
            vrt::count(sfmt("scale.measured.%s", oname[origin]));
        });
    }
    // scale: precisions and widths from 300 to 10^5 (a few to 2^20), the precision / the length of the rendering / the width / the
    // offset in the output where the field starts / ends on and next to q x B; fresh outputs and outputs that already hold
    // up to 1 MiB (literal text or a string argument in front of the field)
    {
        vrt::require("scale.format_cases", 1000);
        vrt::require("scale.precision>=300", 1000);
        vrt::require("scale.precision>=65536", 40);
        vrt::require("scale.precision>=1000000", 2);
        vrt::require("scale.width>=1000", 300);
        vrt::require("scale.width>=65536", 20);
        vrt::require("scale.padding>=4096", 100);
        vrt::require("scale.rendering_length_is_multiple_of_256", 50);
        vrt::require("scale.rendering_length_is_multiple_of_65536", 5);
        vrt::require("scale.field_behind>=64KiB", 50);
        const std::vector<size_t> &BL = scale::blocks();
        const size_t grid = BL.size() * 8, origins = 5;
        vrt::phase("scale_format", vrt::tier_count(grid * origins * 2, grid * origins * 40), [&](uint64_t i, Rng &r) {
            const size_t B = BL[i % BL.size()], q = 1 + (i / BL.size()) % 8;
            const unsigned origin = static_cast<unsigned>((i / grid) % origins);
            const size_t T = q * B;
            if (T > 1100000) { vrt::count("scale.skipped_too_large"); return; }
            static const char *const oname[] = {"precision", "length of the rendering", "width", "offset where the field starts", "offset where the field ends"};
            UseDir use(dir_of_case(i, 5));      // in force inside format_case only
            long nudges[4] = {0, -1, 1, r.chance(1, 2) ? static_cast<long>(2 + r.below(8)) : -static_cast<long>(2 + r.below(8))};
            const size_t tries = T > 140000 ? 1 : 4;       // the very big ones once, on or next to the multiple
            if (tries == 1) nudges[0] = nudges[r.below(3)];
            for (size_t n = 0; n < tries; ++n) {
                const long d = nudges[n];
                if (static_cast<long>(T) + d < 1) continue;
                const int t = static_cast<int>(static_cast<long>(T) + d);
                double v;
                if (r.chance(1, 2)) v = pick_double(r);
                else { static const double sp[] = {1.5, -0.0, 0.0, DBL_MAX, -DBL_MAX, DBL_TRUE_MIN, 1e-300, 0.1, -2.5e-7, 123456789.125, 1e22, 9.5, 0.5, INFINITY, NAN}; v = r.pick(sp); }
                const bool as_float = r.chance(1, 4);
                if (as_float) v = static_cast<double>(static_cast<float>(v));
                Spec s{};
                static const char classes[] = {0, 'f', 'e', 'E'};
                s.cls = r.pick(classes);
                s.plus = r.chance(1, 3);
                auto padded_to = [&](int width) {
                    s.width = width > 0 ? width : 1;
                    static const char aligns[] = {0, '<', '>'};
                    s.align = r.pick(aligns);
                    switch (r.below(4)) {
                    case 0: { static const char padcs[] = {'*', '_', '.', '#', 'x', '-', '~', ' '}; s.padkind = 1; s.padc = r.pick(padcs); break; }
                    case 1: if (!(v < 0) && !std::signbit(v) && !s.plus && s.align != '<') s.padkind = 2; break;     // as in pick_spec
                    default: break;
                    }
                };
                auto some_precision = [&]() -> int { return r.chance(1, 3) ? static_cast<int>(r.range(-1, 20)) : r.chance(1, 2) ? 300 + static_cast<int>(r.below(3000)) : static_cast<int>(scale::length(r, 100000, 300)); };
                auto natural = [&]() -> size_t { Spec bare = s; bare.width = 0; return ref_format(bare, v).size(); };
                S prefix;
                switch (origin) {
                case 0:
                    s.precision = t;
                    if (r.chance(1, 2)) { static const int deltas[] = {-1, 0, 1, 5, 12, 300, 4096, 70000}; padded_to(static_cast<int>(natural()) + r.pick(deltas)); }
                    break;
                case 1: {
                    if (s.cls == 0) s.cls = 'f';
                    s.precision = 1;
                    const long over = static_cast<long>(natural()) - 1;
                    s.precision = t > over ? static_cast<int>(t - over) : t;
                    if (r.chance(1, 2)) { static const int deltas[] = {-1, 0, 1, 2, 255, 256, 4096}; padded_to(t + r.pick(deltas)); }
                    break;
                }
                case 2:
                    s.precision = r.chance(1, 4) ? std::max(0, t - 10 + static_cast<int>(r.below(20))) : some_precision();
                    padded_to(t);
                    break;
                default: {
                    s.precision = some_precision();
                    if (r.chance(1, 2)) { static const int deltas[] = {-1, 1, 12, 300, 4096, 70000}; padded_to(static_cast<int>(natural()) + r.pick(deltas)); }
                    const size_t field = std::max<size_t>(natural(), static_cast<size_t>(s.width)) + 1;      // '[' and the padded rendering
                    const size_t len = origin == 3 ? static_cast<size_t>(t) : static_cast<size_t>(t) > field ? static_cast<size_t>(t) - field : 0;
                    prefix = position_pattern(len, r.chance(1, 4) ? 'p' : 0);
                    break;
                }
                }
                const bool as_argument = r.chance(1, 2);
                if (as_float) format_case<float>(s, static_cast<float>(v), prefix, as_argument);
                else format_case<double>(s, v, prefix, as_argument);
                const size_t rl = natural();
                vrt::count("scale.format_cases");
                if (s.precision >= 300) vrt::count("scale.precision>=300");
                if (s.precision >= 65536) vrt::count("scale.precision>=65536");
                if (s.precision >= 1000000) vrt::count("scale.precision>=1000000");
                if (s.width >= 1000) vrt::count("scale.width>=1000");
                if (s.width >= 65536) vrt::count("scale.width>=65536");
                if (static_cast<size_t>(s.width) >= rl + 4096) vrt::count("scale.padding>=4096");
                if (rl >= 256 && rl % 256 == 0) vrt::count("scale.rendering_length_is_multiple_of_256");
                if (rl >= 65536 && rl % 65536 == 0) vrt::count("scale.rendering_length_is_multiple_of_65536");
                if (prefix.size() >= 65536) vrt::count("scale.field_behind>=64KiB");
                if (vrt::want_sample("scale_format"))
                    vrt::sample("scale_format", sfmt("ST::format(<%zu bytes>\"[%s]\", %s %s): rendering of %zu bytes; %s = %zu x %zu %+ld", prefix.size(), spec_text(s).c_str(), as_float ? "float" : "double", dbl_bits(v).c_str(), rl, oname[origin], q, B, d));
            }
            vrt::count(sfmt("scale.format_measured.%s", oname[origin]));
        });
    }
    // scale: << double / << float into streams that already hold 4 KiB .. 1 MiB, the rendering ending or starting on and next to
    // q x B bytes (every capacity the stream goes through is among them), the text before it put there in one piece, in many
    // pieces, left over in a buffer that was bigger once, as thousands of numbers, or in a stream that was moved
    {
        vrt::require("scale.stream_cases", 100);
        vrt::require("scale.stream>=64KiB", 50);
        vrt::require("scale.stream>=1MiB", 2);
        vrt::require("scale.consecutive_number_inserts", 10000);
        const std::vector<size_t> &BL = scale::blocks();
        const size_t grid = BL.size() * 8;
        vrt::phase("scale_stream", vrt::tier_count(grid * 4, grid * 100), [&](uint64_t i, Rng &r) {
            const size_t B = BL[i % BL.size()], q = 1 + (i / BL.size()) % 8;
            const size_t k = i / grid;
            const unsigned history = static_cast<unsigned>((k + i) % N_HISTORIES);
            const bool end_anchored = (i / BL.size() + k) % 2 == 0;
            const size_t T = q * B;
            if (T > 1310720) { vrt::count("scale.skipped_too_large"); return; }
            const double v = pick_double(r);
            const bool as_float = r.chance(1, 3);
            UseDir use(dir_of_case(i, 6));      // in force around the reference rendering and the insertion only
            vrt::cur_rewind();
            vrt::cur_printf("scale_stream value=%s as %s mark=%zu x %zu rendering %s there, history=%s\n", dbl_bits(v).c_str(), as_float ? "float" : "double", q, B, end_anchored ? "ends" : "starts", history_name(history));
            const char pattern = static_cast<char>(r.chance(1, 4) ? 'p' : 0);
            if (as_float) nearly_full_stream<float>(static_cast<float>(v), T, end_anchored, history, pattern, &r);
            else nearly_full_stream<double>(v, T, end_anchored, history, pattern, &r);
            vrt::count("scale.stream_cases");
            vrt::count(sfmt("scale.stream_history.%s", history_name(history)));
            if (T >= 65536) vrt::count("scale.stream>=64KiB");
            if (T >= 1048576) vrt::count("scale.stream>=1MiB");
            if (vrt::want_sample("scale_stream"))
                vrt::sample("scale_stream", sfmt("%s %s streamed behind text so that its rendering %s at %zu x %zu -1..+1 bytes; the text before it: %s", as_float ? "float" : "double", dbl_bits(v).c_str(),
                                                 end_anchored ? "ends" : "starts", q, B, history_name(history)));
        });
    }
    // ---- rounding direction, directed: values whose renderings are ties or inexact at the usual precisions, every notation x a ladder
    // of precisions x sign flag, under each of the four directions (format_case / mini_case set the direction around the reference
    // call and the library call only)
    {
        vrt::require("rounding.format_calls.upward", 10000);
        vrt::require("rounding.format_calls.downward", 10000);
        vrt::require("rounding.format_calls.toward-zero", 10000);
        vrt::require("rounding.mini_values.upward", 1000);
        vrt::require("rounding.mini_values.downward", 1000);
        vrt::require("rounding.mini_values.toward-zero", 1000);
        vrt::require("rounding.parsed_texts.upward", 10000);
        vrt::require("rounding.parsed_texts.downward", 10000);
        vrt::require("rounding.parsed_texts.toward-zero", 10000);
        vrt::require("rounding.format_rendering_differs_from_to_nearest", 10000);
        vrt::require("rounding.mini_rendering_differs_from_to_nearest", 1000);
        vrt::require("rounding.strtod_differs_from_to_nearest", 5000);
        vrt::require("rounding.strtof_differs_from_to_nearest", 5000);
        static const double directed[] = {0.25, 0.5, 1.5, 2.5, 3.5, 0.125, 0.375, 0.625, 0.1, 0.2, 0.3, 0.7, 1.0 / 3, 2.0 / 3, 1e-7, 1e23, 1e22, 9.5, 0.95, 0.995, 9.9999995, 999999.5, 99999.95, 1234567.0, 1234565.0,
                                          123456789.0, 4.9406564584124654e-324, 1.7976931348623157e308, 2.2250738585072014e-308, 0.10000000149011612 /* 0.1f */, 16777217.0, 3.141592653589793, 2.675, 1.005, 8.345,
                                          5e-5, 9.9999995e-5, 0.000123456789, 1e15 + 0.5, 4503599627370497.5, 1e300, 6.02214076e23, 1.0, 0.0};
        const size_t nd = sizeof(directed) / sizeof(directed[0]);
        vrt::phase("rounding_directed", nd * 2 + vrt::tier_count(40, 2000), [&](uint64_t i, Rng &r) {
            double v = i < nd * 2 ? directed[i / 2] : pick_double(r);
            if (i < nd * 2 && i % 2) v = -v;
            static const int precs[] = {-1, 0, 1, 2, 3, 5, 6, 7, 10, 15, 16, 17, 20, 25, 40, 64, 100};
            for (int dir : DIRS) {
                UseDir use(dir);
                for (int p : precs)
                    for (char cls : {char(0), 'f', 'e', 'E'})
                        for (int plus = 0; plus < 2; ++plus) {
                            format_case<double>(Spec{cls, p, plus != 0, 0, 0, 0, 0}, v);
                            if (std::fabs(v) <= 3e38) format_case<float>(Spec{cls, p, plus != 0, 0, 0, 0, 0}, static_cast<float>(v));
                        }
                mini_case<double>(v);
                if (std::fabs(v) <= 3e38) mini_case<float>(static_cast<float>(v));
                // the decimal renderings of the value, parsed back under each direction
                for (const char *f : {"%.17g", "%.9g", "%.20e", "%.3f", "%a"}) parse_case(c_render(f, v));
            }
            uint64_t b;
            memcpy(&b, &v, 8);
            vrt::distinct(vrt::fnv_u64(b, 65));
            if (vrt::want_sample("rounding_directed")) vrt::sample("rounding_directed", sfmt("%s in every notation x 17 precisions x sign flag, from_float/from_double/string_stream, and its decimal renderings parsed back, under each of the four rounding directions", dbl_bits(v).c_str()));
        });
    }
    // ---- sequences: the same value rendered / the same text parsed again with the rounding direction, the entry point (ST::format,
    // from_double / from_float, string_stream: three paths that could share scratch state), the type or one bit changed
    {
        vrt::require("memo.consecutive_renderings", 500000);
        vrt::require("rounding.same_value_twice_direction_changed_in_between", 50000);
        vrt::require("rounding.same_value_same_entry_point_direction_changed", 20000);
        vrt::require("rounding.same_value_twice_and_the_renderings_differ", 20000);
        vrt::require("memo.same_value_through_another_entry_point", 20000);
        vrt::require("memo.identical_rendering_repeated", 20000);
        vrt::require("memo.same_value_other_notation", 20000);
        vrt::require("memo.same_value_as_the_other_type", 5000);
        vrt::require("memo.same_value_other_sign", 5000);
        vrt::require("memo.via.format", 100000);
        vrt::require("memo.via.from_double", 100000);
        vrt::require("memo.via.from_float(double)", 100000);
        vrt::require("memo.via.string_stream", 100000);
        vrt::require("memo.same_text_parsed_twice_direction_changed_in_between", 20000);
        vrt::require("memo.same_text_twice_and_the_results_differ", 5000);
        vrt::require("memo.text_at_the_address_of_the_previous_one", 50000);

        // every ordered pair of directions x every ordered pair of entry points x notation, on direction-sensitive values
        vrt::phase("rounding_pairs", vrt::tier_count(96, 3000), [&](uint64_t i, Rng &r) {
            static const double vals[] = {0.1, 0.25, 2.5, 1.0 / 3, 1e-7, 123456789.0, 0.3, 1e23, 999999.5, 4.9406564584124654e-324, 1.7976931348623157e308, 0.10000000149011612};
            double v = i < 24 ? vals[i / 2] : pick_double(r);
            if (i % 2) v = -v;
            const bool as_float = i % 3 == 2 && (std::isnan(v) || std::isinf(v) || std::fabs(v) <= 3e38);
            if (as_float) v = static_cast<double>(static_cast<float>(v));
            for (char letter : {'g', 'e', 'f', 'E', 'G', 'F'}) {
                if ((letter == 'f' || letter == 'F') && std::fabs(v) > 1e60) continue;
                for (int precision : {-1, 1})
                    for (int d1 : DIRS)
                        for (int d2 : DIRS)
                            for (unsigned e1 = 0; e1 < N_FVIA; ++e1)
                                for (unsigned e2 = 0; e2 < N_FVIA; ++e2) {
                                    if (precision != -1 && e1 != F_FORMAT && e2 != F_FORMAT) continue;
                                    Step a;
                                    a.v = v; a.as_float = as_float; a.letter = letter; a.precision = precision; a.via = e1; a.dir = d1;
                                    Step b = a;
                                    b.via = e2; b.dir = d2;
                                    const S wa = run_step(a, nullptr, "pair", true);
                                    const S wb = run_step(b, &a, "pair", true);
                                    classify_steps(a, wa, b, wb);
                                }
            }
            uint64_t bits;
            memcpy(&bits, &v, 8);
            vrt::distinct(vrt::fnv_u64(bits, 66));
            if (vrt::want_sample("rounding_pairs")) vrt::sample("rounding_pairs", sfmt("%s rendered twice in a row: 16 ordered pairs of rounding directions x 16 ordered pairs of entry points (format, from_double, from_float(double), string_stream) x 6 notations", dbl_bits(v).c_str()));
        });

        // soak: chains of > 70000 renderings inside ONE case, each related to the one before (the same value under another direction /
        // through another entry point / as the other type / negated / one ulp away / in another notation) or fresh; runs of 64..300
        // identical renderings followed directly by one with only the direction or the last bit changed
        vrt::require("soak.renderings", 4000000);
        vrt::require("soak.boring_runs_then_a_change", 2000);
        vrt::phase("soak_render", vrt::thorough() ? 160 : 16, [&](uint64_t, Rng &r) {
            const size_t per_segment = static_cast<size_t>(vrt::tier_count(70000, 120000));
            uint64_t done = 0;
            Step prev = next_step(r, Step(), 99);
            S wprev = run_step(prev, nullptr, "soak", true);
            for (unsigned segment = 0; segment < 5; ++segment) {       // format only, from_double / from_float only, from_float(double) only, string_stream only, mixed
                size_t boring = 0;
                bool change_next = false;
                for (size_t it = 0; it < per_segment; ++it) {
                    unsigned kind;
                    if (boring) { kind = 3; if (--boring == 0) change_next = true; }
                    else if (change_next) { kind = r.chance(2, 3) ? 0 : 4; change_next = false; vrt::count("soak.boring_runs_then_a_change"); }
                    else if (r.chance(1, 600)) { kind = 99; boring = 64 + r.below(237); }
                    else { static const unsigned kinds[] = {0, 0, 0, 1, 2, 2, 3, 4, 5, 6, 7, 99, 99, 99}; kind = r.pick(kinds); }
                    Step s = next_step(r, prev, kind);
                    if (segment < 4) {
                        s.via = segment;
                        if (segment == F_STREAM) s.letter = 'g';
                        if (segment == F_FORMAT && (s.letter == 'F' || s.letter == 'G')) s.letter = static_cast<char>(s.letter + 32);
                    } else if (boring) s.via = prev.via;
                    const S w = run_step(s, &prev, "soak", (it & 255) == 0);
                    classify_steps(prev, wprev, s, w);
                    prev = s;
                    wprev = w;
                    ++done;
                }
            }
            vrt::count("soak.renderings", done);
            vrt::distinct(vrt::fnv_u64(r.next(), 67));
            if (vrt::want_sample("soak"))
                vrt::sample("soak", sfmt("%zu consecutive renderings per entry point (ST::format, from_double/from_float, from_float(double), string_stream <<, then mixed) in one process, each related to the one before; last: %s", per_segment, step_text(prev).c_str()));
        });

        // same storage: texts of identical length that share their first and last 16 bytes, parsed one after the other in storage that
        // keeps its address, each under its own rounding direction; every text is parsed again right away under another direction
        vrt::require("same_storage.texts", 1000);
        vrt::require("same_storage.results_differ_between_siblings", 300);
        static const size_t sizes[] = {8, 12, 15, 16, 20, 40, 64, 100, 256, 300, 1024, 1500, 4096, 5000, 16384, 70000};
        const size_t nsizes = sizeof(sizes) / sizeof(sizes[0]);
        vrt::phase("same_storage", vrt::tier_count(nsizes * 48, nsizes * 1200), [&](uint64_t i, Rng &r) {
            const size_t n = sizes[i % nsizes];
            const unsigned mode = static_cast<unsigned>((i / nsizes) % 3);
            size_t share;
            const std::vector<S> texts = sibling_floats(r, n, share);
            std::optional<vrt::Box<ST::string>> cur;
            const char *last_text = nullptr;
            double last_value = 0;
            for (size_t k = 0; k < texts.size(); ++k) {
                const S &t = texts[k];
                store_text(cur, t, mode == 0 ? 0 : mode == 1 ? 1 : 2);
                if (k && (*cur)->c_str() == last_text) vrt::count("memo.text_at_the_address_of_the_previous_one");
                last_text = (*cur)->c_str();
                const int d1 = r.chance(1, 2) ? FE_TONEAREST : DIRS[r.below(4)];
                { UseDir use(d1); parse_on(**cur, t, r.chance(1, 2)); }
                if (r.chance(1, 2)) {
                    UseDir use(other_dir(r, d1));
                    parse_on(**cur, t, r.chance(1, 2));
                    vrt::count("memo.same_text_parsed_twice_direction_changed_in_between");
                }
                const double v = strtod(t.c_str(), nullptr);
                if (k && !same_bits(v, last_value)) vrt::count("same_storage.results_differ_between_siblings");
                last_value = v;
                vrt::count("same_storage.texts");
            }
            cur.reset();
            vrt::count(sfmt("same_storage.mode.%s", mode == 0 ? "assigned" : mode == 1 ? "cleared_then_assigned" : "destroyed_and_rebuilt"));
            if (vrt::want_sample("same_storage"))
                vrt::sample("same_storage", sfmt("%zu texts of %zu bytes sharing their first and last %zu bytes, parsed one after the other in the same storage under varying rounding directions; first: %s", texts.size(), n, share, scale::brief(texts[0]).c_str()));
        });

        // soak: > 70000 texts of 16..64 bytes parsed one after the other inside ONE case: the same text again under another direction,
        // a text of the same length with one byte changed at the same address, or a fresh one
        vrt::require("soak.parsed_texts", 1000000);
        vrt::require("soak.parse_boring_runs_then_a_change", 500);
        vrt::phase("soak_parse", vrt::thorough() ? 96 : 16, [&](uint64_t, Rng &r) {
            const size_t iters = static_cast<size_t>(vrt::tier_count(70000, 200000));
            std::optional<vrt::Box<ST::string>> cur;
            S t;
            int dir = FE_TONEAREST;
            size_t boring = 0;
            bool change_next = false;
            const char *last_text = nullptr;
            uint64_t same_address = 0, twice = 0, twice_differ = 0;
            double last_value = 0;
            for (size_t it = 0; it < iters; ++it) {
                bool same_text = false, dir_changed = false;
                if (boring) { same_text = true; if (--boring == 0) change_next = true; }
                else if (!t.empty() && (change_next ? r.chance(1, 2) : r.chance(1, 3))) {      // the same text under another direction
                    if (change_next) vrt::count("soak.parse_boring_runs_then_a_change");
                    change_next = false;
                    same_text = dir_changed = true;
                    dir = other_dir(r, dir);
                } else if (!t.empty() && (change_next || r.chance(1, 2))) {                   // one byte changes (a digit, or the number stops there)
                    if (change_next) vrt::count("soak.parse_boring_runs_then_a_change");
                    const size_t at = change_next ? t.size() - 1 - r.below(7) : std::min(t.size() - 1, 8 + r.below(t.size() - 16 + 1));
                    char c = r.chance(1, 5) ? "x \0.e"[r.below(5)] : static_cast<char>('0' + r.below(10));
                    if (c == t[at]) c = c == '1' ? '0' : '1';
                    t[at] = c;
                    change_next = false;
                } else {
                    t = float_text(r, 16 + r.below(49));
                    dir = r.chance(1, 2) ? FE_TONEAREST : DIRS[r.below(4)];
                    if (r.chance(1, 100)) boring = 64 + r.below(237);
                }
                if (!same_text || !cur || r.chance(1, 4)) store_text(cur, t, static_cast<unsigned>(r.below(4)));
                if ((*cur)->c_str() == last_text) ++same_address;
                last_text = (*cur)->c_str();
                { UseDir use(dir); parse_on(**cur, t, (it & 1) != 0); }
                double v;
                { UseDir use(dir); Dir in_force; v = strtod(t.c_str(), nullptr); }
                if (dir_changed) { ++twice; if (!same_bits(v, last_value)) ++twice_differ; }
                last_value = v;
            }
            cur.reset();
            vrt::count("soak.parsed_texts", iters);
            vrt::count("memo.text_at_the_address_of_the_previous_one", same_address);
            vrt::count("memo.same_text_parsed_twice_direction_changed_in_between", twice);
            vrt::count("memo.same_text_twice_and_the_results_differ", twice_differ);
            if (vrt::want_sample("soak_parse"))
                vrt::sample("soak_parse", sfmt("%zu texts of 16..64 bytes parsed one after the other with to_double / to_float under varying rounding directions; %llu at the address of their predecessor, %llu the same text again under another direction; last: %s", iters,
                                               static_cast<unsigned long long>(same_address), static_cast<unsigned long long>(twice), show(t).c_str()));
        });
    }
    vrt::alloc::check_pairing("floats");
}

VRT_MAIN(body)
