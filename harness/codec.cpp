// C14 / C15 - hex and base64 codecs against RFC 4648 / lower-case hex
// references; decoders against the validity predicate of the statement, with
// exact-size output buffers (ASan red zone right after output_size) and a
// canary fill for bytes beyond the returned length.
#include "vrt.h"
#include "vrt_alloc.h"
// Runs before any dynamically initialised namespace-scope object defined later in this translation unit - the library's own,
// should it have any: the decoders are used from another object's static initialiser, and must answer as they do later.
struct EarlyInit { EarlyInit(); };
static EarlyInit g_early_init;
#include "vrt_st.h"
#include "gen_text.h"
#include "gen_scale.h"
#include <sys/wait.h>
#include <spawn.h>

static long g_early[12];
static char g_early_out[8];
EarlyInit::EarlyInit()
{
    const ST::string good_hex("4a6F"), bad_hex("zz"), bad_hex2("4 "), good_b64("SGk="), bad_b64("S*k=");
    g_early[0] = static_cast<long>(ST::hex_decode(good_hex, g_early_out, sizeof(g_early_out)));
    g_early[1] = (static_cast<unsigned char>(g_early_out[0]) << 8) | static_cast<unsigned char>(g_early_out[1]);
    g_early[2] = static_cast<long>(ST::hex_decode(bad_hex, g_early_out + 4, 4));
    g_early[3] = static_cast<long>(ST::hex_decode(bad_hex2, nullptr, 0)) == 1 ? static_cast<long>(ST::hex_decode(bad_hex2, g_early_out + 4, 4)) : -2;
    g_early[4] = static_cast<long>(ST::base64_decode(good_b64, g_early_out + 4, 4));
    g_early[5] = (static_cast<unsigned char>(g_early_out[4]) << 8) | static_cast<unsigned char>(g_early_out[5]);
    g_early[6] = static_cast<long>(ST::base64_decode(bad_b64, g_early_out + 4, 4));
    try { (void)ST::hex_decode(bad_hex); g_early[7] = 0; } catch (const ST::codec_error &) { g_early[7] = 1; }
    try { ST::char_buffer b = ST::base64_decode(good_b64); g_early[8] = static_cast<long>(b.size()); } catch (const ST::codec_error &) { g_early[8] = -1; }
    const ST::string h = ST::hex_encode("\x4a\x6f", 2), b = ST::base64_encode("Hi", 2);
    g_early[9] = h == ST::string("4a6f");
    g_early[10] = b == ST::string("SGk=");
}

using vrt::Rng;
using vrt::sfmt;
typedef std::string S;

// scale phases: offset of the planted feature inside the text handed to decode_case (npos = none); big values are reported
// as length + hash + the bytes around that offset, never in full
static size_t g_focus = std::string::npos;
static const size_t BIG = 2048;
static std::string show(const S &s)
{
    return s.size() <= BIG ? vrt::hex(s.data(), s.size()) : scale::brief(s);
}
static std::string showt(const S &text)
{
    return text.size() <= BIG ? vrt::hex(text.data(), text.size()) : scale::brief(text, g_focus < text.size() ? g_focus : std::string::npos);
}
// a text result next to the value it should have had: in full while it is short, otherwise around the first difference
static std::string txt(const S &got, const S &want)
{
    if (got.size() <= BIG) return got;
    const size_t d = scale::first_diff(got, want);
    return d == std::string::npos ? scale::brief(got) : sfmt("(first difference at %zu) ", d) + scale::brief(got, d);
}
static std::string txt(const ST::string &t) { return t.size() <= BIG ? vrt::str_of(t) : scale::brief(vrt::str_of(t)); }

// ---------------------------------------------------------------- references
static const char B64[] = "ABCDEFGHIJKLMNOPQRSTUVWXYZabcdefghijklmnopqrstuvwxyz0123456789+/";

static S ref_hex(const S &d)
{
    static const char digs[] = "0123456789abcdef";
    S o;
    for (unsigned char c : d) { o += digs[c >> 4]; o += digs[c & 15]; }
    return o;
}
static S ref_b64(const S &d)
{
    S o;
    size_t i = 0;
    const unsigned char *p = reinterpret_cast<const unsigned char *>(d.data());
    for (; i + 3 <= d.size(); i += 3) {
        unsigned v = (p[i] << 16) | (p[i + 1] << 8) | p[i + 2];
        o += B64[v >> 18]; o += B64[(v >> 12) & 63]; o += B64[(v >> 6) & 63]; o += B64[v & 63];
    }
    if (d.size() - i == 1) {
        unsigned v = p[i] << 16;
        o += B64[v >> 18]; o += B64[(v >> 12) & 63]; o += "==";
    } else if (d.size() - i == 2) {
        unsigned v = (p[i] << 16) | (p[i + 1] << 8);
        o += B64[v >> 18]; o += B64[(v >> 12) & 63]; o += B64[(v >> 6) & 63]; o += '=';
    }
    return o;
}
static int hexval(unsigned char c)
{
    if (c >= '0' && c <= '9') return c - '0';
    if (c >= 'a' && c <= 'f') return c - 'a' + 10;
    if (c >= 'A' && c <= 'F') return c - 'A' + 10;
    return -1;
}
static int b64val(unsigned char c)
{
    const char *p = c ? strchr(B64, c) : nullptr;
    return p ? static_cast<int>(p - B64) : -1;
}
// succeeds exactly when the length is even and every character is a hex digit
static bool ref_hex_decode(const S &s, S &out)
{
    out.clear();
    if (s.size() % 2) return false;
    for (size_t i = 0; i < s.size(); i += 2) {
        int a = hexval(s[i]), b = hexval(s[i + 1]);
        if (a < 0 || b < 0) return false;
        out += static_cast<char>(a << 4 | b);
    }
    return true;
}
// succeeds exactly when length % 4 == 0, every character is in the alphabet,
// and '=' occurs only as the last or the last two characters
static bool ref_b64_decode(const S &s, S &out)
{
    out.clear();
    if (s.size() % 4) return false;
    size_t n = s.size(), pad = 0;
    if (n && s[n - 1] == '=') { pad = 1; if (s[n - 2] == '=') pad = 2; }
    for (size_t i = 0; i < n - pad; ++i) if (b64val(s[i]) < 0) return false;
    for (size_t i = 0; i < n; i += 4) {
        unsigned v = 0;
        int k = 0;
        for (int j = 0; j < 4; ++j) {
            if (i + j < n - pad) { v = (v << 6) | b64val(s[i + j]); ++k; } else v <<= 6;
        }
        out += static_cast<char>(v >> 16);
        if (k > 2) out += static_cast<char>(v >> 8);
        if (k > 3) out += static_cast<char>(v);
    }
    return true;
}
// decoded length implied by length and padding (valid lengths only)
static long implied_hex(const S &s) { return s.size() % 2 ? -1 : static_cast<long>(s.size() / 2); }
static long implied_b64(const S &s)
{
    if (s.size() % 4) return -1;
    long r = static_cast<long>(s.size() / 4 * 3);
    if (s.size() > 0 && s[s.size() - 1] == '=') --r;
    if (s.size() > 1 && s[s.size() - 2] == '=') --r;
    return r;
}


// ---------------------------------------------------------------- scale helpers
// n bytes of one of several kinds of content: random, homogeneous (0x00 / 0xFF / one random value), a small alphabet, a
// homogeneous background with one short random stretch near a multiple of a block size
static const char *const CONTENT[] = {"random", "all-00", "all-ff", "one-value", "small-alphabet", "constant-with-random-stretch"};
static void fill_random(char *p, size_t n, Rng &r)
{
    size_t i = 0;
    for (; i + 8 <= n; i += 8) { const uint64_t x = r.next(); memcpy(p + i, &x, 8); }
    if (i < n) { const uint64_t x = r.next(); memcpy(p + i, &x, n - i); }
}
static S scale_bytes(Rng &r, size_t n, unsigned kind)
{
    switch (kind) {
    case 0: { S s(n, '\0'); if (n) fill_random(&s[0], n, r); return s; }
    case 1: return S(n, '\0');
    case 2: return S(n, '\xff');
    case 3: return S(n, static_cast<char>(r.below(256)));
    case 4: { S al = gen::any_bytes(r, 2 + r.below(3)); return gen::bytes_over(r, n, al); }
    default: {
        S s(n, static_cast<char>(r.below(256)));
        if (n) {
            S piece = gen::any_bytes(r, 1 + r.below(64));
            scale::plant(s, scale::offset_any(r, n), piece);
        }
        return s;
    }
    }
}
// valid text of exactly n characters over the alphabet: one character repeated, or random
static S scale_text(Rng &r, size_t n, const S &alphabet)
{
    if (r.chance(1, 3)) return S(n, alphabet[r.below(alphabet.size())]);
    S s(n, '\0');
    size_t i = 0;
    while (i < n) {
        uint64_t x = r.next();
        for (int k = 0; k < 8 && i < n; ++k, x >>= 8) s[i++] = alphabet[(x & 255) % alphabet.size()];
    }
    return s;
}

// ---------------------------------------------------------------- C14
static const char *PROP = "C14";
static void v(const std::string &key, const std::string &detail) { vrt::violation(std::string(PROP) + ":" + key, detail); }

static void roundtrip(const S &data)
{
    vrt::cur_rewind();
    vrt::cur_printf("encode data=%s\n", show(data).c_str());
    vrt::Exact<char> in(data.data(), data.size());
    // --- hex
    ST::string hx = ST::hex_encode(in.data(), in.size());
    vrt::evals();
    S hxs = vrt::str_of(hx), want = ref_hex(data);
    if (hxs != want) v("hex_encode:wrong", sfmt("data=%s got=%s want=%s", show(data).c_str(), txt(hxs, want).c_str(), txt(want, hxs).c_str()));
    if (hx.size() != 2 * data.size()) v("hex_encode:length", sfmt("data=%s size=%zu", show(data).c_str(), hx.size()));
    if (hx.c_str()[hx.size()] != 0) v("hex_encode:no-terminator", show(data));
    ST::char_buffer cb(data.data(), data.size());
    if (ST::hex_encode(cb) != hx) v("hex_encode:buffer-overload-differs", show(data));
    vrt::evals();
    auto decode_both = [&](const char *codec, const ST::string &text, bool is_hex) {
        try {
            ST::char_buffer d = is_hex ? ST::hex_decode(text) : ST::base64_decode(text);
            vrt::evals();
            if (S(d.data(), d.size()) != data)
                v(sfmt("%s:roundtrip-alloc", codec), sfmt("data=%s text=%s back=%s", show(data).c_str(), txt(text).c_str(), vrt::hex(d.data(), d.size()).c_str()));
            if (d.data()[d.size()] != 0) v(sfmt("%s:decode-no-terminator", codec), show(data));
        } catch (const ST::codec_error &e) {
            v(sfmt("%s:roundtrip-alloc-threw", codec), sfmt("data=%s text=%s: %s", show(data).c_str(), txt(text).c_str(), e.what()));
        }
        // caller-buffer decoder, buffer of exactly the needed size
        long need = static_cast<long>(is_hex ? ST::hex_decode(text, nullptr, 0) : ST::base64_decode(text, nullptr, 0));
        vrt::evals();
        if (need != static_cast<long>(data.size())) {
            v(sfmt("%s:null-output-length", codec), sfmt("data=%s text=%s got=%ld want=%zu", show(data).c_str(), txt(text).c_str(), need, data.size()));
            return;
        }
        vrt::Exact<char> out(data.data(), data.size());
        memset(out.p, 0xEE, data.size());
        long w = static_cast<long>(is_hex ? ST::hex_decode(text, out.p, data.size()) : ST::base64_decode(text, out.p, data.size()));
        vrt::evals();
        if (w != static_cast<long>(data.size()) || memcmp(out.p, data.data(), data.size()) != 0)
            v(sfmt("%s:roundtrip-buffer", codec), sfmt("data=%s text=%s returned=%ld back=%s", show(data).c_str(), txt(text).c_str(), w, vrt::hex(out.p, data.size()).c_str()));
    };
    decode_both("hex", hx, true);
    ST::string up = hx.to_upper();
    decode_both("hex-upper", up, true);
    if (data.size() % 2 == 0) {          // mixed case as well
        S mixed = hxs;
        for (size_t i = 0; i < mixed.size(); i += 3) mixed[i] = static_cast<char>(toupper(static_cast<unsigned char>(mixed[i])));
        decode_both("hex-mixed", vrt::mk(mixed), true);
    }
    // --- base64
    ST::string b = ST::base64_encode(in.data(), in.size());
    vrt::evals();
    S bs = vrt::str_of(b);
    want = ref_b64(data);
    if (bs != want) v("base64_encode:wrong", sfmt("data=%s got=%s want=%s", show(data).c_str(), txt(bs, want).c_str(), txt(want, bs).c_str()));
    if (b.size() != 4 * ((data.size() + 2) / 3)) v("base64_encode:length", sfmt("data=%s size=%zu", show(data).c_str(), b.size()));
    if (b.c_str()[b.size()] != 0) v("base64_encode:no-terminator", show(data));
    if (ST::base64_encode(cb) != b) v("base64_encode:buffer-overload-differs", show(data));
    vrt::evals();
    decode_both("base64", b, false);
    // results assigned to variables that already hold something (a short result over a long value and the reverse):
    // "decode back to the original bytes" is about what the caller ends up holding
    {
        ST::string enc("a previous value that is long enough to live on the heap"), enc2("short");
        ST::char_buffer dec("another previous value, also long enough for the heap", 53), dec2("tiny", 4);
        enc = ST::hex_encode(in.data(), in.size()); enc2 = ST::base64_encode(in.data(), in.size());
        dec = ST::hex_decode(enc); dec2 = ST::base64_decode(enc2);
        vrt::evals(4);
        if (vrt::str_of(enc) != hxs || vrt::str_of(enc2) != bs) v("encode:assigned-over-previous-value", sfmt("data=%s hex=%s base64=%s", show(data).c_str(), txt(enc).c_str(), txt(enc2).c_str()));
        if (S(dec.data(), dec.size()) != data || S(dec2.data(), dec2.size()) != data || dec.data()[dec.size()] != 0 || dec2.data()[dec2.size()] != 0)
            v("decode:assigned-over-previous-value", sfmt("data=%s hex gave %s base64 gave %s", show(data).c_str(), vrt::hex(dec.data(), dec.size()).c_str(), vrt::hex(dec2.data(), dec2.size()).c_str()));
    }
}


// ---------------------------------------------------------------- beyond 32 bits (C14, thorough tier only)
// One byte array of 2^32 + ~1000 bytes through base64_encode / hex_encode and back through the caller-buffer decoders.  The
// array is a lazily mapped region (untouched pages cost nothing) that is zero except for random bytes in a few windows: at
// the start, at the end, and around the offsets where a byte count, a remaining-byte count or a text index crosses 2^30,
// 2^31 or 2^32.  The text is compared with the reference in full (zero stretches against runs of 'A' / '0', windows against
// ref_b64 / ref_hex), then decoded into a second lazily mapped region that ends right at an inaccessible page.
// The results need 6 to 9 GB each, more than the allocation cap the driver gives the sanitizer runtime, so the case runs
// in a child process of its own (the same program, the same case address, a higher cap); what the child observes is
// carried over into this process, and if it dies its diagnostics and its fate become this worker's.
struct Lazy {
    char *base = nullptr, *p = nullptr;
    size_t maplen = 0;
    bool map(size_t n)
    {
        const size_t pg = static_cast<size_t>(sysconf(_SC_PAGESIZE));
        maplen = (n + pg - 1) / pg * pg + pg;
        void *m = mmap(nullptr, maplen, PROT_READ | PROT_WRITE, MAP_PRIVATE | MAP_ANONYMOUS | MAP_NORESERVE, -1, 0);
        if (m == MAP_FAILED) return false;
        base = static_cast<char *>(m);
        if (mprotect(base + maplen - pg, pg, PROT_NONE) != 0) return false;
        p = base + maplen - pg - n;                  // the n bytes end exactly where the inaccessible page begins
        return true;
    }
    ~Lazy() { if (base) munmap(base, maplen); }
};
typedef std::vector<std::pair<size_t, size_t>> Windows;
static bool in_windows(const Windows &w, size_t lo, size_t hi)
{
    for (const auto &x : w) if (lo < x.second && x.first < hi) return true;
    return false;
}
// the library's text for in[0, n) against the reference, piece by piece (a piece is 3 * 2^16 bytes, so pieces encode independently)
static bool beyond32_text(const char *key, const char *text, size_t text_len, const char *in, size_t n, const Windows &win, bool is_hex)
{
    const size_t CH = 3u << 16;
    const size_t want_len = is_hex ? 2 * n : 4 * ((n + 2) / 3);
    if (text_len != want_len) { v(sfmt("%s:length", key), sfmt("input of %zu bytes: size=%zu, expected %zu", n, text_len, want_len)); return false; }
    const S plain(is_hex ? 2 * CH : CH / 3 * 4, is_hex ? '0' : 'A');
    for (size_t o = 0; o < n; o += CH) {
        const size_t len = std::min(CH, n - o), toff = is_hex ? 2 * o : o / 3 * 4;
        S ref;
        const char *want = plain.data();
        size_t wlen = is_hex ? 2 * len : len / 3 * 4;
        if (in_windows(win, o, o + len) || len % 3 != 0) {
            const S piece(in + o, len);
            ref = is_hex ? ref_hex(piece) : ref_b64(piece);
            want = ref.data();
            wlen = ref.size();
            vrt::count("beyond32.pieces_against_reference_encoder");
        } else vrt::count("beyond32.pieces_of_zero_bytes");
        if (toff + wlen > text_len || memcmp(text + toff, want, wlen) != 0) {
            size_t d = 0;
            while (toff + d < text_len && d < wlen && text[toff + d] == want[d]) ++d;
            const size_t lo = d > 12 ? d - 12 : 0, hi = std::min(wlen, d + 12), thi = std::min(text_len, toff + hi);
            v(sfmt("%s:wrong", key), sfmt("input of %zu bytes (zero bytes except in a few windows): the text differs from the reference at character %zu (input byte %zu): got[%zu..]=%s want=%s",
                                        n, toff + d, o + (is_hex ? d / 2 : d / 4 * 3), toff + lo, vrt::hex(text + toff + lo, thi > toff + lo ? thi - toff - lo : 0).c_str(), vrt::hex(want + lo, hi - lo).c_str()));
            return false;
        }
    }
    if (text[text_len] != 0) { v(sfmt("%s:no-terminator", key), sfmt("input of %zu bytes", n)); return false; }
    return true;
}
static bool beyond32_back(const char *codec, const char *out, long returned, const char *in, size_t n)
{
    if (returned != static_cast<long>(n)) { v(sfmt("%s:roundtrip-buffer", codec), sfmt("input of %zu bytes: the caller-buffer decoder returned %ld", n, returned)); return false; }
    const size_t CH = 64u << 20;
    for (size_t o = 0; o < n; o += CH) {
        const size_t len = std::min(CH, n - o);
        if (memcmp(out + o, in + o, len) != 0) {
            size_t d = 0;
            while (d < len && out[o + d] == in[o + d]) ++d;
            const size_t lo = o + d > 12 ? o + d - 12 : 0, hi = std::min(n, o + d + 12);
            v(sfmt("%s:roundtrip-buffer", codec), sfmt("input of %zu bytes: decoded byte %zu differs: back[%zu..]=%s data=%s", n, o + d, lo, vrt::hex(out + lo, hi - lo).c_str(), vrt::hex(in + lo, hi - lo).c_str()));
            return false;
        }
    }
    return true;
}
static void beyond32_work(Rng &r)
{
    const size_t two32 = static_cast<size_t>(1) << 32;
    const size_t n = two32 + 1000 + r.below(3);
    vrt::cur_printf("beyond32: %zu bytes\n", n);
    Lazy in;
    if (!in.map(n)) { vrt::count("beyond32.skipped"); vrt::note("beyond32: cannot map the input"); return; }
    Windows win;
    const size_t W = 12288;
    for (size_t c : {static_cast<size_t>(0), n - two32, two32 / 4, 3 * (two32 / 8), two32 / 2, n - two32 / 2, 3 * (two32 / 4), two32, n}) {
        const size_t lo = c > W ? c - W : 0, hi = std::min(n, c + W);
        win.push_back({lo, hi});
        fill_random(in.p + lo, hi - lo, r);
    }
    vrt::count("beyond32.input_bytes", n);
    // ---- base64
    {
        ST::string b = ST::base64_encode(in.p, n);
        vrt::evals();
        vrt::count("beyond32.base64_encode");
        if (beyond32_text("base64_encode", b.c_str(), b.size(), in.p, n, win, false)) {
            const long need = static_cast<long>(ST::base64_decode(b, nullptr, 0));
            vrt::evals();
            if (need != static_cast<long>(n)) v("base64:null-output-length", sfmt("input of %zu bytes: got=%ld", n, need));
            Lazy out;
            if (!out.map(n)) { vrt::count("beyond32.skipped"); vrt::note("beyond32: cannot map the output"); return; }
            memset(out.p, 0xEE, n);
            const long w = static_cast<long>(ST::base64_decode(b, out.p, n));
            vrt::evals();
            if (beyond32_back("base64", out.p, w, in.p, n)) vrt::count("beyond32.base64_decoded_back");
        }
    }
    // ---- hex
    {
        ST::string h = ST::hex_encode(in.p, n);
        vrt::evals();
        vrt::count("beyond32.hex_encode");
        if (beyond32_text("hex_encode", h.c_str(), h.size(), in.p, n, win, true)) {
            const long need = static_cast<long>(ST::hex_decode(h, nullptr, 0));
            vrt::evals();
            if (need != static_cast<long>(n)) v("hex:null-output-length", sfmt("input of %zu bytes: got=%ld", n, need));
            Lazy out;
            if (!out.map(n)) { vrt::count("beyond32.skipped"); vrt::note("beyond32: cannot map the output"); return; }
            memset(out.p, 0xEE, n);
            const long w = static_cast<long>(ST::hex_decode(h, out.p, n));
            vrt::evals();
            if (beyond32_back("hex", out.p, w, in.p, n)) vrt::count("beyond32.hex_decoded_back");
        }
    }
    vrt::count("beyond32.done");
}
static unsigned long long mem_available_kb()
{
    FILE *f = fopen("/proc/meminfo", "r");
    if (!f) return 0;
    char line[256];
    unsigned long long kb = 0;
    while (fgets(line, sizeof(line), f))
        if (sscanf(line, "MemAvailable: %llu kB", &kb) == 1) break;
    fclose(f);
    return kb;
}
extern char **environ;
static void beyond32_case(Rng &r)
{
    const char *result_path = getenv("VRT_BEYOND32_CHILD");
    if (result_path) {
        // the child: do the work, then hand everything observed to the parent
        beyond32_work(r);
        FILE *f = fopen(result_path, "w");
        if (!f) { perror("beyond32: result file"); _exit(98); }
        fprintf(f, "E\t%llu\n", static_cast<unsigned long long>(vrt::st().evaluations));
        for (const auto &kv : vrt::st().counters) if (kv.second) fprintf(f, "C\t%s\t%llu\n", kv.first.c_str(), static_cast<unsigned long long>(kv.second));
        for (const std::string &nt : vrt::st().notes) fprintf(f, "N\t%s\n", nt.c_str());
        for (const auto &kv : vrt::st().violations) {
            S d = kv.second.detail;
            for (char &c : d) if (c == '\n' || c == '\t') c = ' ';
            fprintf(f, "V\t%s\t%s\n", kv.first.c_str(), d.c_str());
        }
        fprintf(f, "DONE\n");
        fclose(f);
        return;
    }
    const unsigned long long avail = mem_available_kb();
    if (avail < (24ull << 20)) {
        vrt::count("beyond32.skipped");
        vrt::note(sfmt("beyond32: skipped, only %llu MB of memory available (24576 MB wanted)", avail >> 10));
        return;
    }
    char exe[4096];
    const ssize_t el = readlink("/proc/self/exe", exe, sizeof(exe) - 1);
    if (el <= 0) { vrt::count("beyond32.skipped"); vrt::note("beyond32: skipped, cannot find the executable"); return; }
    exe[el] = 0;
    const std::string dir = vrt::opt().outdir + sfmt("/beyond32.w%d", vrt::opt().worker), errp = dir + "/stderr", resp = dir + "/result";
    mkdir(dir.c_str(), 0755);
    unlink(resp.c_str());
    std::vector<std::string> envs;
    std::string asan = "ASAN_OPTIONS=";
    for (char **e = environ; *e; ++e) {
        if (strncmp(*e, "ASAN_OPTIONS=", 13) == 0) asan = std::string(*e) + ":";
        else if (strncmp(*e, "VRT_BEYOND32_CHILD=", 19) != 0) envs.push_back(*e);
    }
    envs.push_back(asan + "max_allocation_size_mb=65536");
    envs.push_back("VRT_BEYOND32_CHILD=" + resp);
    std::vector<char *> envp;
    for (std::string &e : envs) envp.push_back(&e[0]);
    envp.push_back(nullptr);
    const std::string seed = sfmt("%llu", static_cast<unsigned long long>(vrt::opt().seed));
    const char *argv[] = {exe, "--prop", "C14", "--tier", "thorough", "--seed", seed.c_str(), "--out", dir.c_str(), "--case", "beyond32:0", nullptr};
    posix_spawn_file_actions_t fa;
    posix_spawn_file_actions_init(&fa);
    posix_spawn_file_actions_addopen(&fa, 1, errp.c_str(), O_WRONLY | O_CREAT | O_TRUNC, 0644);
    posix_spawn_file_actions_adddup2(&fa, 1, 2);
    pid_t pid = 0;
    const int rc = posix_spawn(&pid, exe, &fa, nullptr, const_cast<char *const *>(argv), envp.data());
    posix_spawn_file_actions_destroy(&fa);
    if (rc != 0) { vrt::count("beyond32.skipped"); vrt::note(sfmt("beyond32: skipped, cannot start the child process: %s", strerror(rc))); return; }
    vrt::cur_printf("beyond32: child process %d, diagnostics in %s\n", static_cast<int>(pid), errp.c_str());
    int status = 0;
    while (waitpid(pid, &status, 0) < 0 && errno == EINTR) { }
    // what the child observed
    bool done = false;
    std::vector<std::string> lines;
    if (FILE *f = fopen(resp.c_str(), "r")) {
        std::string cur;
        int ch;
        while ((ch = fgetc(f)) != EOF) { if (ch == '\n') { lines.push_back(cur); cur.clear(); } else cur += static_cast<char>(ch); }
        fclose(f);
        done = !lines.empty() && lines.back() == "DONE";
    }
    if (done && WIFEXITED(status) && (WEXITSTATUS(status) == 0 || WEXITSTATUS(status) == 1)) {
        for (const std::string &l : lines) {
            const size_t t1 = l.find('\t'), t2 = t1 == std::string::npos ? t1 : l.find('\t', t1 + 1);
            if (l[0] == 'E' && t1 != std::string::npos) vrt::evals(strtoull(l.c_str() + t1 + 1, nullptr, 10));
            else if (l[0] == 'C' && t2 != std::string::npos) vrt::count(l.substr(t1 + 1, t2 - t1 - 1), strtoull(l.c_str() + t2 + 1, nullptr, 10));
            else if (l[0] == 'N' && t1 != std::string::npos && l.compare(t1 + 1, 8, "beyond32") == 0) vrt::note(l.substr(t1 + 1));
            else if (l[0] == 'V' && t2 != std::string::npos) vrt::violation(l.substr(t1 + 1, t2 - t1 - 1), l.substr(t2 + 1));
        }
        return;
    }
    // the child died: its diagnostics and its fate become this worker's (the driver classifies them as for any worker)
    if (FILE *f = fopen(errp.c_str(), "r")) {
        char buf[4096];
        size_t k;
        while ((k = fread(buf, 1, sizeof(buf), f)) > 0) if (fwrite(buf, 1, k, stderr) != k) break;
        fclose(f);
        fflush(stderr);
    }
    if (WIFSIGNALED(status) && WTERMSIG(status) == SIGKILL) {
        // killed from outside (the kernel's out-of-memory killer, most likely): says nothing about the library
        vrt::count("beyond32.skipped");
        vrt::note("beyond32: skipped, the child process was killed (out of memory?)");
        return;
    }
    if (WIFSIGNALED(status)) {
        vrt::cur_printf("beyond32: the child process died of signal %d\n", WTERMSIG(status));
        signal(WTERMSIG(status), SIG_DFL);
        raise(WTERMSIG(status));
        _exit(99);
    }
    if (WEXITSTATUS(status) == 97) { vrt::cur_printf("HANG\n"); _exit(97); }
    vrt::cur_printf("beyond32: the child process exited with status %d\n", WEXITSTATUS(status));
    _exit(WEXITSTATUS(status) ? WEXITSTATUS(status) : 98);
}
static void beyond32_phase()
{
    vrt::require("beyond32.ran_or_skipped", 1);
    vrt::case_cpu_budget() = 1500;       // the one case that is allowed to take minutes
    vrt::phase("beyond32", 1, [&](uint64_t, Rng &r) {
        beyond32_case(r);
        if (getenv("VRT_BEYOND32_CHILD")) return;
        const uint64_t done = vrt::counter("beyond32.done"), skipped = vrt::counter("beyond32.skipped");
        if (done || skipped) vrt::count("beyond32.ran_or_skipped");
    });
    vrt::case_cpu_budget() = 30;
}

static void c14_body()
{
    vrt::require("groups.3byte", 1 << 18);
    vrt::require("tails.2byte", 65536);
    vrt::require("tails.1byte", 256);
    vrt::require("lengths", 71);

    // every 3-byte group: case = first two bytes, 256 third bytes batched in
    // one 768-byte input (first / middle / last position of a group all occur)
    vrt::note("base64/hex encode+decode of all 2^24 three-byte groups (batched 256 groups per call, each group at first, middle and last position), all 2^16 two-byte and 2^8 one-byte tails alone and after a full group");
    vrt::phase("all_groups", 65536, [&](uint64_t i, Rng &) {
        S data;
        for (int c = 0; c < 256; ++c) {
            data += static_cast<char>(i >> 8);
            data += static_cast<char>(i & 255);
            data += static_cast<char>(c);
        }
        roundtrip(data);
        vrt::count("groups.3byte", 256);
        // two-byte tail alone, after one group, and one-byte tails
        S t2;
        t2 += static_cast<char>(i >> 8);
        t2 += static_cast<char>(i & 255);
        roundtrip(t2);
        roundtrip(S("xyz") + t2);
        vrt::count("tails.2byte");
        if (i < 256) {
            S t1(1, static_cast<char>(i));
            roundtrip(t1);
            roundtrip(S("\x00\xff\x10", 3) + t1);
            vrt::count("tails.1byte");
        }
        vrt::distinct(vrt::fnv_u64(i, 41));
        if (vrt::want_sample("all_groups") && i == 0x4d61) vrt::sample("all_groups", sfmt("bytes %02x %02x + every third byte 00..ff in one 768-byte input; tails %s", unsigned(i >> 8), unsigned(i & 255), show(t2).c_str()));
    });
    // single groups alone (short result strings living in the object)
    // (all 2^24 of them in both tiers: the last group of an input goes through the decoders' padding logic, and a slip there
    // can hinge on one particular group - e.g. one whose encoding ends in "999")
    vrt::phase("single_groups", 1 << 24, [&](uint64_t i, Rng &) {
        uint32_t g = static_cast<uint32_t>(i);
        S d;
        d += static_cast<char>(g >> 16); d += static_cast<char>(g >> 8); d += static_cast<char>(g);
        roundtrip(d);
        vrt::distinct(vrt::fnv_u64(g, 42));
    });
    // every length 0..70 (+ a few long ones) with random content; null data with size 0
    vrt::phase("lengths", vrt::tier_count(71 * 20, 71 * 2000), [&](uint64_t i, Rng &r) {
        size_t len = i % 71;
        if (i % 997 == 0) len = 1000 + r.below(5000);
        S d = gen::any_bytes(r, len);
        roundtrip(d);
        vrt::count("lengths");
        vrt::distinct(vrt::fnv1a(d.data(), d.size(), 43));
        if (vrt::want_sample("lengths") && len == 17) vrt::sample("lengths", sfmt("data=%s -> hex %s base64 %s", show(d).c_str(), ref_hex(d).c_str(), ref_b64(d).c_str()));
    });
    vrt::phase("empty", 1, [&](uint64_t, Rng &) {
        vrt::evals(4);
        if (!ST::hex_encode(nullptr, 0).empty()) v("hex_encode:null-empty", "hex_encode(nullptr,0) not empty");
        if (!ST::base64_encode(nullptr, 0).empty()) v("base64_encode:null-empty", "base64_encode(nullptr,0) not empty");
        if (ST::hex_decode(ST::string()).size() != 0) v("hex_decode:empty", "decode of empty text not empty");
        if (ST::base64_decode(ST::string()).size() != 0) v("base64_decode:empty", "decode of empty text not empty");
    });
    // scale: byte arrays of up to 4 MiB whose length - or the length of their base64 text, or of their hex
    // text - is a multiple q*B of a block size, and the two lengths on either side of it: the encoded text then ends exactly
    // on a block boundary without padding, with '=' and with '==', or one group / digit pair beyond it.  Content: random,
    // homogeneous, small alphabet, homogeneous with one random stretch near a multiple of a block size.
    {
        vrt::require("scale.cases", 300);
        vrt::require("scale.base64_text_is_multiple_of_block.padded", 40);
        vrt::require("scale.input>=64KiB", 60);
        vrt::require("scale.input>=512KiB", 5);
        const std::vector<size_t> &BL = scale::blocks();
        const uint64_t NB = BL.size(), PER = NB * 8 * 3 * 5;
        const size_t cap = 4u << 20;
        vrt::phase("scale", vrt::tier_count(PER, PER * 12), [&](uint64_t i, Rng &r) {
            const size_t B = BL[i % NB], q = 1 + (i / NB) % 8;
            const unsigned unit = static_cast<unsigned>((i / (NB * 8)) % 3);       // what is a multiple of B: 0 the byte array, 1 its base64 text, 2 its hex text
            long d = static_cast<long>((i / (NB * 8 * 3)) % 5) - 2;
            if ((i / PER) % 2 == 1) d = static_cast<long>(r.range(-12, 12));       // later rounds of the grid: further distances
            const size_t T = q * B;
            if (T > cap) { vrt::count("scale.skipped_too_large"); return; }
            const size_t n0 = unit == 0 ? T : unit == 1 ? T / 4 * 3 : T / 2;
            if (static_cast<long>(n0) + d < 0) return;
            const size_t n = static_cast<size_t>(static_cast<long>(n0) + d);
            const unsigned kind = static_cast<unsigned>(r.below(6));
            const S data = scale_bytes(r, n, kind);
            roundtrip(data);
            vrt::count("scale.cases");
            vrt::count(unit == 0 ? "scale.multiple_of_block.input" : unit == 1 ? "scale.multiple_of_block.base64_text" : "scale.multiple_of_block.hex_text");
            vrt::count(sfmt("scale.content.%s", CONTENT[kind]));
            if (n % 3 != 0 && (4 * ((n + 2) / 3)) % B == 0) vrt::count("scale.base64_text_is_multiple_of_block.padded");
            if (n % 3 == 0 && n && (4 * (n / 3)) % B == 0) vrt::count("scale.base64_text_is_multiple_of_block.unpadded");
            if (n && (2 * n) % B == 0) vrt::count("scale.hex_text_is_multiple_of_block");
            if (n >= 65536) vrt::count("scale.input>=64KiB");
            if (n >= 524288) vrt::count("scale.input>=512KiB");
            if (n >= (2u << 20)) vrt::count("scale.input>=2MiB");
            vrt::distinct(vrt::fnv1a(data.data(), data.size(), 45));
            if (vrt::want_sample("scale") && n >= 49000 && unit == 1)
                vrt::sample("scale", sfmt("data %s (%s): %zu bytes = (base64 text of %zu x %zu characters) %+ld", scale::brief(data).c_str(), CONTENT[kind], n, q, B, d));
        });
    }
    if (vrt::thorough()) beyond32_phase();
}

// ---------------------------------------------------------------- C15
static void decode_case(const S &text, bool is_hex)
{
    const char *codec = is_hex ? "hex_decode" : "base64_decode";
    vrt::cur_rewind();
    vrt::cur_printf("%s text=%s\n", codec, showt(text).c_str());
    S want;
    const bool ok = is_hex ? ref_hex_decode(text, want) : ref_b64_decode(text, want);
    const long implied = is_hex ? implied_hex(text) : implied_b64(text);
    vrt::Box<ST::string> st(vrt::mk(text));
    // allocating form
    vrt::evals();
    try {
        ST::char_buffer d = is_hex ? ST::hex_decode(*st) : ST::base64_decode(*st);
        if (!ok) v(sfmt("%s:alloc-accepted-invalid", codec), sfmt("text=%s decoded=%s", showt(text).c_str(), vrt::hex(d.data(), d.size()).c_str()));
        else if (S(d.data(), d.size()) != want) v(sfmt("%s:alloc-wrong-bytes", codec), sfmt("text=%s got=%s want=%s", showt(text).c_str(), vrt::hex(d.data(), d.size()).c_str(), show(want).c_str()));
        if (d.data()[d.size()] != 0) v(sfmt("%s:no-terminator", codec), showt(text));
    } catch (const ST::codec_error &) {
        if (ok) v(sfmt("%s:alloc-rejected-valid", codec), sfmt("text=%s", showt(text).c_str()));
    }
    // null output: decoded length implied by length and padding
    vrt::evals();
    long nl = static_cast<long>(is_hex ? ST::hex_decode(*st, nullptr, 0) : ST::base64_decode(*st, nullptr, 0));
    if (nl != implied) v(sfmt("%s:null-output-length", codec), sfmt("text=%s got=%ld want=%ld", showt(text).c_str(), nl, implied));
    long nl2 = static_cast<long>(is_hex ? ST::hex_decode(*st, nullptr, 1000) : ST::base64_decode(*st, nullptr, 1000));
    if (nl2 != implied) v(sfmt("%s:null-output-length", codec), sfmt("text=%s output_size=1000 got=%ld want=%ld", showt(text).c_str(), nl2, implied));
    // caller-buffer form with output_size below, at and above the decoded length
    const size_t len = implied >= 0 ? static_cast<size_t>(implied) : text.size();
    std::vector<size_t> sizes = {0, len, len + 1, len + 64};
    if (len) sizes.push_back(len - 1);
    if (len > 2) sizes.push_back(len - 2);
    if (len > 3) sizes.push_back(len / 2);
    for (size_t osz : sizes) {
        vrt::evals();
        char *out = static_cast<char *>(malloc(osz ? osz : 1));      // exactly output_size bytes: a write at index >= output_size hits the red zone
        memset(out, 0xEE, osz ? osz : 1);
        long w = static_cast<long>(is_hex ? ST::hex_decode(*st, out, osz) : ST::base64_decode(*st, out, osz));
        if (!ok) {
            if (w != -1) v(sfmt("%s:buffer-accepted-invalid", codec), sfmt("text=%s output_size=%zu returned=%ld", showt(text).c_str(), osz, w));
        } else if (osz < want.size()) {
            if (w != -1) v(sfmt("%s:buffer-too-small-not-rejected", codec), sfmt("text=%s output_size=%zu returned=%ld", showt(text).c_str(), osz, w));
            vrt::count("buffer.too_small");
        } else {
            if (w != static_cast<long>(want.size()) || memcmp(out, want.data(), want.size()) != 0)
                v(sfmt("%s:buffer-wrong", codec), sfmt("text=%s output_size=%zu returned=%ld got=%s want=%s", showt(text).c_str(), osz, w, vrt::hex(out, std::min(osz, want.size())).c_str(), show(want).c_str()));
            for (size_t k = want.size(); k < osz; ++k)
                if (static_cast<unsigned char>(out[k]) != 0xEE) {
                    v(sfmt("%s:wrote-beyond-returned-length", codec), sfmt("text=%s output_size=%zu byte %zu modified", showt(text).c_str(), osz, k));
                    break;
                }
            vrt::count("buffer.success");
        }
        free(out);
    }
    // declared sizes far above the decoded length ("unbounded" callers): the buffer
    // really has `len` bytes, so any write past the decoded length hits the red zone
    for (size_t osz : {static_cast<size_t>(-1), static_cast<size_t>(1) << 63, (static_cast<size_t>(1) << 63) - 1, static_cast<size_t>(1) << 32}) {
        vrt::evals();
        char *out = static_cast<char *>(malloc(len ? len : 1));
        long w = static_cast<long>(is_hex ? ST::hex_decode(*st, out, osz) : ST::base64_decode(*st, out, osz));
        if (!ok) {
            if (w != -1) v(sfmt("%s:buffer-accepted-invalid", codec), sfmt("text=%s output_size=%zu returned=%ld", showt(text).c_str(), osz, w));
        } else if (w != static_cast<long>(want.size()) || memcmp(out, want.data(), want.size()) != 0) {
            v(sfmt("%s:buffer-wrong", codec), sfmt("text=%s output_size=%zu returned=%ld want=%s", showt(text).c_str(), osz, w, show(want).c_str()));
        }
        vrt::count("buffer.huge_output_size");
        free(out);
    }
    vrt::count(ok ? (is_hex ? "hex.valid" : "base64.valid") : (is_hex ? "hex.invalid" : "base64.invalid"));
    vrt::distinct(vrt::fnv_u64(is_hex, vrt::fnv1a(text.data(), text.size(), 44)));
}

static void c15_body()
{
    vrt::require("hex.valid", 1000);
    vrt::require("hex.invalid", 1000);
    vrt::require("base64.valid", 1000);
    vrt::require("base64.invalid", 1000);
    vrt::require("buffer.too_small", 1000);
    vrt::require("buffer.success", 1000);
    vrt::require("b64.last_group_pairs", 65536);
    vrt::require("hex.pairs", 65536);

    vrt::note("hex: all 256^2 two-character strings alone and inside longer text; base64: all 256 byte values at each of the 4 positions of the first, a middle and the last group, all 256^2 values of each of the 6 position pairs of the last group, every string of length <= 9 over {A,=,*}");
    // hex: all 256^2 digit pairs
    vrt::phase("hex_pairs", 256, [&](uint64_t a, Rng &) {
        for (int b = 0; b < 256; ++b) {
            S t;
            t += static_cast<char>(a); t += static_cast<char>(b);
            decode_case(t, true);
            decode_case(S("0f") + t + S("A0"), true);
            vrt::count("hex.pairs");
        }
        S odd(1, static_cast<char>(a));
        decode_case(odd, true);
        decode_case(S("ab") + odd, true);
    });
    vrt::phase("hex_lengths", 12, [&](uint64_t len, Rng &r) {
        for (int k = 0; k < 50; ++k) {
            S t = gen::bytes_over(r, len, "0123456789abcdefABCDEF");
            decode_case(t, true);
            if (len) { t[r.below(len)] = r.pick("gG/:@`\x80\xff xX"); decode_case(t, true); }
        }
    });
    // base64: every byte value at each position of the first, a middle and the last group
    vrt::phase("b64_positions", 256, [&](uint64_t c, Rng &) {
        static const char *const frames[] = {"QUJD", "QUJDREVGR0hJ", "QUI=", "QQ==", "QUJDREU="};
        for (const char *f : frames) {
            size_t n = strlen(f);
            for (size_t pos = 0; pos < n; ++pos) {
                S t(f);
                t[pos] = static_cast<char>(c);
                decode_case(t, false);
            }
        }
    });
    // all 256^2 values of each position pair in the last group (the padding logic)
    vrt::phase("b64_last_group_pairs", 256 * 6, [&](uint64_t i, Rng &) {
        static const int pairs[6][2] = {{0, 1}, {0, 2}, {0, 3}, {1, 2}, {1, 3}, {2, 3}};
        const int *pp = pairs[i / 256];
        unsigned a = static_cast<unsigned>(i % 256);
        for (int b = 0; b < 256; ++b) {
            for (const char *base : {"QUJD", "QUI=", "QQ=="}) {
                S t(base);
                t[pp[0]] = static_cast<char>(a);
                t[pp[1]] = static_cast<char>(b);
                decode_case(t, false);
                decode_case(S("QUJD") + t, false);
            }
            vrt::count("b64.last_group_pairs");
        }
    });
    // every '=' placement / invalid char placement for short strings
    {
        const S al = "A=*";
        const size_t L = vrt::thorough() ? 12 : 9;
        vrt::phase("b64_small_alphabet", gen::count_strings(al.size(), L), [&](uint64_t i, Rng &) {
            S t;
            gen::nth_string(i, al, L, t);
            decode_case(t, false);
        });
        const S hal = "a0G";
        vrt::phase("hex_small_alphabet", gen::count_strings(hal.size(), 8), [&](uint64_t i, Rng &) {
            S t;
            gen::nth_string(i, hal, 8, t);
            decode_case(t, true);
        });
    }
    // random strings over {valid digits, '=', NUL, bytes >= 0x80}
    vrt::phase("random", vrt::tier_count(60000, 4000000), [&](uint64_t, Rng &r) {
        S al = B64;
        if (r.chance(1, 2)) { al += "==="; }
        if (r.chance(1, 4)) { al.push_back('\0'); al += "\x80\xff-_ \n"; }
        size_t len = r.chance(2, 3) ? 4 * r.below(12) : r.below(50);
        S t = gen::bytes_over(r, len, al);
        if (r.chance(1, 2) && len >= 4) {       // make it likely valid with padding at the end
            S d = gen::any_bytes(r, r.below(30));
            t = ref_b64(d);
            if (r.chance(1, 3) && !t.empty()) t[r.below(t.size())] = r.pick("=*\x80-_");
        }
        decode_case(t, false);
        S hal = "0123456789abcdefABCDEF";
        if (r.chance(1, 4)) { hal.push_back('\0'); hal += "gx\x80"; }
        S h = gen::bytes_over(r, r.chance(3, 4) ? 2 * r.below(24) : r.below(40), hal);
        decode_case(h, true);
        if (vrt::want_sample("random") && t.size() > 8) vrt::sample("random", sfmt("base64 text=%s hex text=%s", show(t).c_str(), show(h).c_str()));
    });
    // scale: texts of up to ~2 MiB (thorough: ~4 MiB) in which the one thing that decides between accept and reject sits on
    // a block boundary.  The case index walks a grid: block size B x multiple q x what is planted where; the boundary lies
    // q*B characters - or the characters of q*B decoded bytes - from the beginning or from the end of the text.  Planted:
    // a character outside the alphabet / '=' / NUL / a byte >= 0x80 as the last character of the run that ends at the
    // boundary, as the first character of the next run, elsewhere in the last group of the run, in the last group of the
    // text, in the group before it; nothing (valid text, without and with padding); a length that is off by one to three
    // characters; too much or misplaced padding at the end of the text or at the end of the run.  Everything else in the
    // text is valid, so the planted feature alone decides.  Each text goes through decode_case like every other input
    // (allocating form, size query, caller-buffer form with output_size below / at / above the decoded size and huge).
    {
        vrt::require("scale.cases", 1000);
        vrt::require("scale.valid", 100);
        vrt::require("scale.invalid", 500);
        vrt::require("scale.text>=64KiB", 200);
        vrt::require("scale.only_bad_character_in_last_group_of_a_run.text_continues", 100);
        vrt::require("scale.valid_padded_text_is_multiple_of_block", 20);
        vrt::require("scale.padding_at_end_of_run.text_continues", 10);
        const std::vector<size_t> &BL = scale::blocks();
        const uint64_t NB = BL.size(), PER = NB * 8 * 8;
        const size_t cap = vrt::thorough() ? (4u << 20) : (2u << 20);
        static const char *const WHERE[] = {"last_character_of_run", "first_character_of_next_run", "last_group_of_run", "last_group_of_text", "group_before_last_group_of_text",
                                            "nothing_planted", "length_off", "padding_misplaced"};
        const S hexal = "0123456789abcdefABCDEF";
        vrt::phase("scale", vrt::tier_count(PER * 4, PER * 8 * 8), [&](uint64_t i, Rng &r) {
            const uint64_t j = i % PER, k = i / PER;
            const size_t B = BL[j % NB], q = 1 + (j / NB) % 8;
            const unsigned where = static_cast<unsigned>((j / (NB * 8)) % 8);
            const unsigned combo = static_cast<unsigned>((3 * j + k) % 8);          // every (B, q, where) meets all 8 combinations over 8 rounds
            const bool from_end = (combo & 1) != 0, is_hex = (combo & 2) != 0, decoded_units = (combo & 4) != 0;
            const size_t G = is_hex ? 2 : 4;                                       // characters per group
            const size_t dist = q * B;
            if (dist > cap) { vrt::count("scale.skipped_too_large"); return; }
            size_t bchars = decoded_units ? (is_hex ? dist * 2 : dist / 3 * 4) : dist / G * G;     // the boundary, in characters, on a group boundary
            if (bchars < 2 * G) bchars = 2 * G;
            // what lies on the other side of the boundary: nothing, a group or two, a few dozen groups, a long stretch
            size_t margin = G * (r.chance(1, 3) ? r.below(3) : r.chance(1, 2) ? 3 + r.below(40) : 1000 + r.below(20000));
            if (where == 5 && r.chance(1, 2)) margin = 0;                          // valid text that ends exactly on the boundary
            const size_t L = bchars + margin;
            size_t bpos = from_end ? L - bchars : bchars;                          // first character after the boundary
            if (bpos < G) bpos = bchars;                                           // (from the end with no margin: use the other end)
            static const S b64al(B64);
            const S &al = is_hex ? hexal : b64al;
            S text = scale_text(r, L, al);
            static const char bad64[] = {'=', '=', '*', '\0', '\x80', '\xff', '-', '_', ' ', '\n', '.', ',', ':', '@', '[', '`', '{', '\xc1', '\xe1'};
            static const char badhex[] = {'g', 'G', '/', ':', '@', '`', '\0', '\x80', '\xff', ' ', 'x', '=', '\xb1', '\xc1', '\xe1'};
            const char bad = is_hex ? badhex[r.below(sizeof(badhex))] : bad64[r.below(sizeof(bad64))];
            size_t at = std::string::npos;
            std::vector<S> texts;
            switch (where) {
            case 0: at = bpos - 1; break;
            case 1: at = bpos < L ? bpos : L - 1; break;
            case 2: at = bpos - G + r.below(G - 1); break;
            case 3: at = L - G + r.below(G); break;
            case 4: at = L - 2 * G + r.below(G); break;
            case 5:                                                                // valid: no padding, '=', '==' (hex: as it is, all upper case, all lower case)
                texts.push_back(text);
                if (is_hex) {
                    S u = text, l = text;
                    for (char &c : u) if (c >= 'a' && c <= 'f') c = static_cast<char>(c - 32);
                    for (char &c : l) if (c >= 'A' && c <= 'F') c = static_cast<char>(c + 32);
                    texts.push_back(u); texts.push_back(l);
                } else {
                    S p1 = text, p2 = text;
                    p1[L - 1] = '='; p2[L - 1] = '='; p2[L - 2] = '=';
                    texts.push_back(p1); texts.push_back(p2);
                    if (L % B == 0 || (decoded_units && (L / 4 * 3) % B == 0)) vrt::count("scale.valid_padded_text_is_multiple_of_block", 2);
                }
                break;
            case 6: {                                                              // length off by 1..3 characters (too short / too long), otherwise valid
                const size_t off = 1 + r.below(3);
                if (r.chance(1, 2)) text.resize(L - off); else text += scale_text(r, off, al);
                if (!is_hex && r.chance(1, 3)) text[text.size() - 1] = '=';
                break;
            }
            default:
                if (is_hex) { text[bpos - 1] = r.chance(1, 2) ? '0' : bad; text[bpos < L ? bpos : L - 2] = r.chance(1, 2) ? 'x' : bad; at = bpos - 1; }   // "0x" / two bad characters across the boundary
                else {
                    static const char *const tails[] = {"===", "====", "=A", "=A=", "=AA", "==A", "A=A=", "=A==", "=\0=", "=\x80"};
                    const unsigned t = static_cast<unsigned>(r.below(12));
                    if (t < 10) { const S tail(tails[t], t == 8 ? 3 : strlen(tails[t])); at = scale::plant(text, L - tail.size(), tail); }
                    else {
                        // padding at the end of the run, and the text goes on (separately encoded pieces joined together)
                        const S pad = t == 10 ? "=" : "==";
                        at = scale::plant(text, bpos - pad.size(), pad);
                        if (bpos < L) vrt::count("scale.padding_at_end_of_run.text_continues");
                        if (r.chance(1, 2)) text[L - 1] = '=';
                    }
                }
                break;
            }
            if (where <= 4) {
                text[at] = bad;
                if (!is_hex && at + 2 * G < L && r.chance(1, 3)) { text[L - 1] = '='; if (r.chance(1, 2)) text[L - 2] = '='; }    // and valid padding at the end
                if (at + G >= bpos && at < bpos && bpos < L) vrt::count("scale.only_bad_character_in_last_group_of_a_run.text_continues");
            }
            if (texts.empty()) texts.push_back(text);
            uint64_t &cv = vrt::counter(is_hex ? "hex.valid" : "base64.valid"), &ci = vrt::counter(is_hex ? "hex.invalid" : "base64.invalid");
            const uint64_t v0 = cv, i0 = ci;
            g_focus = at;
            for (const S &t : texts) decode_case(t, is_hex);
            g_focus = std::string::npos;
            vrt::count("scale.valid", cv - v0);
            vrt::count("scale.invalid", ci - i0);
            vrt::count("scale.cases");
            vrt::count(sfmt("scale.where.%s", WHERE[where]));
            vrt::count(from_end ? "scale.boundary_measured.from_end" : "scale.boundary_measured.from_beginning");
            vrt::count(decoded_units ? "scale.boundary_measured.in_decoded_bytes" : "scale.boundary_measured.in_characters");
            vrt::count(is_hex ? "scale.hex" : "scale.base64");
            if (text.size() >= 65536) vrt::count("scale.text>=64KiB");
            if (text.size() >= (1u << 20)) vrt::count("scale.text>=1MiB");
            if (vrt::want_sample("scale") && where == 0 && text.size() > 65536)
                vrt::sample("scale", sfmt("%s text %s: boundary %zu x %zu %s from the %s = character %zu, %s at %zu", is_hex ? "hex" : "base64", scale::brief(text, at).c_str(), q, B,
                                          decoded_units ? "decoded bytes" : "characters", from_end ? "end" : "beginning", bpos, WHERE[where], at));
        });
    }
}

static void body()
{
    vrt::require("static_init.checks", 11);
    vrt::phase("static_initialisation", 1, [&](uint64_t, Rng &) {
        static const long want[11] = {2, 0x4a6f, -1, -1, 2, 0x4869, -1, 1, 2, 1, 1};
        static const char *const what[11] = {"hex_decode(valid) length", "hex_decode(valid) bytes", "hex_decode(\"zz\")", "hex_decode(\"4 \")", "base64_decode(valid) length", "base64_decode(valid) bytes",
                                             "base64_decode(\"S*k=\")", "hex_decode(\"zz\") throws", "base64_decode(valid) allocating", "hex_encode", "base64_encode"};
        for (int k = 0; k < 11; ++k) {
            vrt::evals();
            vrt::count("static_init.checks");
            if (g_early[k] != want[k])
                vrt::violation(sfmt("%s:called-during-static-initialisation:%s", vrt::is_prop("C14") ? "C14" : "C15", what[k]), sfmt("got %ld, want %ld", g_early[k], want[k]));
        }
    });

    if (vrt::is_prop("C15")) { PROP = "C15"; c15_body(); }
    else c14_body();
    vrt::alloc::check_pairing("codec");
}

#ifdef VRT_FUZZ
// libFuzzer front end (thorough tier of C15): byte 0 selects the decoder, the rest is the
// text handed to it; same monitors as the generated cases (decode_case).
static void vrt_fuzz_one(const uint8_t *d, size_t n)
{
    PROP = "C15";
    if (n == 0) return;
    decode_case(S(reinterpret_cast<const char *>(d + 1), n - 1), (d[0] & 1) != 0);
    vrt::count("fuzz.inputs");
}
#endif

VRT_MAIN(body)
