// C14 / C15 - hex and base64 codecs against RFC 4648 / lower-case hex
// references; decoders against the validity predicate of the statement, with
// exact-size output buffers (ASan red zone right after output_size) and a
// canary fill for bytes beyond the returned length.
#include "vrt.h"
#include "vrt_alloc.h"
// Runs before any dynamically initialised namespace-scope object defined later in this translation unit - the library's own,
// should it have any: the decoders are used from another object's static initialiser, and must answer as they do later.
struct EarlyInit { EarlyInit(); };
static EarlyInit g_early_init;
#include "vrt_st.h"
#include "gen_text.h"

static long g_early[12];
static char g_early_out[8];
EarlyInit::EarlyInit()
{
    const ST::string good_hex("4a6F"), bad_hex("zz"), bad_hex2("4 "), good_b64("SGk="), bad_b64("S*k=");
    g_early[0] = static_cast<long>(ST::hex_decode(good_hex, g_early_out, sizeof(g_early_out)));
    g_early[1] = (static_cast<unsigned char>(g_early_out[0]) << 8) | static_cast<unsigned char>(g_early_out[1]);
    g_early[2] = static_cast<long>(ST::hex_decode(bad_hex, g_early_out + 4, 4));
    g_early[3] = static_cast<long>(ST::hex_decode(bad_hex2, nullptr, 0)) == 1 ? static_cast<long>(ST::hex_decode(bad_hex2, g_early_out + 4, 4)) : -2;
    g_early[4] = static_cast<long>(ST::base64_decode(good_b64, g_early_out + 4, 4));
    g_early[5] = (static_cast<unsigned char>(g_early_out[4]) << 8) | static_cast<unsigned char>(g_early_out[5]);
    g_early[6] = static_cast<long>(ST::base64_decode(bad_b64, g_early_out + 4, 4));
    try { (void)ST::hex_decode(bad_hex); g_early[7] = 0; } catch (const ST::codec_error &) { g_early[7] = 1; }
    try { ST::char_buffer b = ST::base64_decode(good_b64); g_early[8] = static_cast<long>(b.size()); } catch (const ST::codec_error &) { g_early[8] = -1; }
    const ST::string h = ST::hex_encode("\x4a\x6f", 2), b = ST::base64_encode("Hi", 2);
    g_early[9] = h == ST::string("4a6f");
    g_early[10] = b == ST::string("SGk=");
}

using vrt::Rng;
using vrt::sfmt;
typedef std::string S;

static std::string show(const S &s) { return vrt::hex(s.data(), s.size()); }

// ---------------------------------------------------------------- references
static const char B64[] = "ABCDEFGHIJKLMNOPQRSTUVWXYZabcdefghijklmnopqrstuvwxyz0123456789+/";

static S ref_hex(const S &d)
{
    static const char digs[] = "0123456789abcdef";
    S o;
    for (unsigned char c : d) { o += digs[c >> 4]; o += digs[c & 15]; }
    return o;
}
static S ref_b64(const S &d)
{
    S o;
    size_t i = 0;
    const unsigned char *p = reinterpret_cast<const unsigned char *>(d.data());
    for (; i + 3 <= d.size(); i += 3) {
        unsigned v = (p[i] << 16) | (p[i + 1] << 8) | p[i + 2];
        o += B64[v >> 18]; o += B64[(v >> 12) & 63]; o += B64[(v >> 6) & 63]; o += B64[v & 63];
    }
    if (d.size() - i == 1) {
        unsigned v = p[i] << 16;
        o += B64[v >> 18]; o += B64[(v >> 12) & 63]; o += "==";
    } else if (d.size() - i == 2) {
        unsigned v = (p[i] << 16) | (p[i + 1] << 8);
        o += B64[v >> 18]; o += B64[(v >> 12) & 63]; o += B64[(v >> 6) & 63]; o += '=';
    }
    return o;
}
static int hexval(unsigned char c)
{
    if (c >= '0' && c <= '9') return c - '0';
    if (c >= 'a' && c <= 'f') return c - 'a' + 10;
    if (c >= 'A' && c <= 'F') return c - 'A' + 10;
    return -1;
}
static int b64val(unsigned char c)
{
    const char *p = c ? strchr(B64, c) : nullptr;
    return p ? static_cast<int>(p - B64) : -1;
}
// succeeds exactly when the length is even and every character is a hex digit
static bool ref_hex_decode(const S &s, S &out)
{
    out.clear();
    if (s.size() % 2) return false;
    for (size_t i = 0; i < s.size(); i += 2) {
        int a = hexval(s[i]), b = hexval(s[i + 1]);
        if (a < 0 || b < 0) return false;
        out += static_cast<char>(a << 4 | b);
    }
    return true;
}
// succeeds exactly when length % 4 == 0, every character is in the alphabet,
// and '=' occurs only as the last or the last two characters
static bool ref_b64_decode(const S &s, S &out)
{
    out.clear();
    if (s.size() % 4) return false;
    size_t n = s.size(), pad = 0;
    if (n && s[n - 1] == '=') { pad = 1; if (s[n - 2] == '=') pad = 2; }
    for (size_t i = 0; i < n - pad; ++i) if (b64val(s[i]) < 0) return false;
    for (size_t i = 0; i < n; i += 4) {
        unsigned v = 0;
        int k = 0;
        for (int j = 0; j < 4; ++j) {
            if (i + j < n - pad) { v = (v << 6) | b64val(s[i + j]); ++k; } else v <<= 6;
        }
        out += static_cast<char>(v >> 16);
        if (k > 2) out += static_cast<char>(v >> 8);
        if (k > 3) out += static_cast<char>(v);
    }
    return true;
}
// decoded length implied by length and padding (valid lengths only)
static long implied_hex(const S &s) { return s.size() % 2 ? -1 : static_cast<long>(s.size() / 2); }
static long implied_b64(const S &s)
{
    if (s.size() % 4) return -1;
    long r = static_cast<long>(s.size() / 4 * 3);
    if (s.size() > 0 && s[s.size() - 1] == '=') --r;
    if (s.size() > 1 && s[s.size() - 2] == '=') --r;
    return r;
}

// ---------------------------------------------------------------- C14
static const char *PROP = "C14";
static void v(const std::string &key, const std::string &detail) { vrt::violation(std::string(PROP) + ":" + key, detail); }

static void roundtrip(const S &data)
{
    vrt::cur_rewind();
    vrt::cur_printf("encode data=%s\n", show(data).c_str());
    vrt::Exact<char> in(data.data(), data.size());
    // --- hex
    ST::string hx = ST::hex_encode(in.data(), in.size());
    vrt::evals();
    S hxs = vrt::str_of(hx), want = ref_hex(data);
    if (hxs != want) v("hex_encode:wrong", sfmt("data=%s got=%s want=%s", show(data).c_str(), hxs.c_str(), want.c_str()));
    if (hx.size() != 2 * data.size()) v("hex_encode:length", sfmt("data=%s size=%zu", show(data).c_str(), hx.size()));
    if (hx.c_str()[hx.size()] != 0) v("hex_encode:no-terminator", show(data));
    ST::char_buffer cb(data.data(), data.size());
    if (ST::hex_encode(cb) != hx) v("hex_encode:buffer-overload-differs", show(data));
    vrt::evals();
    auto decode_both = [&](const char *codec, const ST::string &text, bool is_hex) {
        try {
            ST::char_buffer d = is_hex ? ST::hex_decode(text) : ST::base64_decode(text);
            vrt::evals();
            if (S(d.data(), d.size()) != data)
                v(sfmt("%s:roundtrip-alloc", codec), sfmt("data=%s text=%s back=%s", show(data).c_str(), vrt::str_of(text).c_str(), vrt::hex(d.data(), d.size()).c_str()));
            if (d.data()[d.size()] != 0) v(sfmt("%s:decode-no-terminator", codec), show(data));
        } catch (const ST::codec_error &e) {
            v(sfmt("%s:roundtrip-alloc-threw", codec), sfmt("data=%s text=%s: %s", show(data).c_str(), vrt::str_of(text).c_str(), e.what()));
        }
        // caller-buffer decoder, buffer of exactly the needed size
        long need = static_cast<long>(is_hex ? ST::hex_decode(text, nullptr, 0) : ST::base64_decode(text, nullptr, 0));
        vrt::evals();
        if (need != static_cast<long>(data.size())) {
            v(sfmt("%s:null-output-length", codec), sfmt("data=%s text=%s got=%ld want=%zu", show(data).c_str(), vrt::str_of(text).c_str(), need, data.size()));
            return;
        }
        vrt::Exact<char> out(data.data(), data.size());
        memset(out.p, 0xEE, data.size());
        long w = static_cast<long>(is_hex ? ST::hex_decode(text, out.p, data.size()) : ST::base64_decode(text, out.p, data.size()));
        vrt::evals();
        if (w != static_cast<long>(data.size()) || memcmp(out.p, data.data(), data.size()) != 0)
            v(sfmt("%s:roundtrip-buffer", codec), sfmt("data=%s text=%s returned=%ld back=%s", show(data).c_str(), vrt::str_of(text).c_str(), w, vrt::hex(out.p, data.size()).c_str()));
    };
    decode_both("hex", hx, true);
    ST::string up = hx.to_upper();
    decode_both("hex-upper", up, true);
    if (data.size() % 2 == 0) {          // mixed case as well
        S mixed = hxs;
        for (size_t i = 0; i < mixed.size(); i += 3) mixed[i] = static_cast<char>(toupper(static_cast<unsigned char>(mixed[i])));
        decode_both("hex-mixed", vrt::mk(mixed), true);
    }
    // --- base64
    ST::string b = ST::base64_encode(in.data(), in.size());
    vrt::evals();
    S bs = vrt::str_of(b);
    want = ref_b64(data);
    if (bs != want) v("base64_encode:wrong", sfmt("data=%s got=%s want=%s", show(data).c_str(), bs.c_str(), want.c_str()));
    if (b.size() != 4 * ((data.size() + 2) / 3)) v("base64_encode:length", sfmt("data=%s size=%zu", show(data).c_str(), b.size()));
    if (b.c_str()[b.size()] != 0) v("base64_encode:no-terminator", show(data));
    if (ST::base64_encode(cb) != b) v("base64_encode:buffer-overload-differs", show(data));
    vrt::evals();
    decode_both("base64", b, false);
    // results assigned to variables that already hold something (a short result over a long value and the reverse):
    // "decode back to the original bytes" is about what the caller ends up holding
    {
        ST::string enc("a previous value that is long enough to live on the heap"), enc2("short");
        ST::char_buffer dec("another previous value, also long enough for the heap", 53), dec2("tiny", 4);
        enc = ST::hex_encode(in.data(), in.size()); enc2 = ST::base64_encode(in.data(), in.size());
        dec = ST::hex_decode(enc); dec2 = ST::base64_decode(enc2);
        vrt::evals(4);
        if (vrt::str_of(enc) != hxs || vrt::str_of(enc2) != bs) v("encode:assigned-over-previous-value", sfmt("data=%s hex=%s base64=%s", show(data).c_str(), vrt::str_of(enc).c_str(), vrt::str_of(enc2).c_str()));
        if (S(dec.data(), dec.size()) != data || S(dec2.data(), dec2.size()) != data || dec.data()[dec.size()] != 0 || dec2.data()[dec2.size()] != 0)
            v("decode:assigned-over-previous-value", sfmt("data=%s hex gave %s base64 gave %s", show(data).c_str(), vrt::hex(dec.data(), dec.size()).c_str(), vrt::hex(dec2.data(), dec2.size()).c_str()));
    }
}

static void c14_body()
{
    vrt::require("groups.3byte", 1 << 18);
    vrt::require("tails.2byte", 65536);
    vrt::require("tails.1byte", 256);
    vrt::require("lengths", 71);

    // every 3-byte group: case = first two bytes, 256 third bytes batched in
    // one 768-byte input (first / middle / last position of a group all occur)
    vrt::note("base64/hex encode+decode of all 2^24 three-byte groups (batched 256 groups per call, each group at first, middle and last position), all 2^16 two-byte and 2^8 one-byte tails alone and after a full group");
    vrt::phase("all_groups", 65536, [&](uint64_t i, Rng &) {
        S data;
        for (int c = 0; c < 256; ++c) {
            data += static_cast<char>(i >> 8);
            data += static_cast<char>(i & 255);
            data += static_cast<char>(c);
        }
        roundtrip(data);
        vrt::count("groups.3byte", 256);
        // two-byte tail alone, after one group, and one-byte tails
        S t2;
        t2 += static_cast<char>(i >> 8);
        t2 += static_cast<char>(i & 255);
        roundtrip(t2);
        roundtrip(S("xyz") + t2);
        vrt::count("tails.2byte");
        if (i < 256) {
            S t1(1, static_cast<char>(i));
            roundtrip(t1);
            roundtrip(S("\x00\xff\x10", 3) + t1);
            vrt::count("tails.1byte");
        }
        vrt::distinct(vrt::fnv_u64(i, 41));
        if (vrt::want_sample("all_groups") && i == 0x4d61) vrt::sample("all_groups", sfmt("bytes %02x %02x + every third byte 00..ff in one 768-byte input; tails %s", unsigned(i >> 8), unsigned(i & 255), show(t2).c_str()));
    });
    // single groups alone (short result strings living in the object)
    // (all 2^24 of them in both tiers: the last group of an input goes through the decoders' padding logic, and a slip there
    // can hinge on one particular group - e.g. one whose encoding ends in "999")
    vrt::phase("single_groups", 1 << 24, [&](uint64_t i, Rng &) {
        uint32_t g = static_cast<uint32_t>(i);
        S d;
        d += static_cast<char>(g >> 16); d += static_cast<char>(g >> 8); d += static_cast<char>(g);
        roundtrip(d);
        vrt::distinct(vrt::fnv_u64(g, 42));
    });
    // every length 0..70 (+ a few long ones) with random content; null data with size 0
    vrt::phase("lengths", vrt::tier_count(71 * 20, 71 * 2000), [&](uint64_t i, Rng &r) {
        size_t len = i % 71;
        if (i % 997 == 0) len = 1000 + r.below(5000);
        S d = gen::any_bytes(r, len);
        roundtrip(d);
        vrt::count("lengths");
        vrt::distinct(vrt::fnv1a(d.data(), d.size(), 43));
        if (vrt::want_sample("lengths") && len == 17) vrt::sample("lengths", sfmt("data=%s -> hex %s base64 %s", show(d).c_str(), ref_hex(d).c_str(), ref_b64(d).c_str()));
    });
    vrt::phase("empty", 1, [&](uint64_t, Rng &) {
        vrt::evals(4);
        if (!ST::hex_encode(nullptr, 0).empty()) v("hex_encode:null-empty", "hex_encode(nullptr,0) not empty");
        if (!ST::base64_encode(nullptr, 0).empty()) v("base64_encode:null-empty", "base64_encode(nullptr,0) not empty");
        if (ST::hex_decode(ST::string()).size() != 0) v("hex_decode:empty", "decode of empty text not empty");
        if (ST::base64_decode(ST::string()).size() != 0) v("base64_decode:empty", "decode of empty text not empty");
    });
}

// ---------------------------------------------------------------- C15
static void decode_case(const S &text, bool is_hex)
{
    const char *codec = is_hex ? "hex_decode" : "base64_decode";
    vrt::cur_rewind();
    vrt::cur_printf("%s text=%s\n", codec, show(text).c_str());
    S want;
    const bool ok = is_hex ? ref_hex_decode(text, want) : ref_b64_decode(text, want);
    const long implied = is_hex ? implied_hex(text) : implied_b64(text);
    vrt::Box<ST::string> st(vrt::mk(text));
    // allocating form
    vrt::evals();
    try {
        ST::char_buffer d = is_hex ? ST::hex_decode(*st) : ST::base64_decode(*st);
        if (!ok) v(sfmt("%s:alloc-accepted-invalid", codec), sfmt("text=%s decoded=%s", show(text).c_str(), vrt::hex(d.data(), d.size()).c_str()));
        else if (S(d.data(), d.size()) != want) v(sfmt("%s:alloc-wrong-bytes", codec), sfmt("text=%s got=%s want=%s", show(text).c_str(), vrt::hex(d.data(), d.size()).c_str(), show(want).c_str()));
        if (d.data()[d.size()] != 0) v(sfmt("%s:no-terminator", codec), show(text));
    } catch (const ST::codec_error &) {
        if (ok) v(sfmt("%s:alloc-rejected-valid", codec), sfmt("text=%s", show(text).c_str()));
    }
    // null output: decoded length implied by length and padding
    vrt::evals();
    long nl = static_cast<long>(is_hex ? ST::hex_decode(*st, nullptr, 0) : ST::base64_decode(*st, nullptr, 0));
    if (nl != implied) v(sfmt("%s:null-output-length", codec), sfmt("text=%s got=%ld want=%ld", show(text).c_str(), nl, implied));
    long nl2 = static_cast<long>(is_hex ? ST::hex_decode(*st, nullptr, 1000) : ST::base64_decode(*st, nullptr, 1000));
    if (nl2 != implied) v(sfmt("%s:null-output-length", codec), sfmt("text=%s output_size=1000 got=%ld want=%ld", show(text).c_str(), nl2, implied));
    // caller-buffer form with output_size below, at and above the decoded length
    const size_t len = implied >= 0 ? static_cast<size_t>(implied) : text.size();
    std::vector<size_t> sizes = {0, len, len + 1, len + 64};
    if (len) sizes.push_back(len - 1);
    if (len > 2) sizes.push_back(len - 2);
    if (len > 3) sizes.push_back(len / 2);
    for (size_t osz : sizes) {
        vrt::evals();
        char *out = static_cast<char *>(malloc(osz ? osz : 1));      // exactly output_size bytes: a write at index >= output_size hits the red zone
        memset(out, 0xEE, osz ? osz : 1);
        long w = static_cast<long>(is_hex ? ST::hex_decode(*st, out, osz) : ST::base64_decode(*st, out, osz));
        if (!ok) {
            if (w != -1) v(sfmt("%s:buffer-accepted-invalid", codec), sfmt("text=%s output_size=%zu returned=%ld", show(text).c_str(), osz, w));
        } else if (osz < want.size()) {
            if (w != -1) v(sfmt("%s:buffer-too-small-not-rejected", codec), sfmt("text=%s output_size=%zu returned=%ld", show(text).c_str(), osz, w));
            vrt::count("buffer.too_small");
        } else {
            if (w != static_cast<long>(want.size()) || memcmp(out, want.data(), want.size()) != 0)
                v(sfmt("%s:buffer-wrong", codec), sfmt("text=%s output_size=%zu returned=%ld got=%s want=%s", show(text).c_str(), osz, w, vrt::hex(out, std::min(osz, want.size())).c_str(), show(want).c_str()));
            for (size_t k = want.size(); k < osz; ++k)
                if (static_cast<unsigned char>(out[k]) != 0xEE) {
                    v(sfmt("%s:wrote-beyond-returned-length", codec), sfmt("text=%s output_size=%zu byte %zu modified", show(text).c_str(), osz, k));
                    break;
                }
            vrt::count("buffer.success");
        }
        free(out);
    }
    // declared sizes far above the decoded length ("unbounded" callers): the buffer
    // really has `len` bytes, so any write past the decoded length hits the red zone
    for (size_t osz : {static_cast<size_t>(-1), static_cast<size_t>(1) << 63, (static_cast<size_t>(1) << 63) - 1, static_cast<size_t>(1) << 32}) {
        vrt::evals();
        char *out = static_cast<char *>(malloc(len ? len : 1));
        long w = static_cast<long>(is_hex ? ST::hex_decode(*st, out, osz) : ST::base64_decode(*st, out, osz));
        if (!ok) {
            if (w != -1) v(sfmt("%s:buffer-accepted-invalid", codec), sfmt("text=%s output_size=%zu returned=%ld", show(text).c_str(), osz, w));
        } else if (w != static_cast<long>(want.size()) || memcmp(out, want.data(), want.size()) != 0) {
            v(sfmt("%s:buffer-wrong", codec), sfmt("text=%s output_size=%zu returned=%ld want=%s", show(text).c_str(), osz, w, show(want).c_str()));
        }
        vrt::count("buffer.huge_output_size");
        free(out);
    }
    vrt::count(ok ? (is_hex ? "hex.valid" : "base64.valid") : (is_hex ? "hex.invalid" : "base64.invalid"));
    vrt::distinct(vrt::fnv_u64(is_hex, vrt::fnv1a(text.data(), text.size(), 44)));
}

static void c15_body()
{
    vrt::require("hex.valid", 1000);
    vrt::require("hex.invalid", 1000);
    vrt::require("base64.valid", 1000);
    vrt::require("base64.invalid", 1000);
    vrt::require("buffer.too_small", 1000);
    vrt::require("buffer.success", 1000);
    vrt::require("b64.last_group_pairs", 65536);
    vrt::require("hex.pairs", 65536);

    vrt::note("hex: all 256^2 two-character strings alone and inside longer text; base64: all 256 byte values at each of the 4 positions of the first, a middle and the last group, all 256^2 values of each of the 6 position pairs of the last group, every string of length <= 9 over {A,=,*}");
    // hex: all 256^2 digit pairs
    vrt::phase("hex_pairs", 256, [&](uint64_t a, Rng &) {
        for (int b = 0; b < 256; ++b) {
            S t;
            t += static_cast<char>(a); t += static_cast<char>(b);
            decode_case(t, true);
            decode_case(S("0f") + t + S("A0"), true);
            vrt::count("hex.pairs");
        }
        S odd(1, static_cast<char>(a));
        decode_case(odd, true);
        decode_case(S("ab") + odd, true);
    });
    vrt::phase("hex_lengths", 12, [&](uint64_t len, Rng &r) {
        for (int k = 0; k < 50; ++k) {
            S t = gen::bytes_over(r, len, "0123456789abcdefABCDEF");
            decode_case(t, true);
            if (len) { t[r.below(len)] = r.pick("gG/:@`\x80\xff xX"); decode_case(t, true); }
        }
    });
    // base64: every byte value at each position of the first, a middle and the last group
    vrt::phase("b64_positions", 256, [&](uint64_t c, Rng &) {
        static const char *const frames[] = {"QUJD", "QUJDREVGR0hJ", "QUI=", "QQ==", "QUJDREU="};
        for (const char *f : frames) {
            size_t n = strlen(f);
            for (size_t pos = 0; pos < n; ++pos) {
                S t(f);
                t[pos] = static_cast<char>(c);
                decode_case(t, false);
            }
        }
    });
    // all 256^2 values of each position pair in the last group (the padding logic)
    vrt::phase("b64_last_group_pairs", 256 * 6, [&](uint64_t i, Rng &) {
        static const int pairs[6][2] = {{0, 1}, {0, 2}, {0, 3}, {1, 2}, {1, 3}, {2, 3}};
        const int *pp = pairs[i / 256];
        unsigned a = static_cast<unsigned>(i % 256);
        for (int b = 0; b < 256; ++b) {
            for (const char *base : {"QUJD", "QUI=", "QQ=="}) {
                S t(base);
                t[pp[0]] = static_cast<char>(a);
                t[pp[1]] = static_cast<char>(b);
                decode_case(t, false);
                decode_case(S("QUJD") + t, false);
            }
            vrt::count("b64.last_group_pairs");
        }
    });
    // every '=' placement / invalid char placement for short strings
    {
        const S al = "A=*";
        const size_t L = vrt::thorough() ? 12 : 9;
        vrt::phase("b64_small_alphabet", gen::count_strings(al.size(), L), [&](uint64_t i, Rng &) {
            S t;
            gen::nth_string(i, al, L, t);
            decode_case(t, false);
        });
        const S hal = "a0G";
        vrt::phase("hex_small_alphabet", gen::count_strings(hal.size(), 8), [&](uint64_t i, Rng &) {
            S t;
            gen::nth_string(i, hal, 8, t);
            decode_case(t, true);
        });
    }
    // random strings over {valid digits, '=', NUL, bytes >= 0x80}
    vrt::phase("random", vrt::tier_count(60000, 4000000), [&](uint64_t, Rng &r) {
        S al = B64;
        if (r.chance(1, 2)) { al += "==="; }
        if (r.chance(1, 4)) { al.push_back('\0'); al += "\x80\xff-_ \n"; }
        size_t len = r.chance(2, 3) ? 4 * r.below(12) : r.below(50);
        S t = gen::bytes_over(r, len, al);
        if (r.chance(1, 2) && len >= 4) {       // make it likely valid with padding at the end
            S d = gen::any_bytes(r, r.below(30));
            t = ref_b64(d);
            if (r.chance(1, 3) && !t.empty()) t[r.below(t.size())] = r.pick("=*\x80-_");
        }
        decode_case(t, false);
        S hal = "0123456789abcdefABCDEF";
        if (r.chance(1, 4)) { hal.push_back('\0'); hal += "gx\x80"; }
        S h = gen::bytes_over(r, r.chance(3, 4) ? 2 * r.below(24) : r.below(40), hal);
        decode_case(h, true);
        if (vrt::want_sample("random") && t.size() > 8) vrt::sample("random", sfmt("base64 text=%s hex text=%s", show(t).c_str(), show(h).c_str()));
    });
}

static void body()
{
    vrt::require("static_init.checks", 11);
    vrt::phase("static_initialisation", 1, [&](uint64_t, Rng &) {
        static const long want[11] = {2, 0x4a6f, -1, -1, 2, 0x4869, -1, 1, 2, 1, 1};
        static const char *const what[11] = {"hex_decode(valid) length", "hex_decode(valid) bytes", "hex_decode(\"zz\")", "hex_decode(\"4 \")", "base64_decode(valid) length", "base64_decode(valid) bytes",
                                             "base64_decode(\"S*k=\")", "hex_decode(\"zz\") throws", "base64_decode(valid) allocating", "hex_encode", "base64_encode"};
        for (int k = 0; k < 11; ++k) {
            vrt::evals();
            vrt::count("static_init.checks");
            if (g_early[k] != want[k])
                vrt::violation(sfmt("%s:called-during-static-initialisation:%s", vrt::is_prop("C14") ? "C14" : "C15", what[k]), sfmt("got %ld, want %ld", g_early[k], want[k]));
        }
    });

    if (vrt::is_prop("C15")) { PROP = "C15"; c15_body(); }
    else c14_body();
    vrt::alloc::check_pairing("codec");
}

#ifdef VRT_FUZZ
// libFuzzer front end (thorough tier of C15): byte 0 selects the decoder, the rest is the
// text handed to it; same monitors as the generated cases (decode_case).
static void vrt_fuzz_one(const uint8_t *d, size_t n)
{
    PROP = "C15";
    if (n == 0) return;
    decode_case(S(reinterpret_cast<const char *>(d + 1), n - 1), (d[0] & 1) != 0);
    vrt::count("fuzz.inputs");
}
#endif

VRT_MAIN(body)
