// C14 / C15 - hex and base64 codecs against RFC 4648 / lower-case hex
// references; decoders against the validity predicate of the statement, with
// exact-size output buffers (ASan red zone right after output_size) and a
// canary fill for bytes beyond the returned length.
#include "vrt.h"
#include "vrt_alloc.h"
// Runs before any dynamically initialised namespace-scope object defined later in this translation unit - the library's own,
// should it have any: the decoders are used from another object's static initialiser, and must answer as they do later.
struct EarlyInit { EarlyInit(); };
static EarlyInit g_early_init;
#include "vrt_st.h"
#include "gen_text.h"
#include "gen_scale.h"
#include <sys/wait.h>
#include <spawn.h>

static long g_early[12];
static char g_early_out[8];
EarlyInit::EarlyInit()
{
    const ST::string good_hex("4a6F"), bad_hex("zz"), bad_hex2("4 "), good_b64("SGk="), bad_b64("S*k=");
    g_early[0] = static_cast<long>(ST::hex_decode(good_hex, g_early_out, sizeof(g_early_out)));
    g_early[1] = (static_cast<unsigned char>(g_early_out[0]) << 8) | static_cast<unsigned char>(g_early_out[1]);
    g_early[2] = static_cast<long>(ST::hex_decode(bad_hex, g_early_out + 4, 4));
    g_early[3] = static_cast<long>(ST::hex_decode(bad_hex2, nullptr, 0)) == 1 ? static_cast<long>(ST::hex_decode(bad_hex2, g_early_out + 4, 4)) : -2;
    g_early[4] = static_cast<long>(ST::base64_decode(good_b64, g_early_out + 4, 4));
    g_early[5] = (static_cast<unsigned char>(g_early_out[4]) << 8) | static_cast<unsigned char>(g_early_out[5]);
    g_early[6] = static_cast<long>(ST::base64_decode(bad_b64, g_early_out + 4, 4));
    try { (void)ST::hex_decode(bad_hex); g_early[7] = 0; } catch (const ST::codec_error &) { g_early[7] = 1; }
    try { ST::char_buffer b = ST::base64_decode(good_b64); g_early[8] = static_cast<long>(b.size()); } catch (const ST::codec_error &) { g_early[8] = -1; }
    const ST::string h = ST::hex_encode("\x4a\x6f", 2), b = ST::base64_encode("Hi", 2);
    g_early[9] = h == ST::string("4a6f");
    g_early[10] = b == ST::string("SGk=");
}

using vrt::Rng;
using vrt::sfmt;
typedef std::string S;

// scale phases: offset of the planted feature inside the text handed to decode_case (npos = none); big values are reported
// as length + hash + the bytes around that offset, never in full
static size_t g_focus = std::string::npos;
static const size_t BIG = 2048;
static std::string show(const S &s)
{
    return s.size() <= BIG ? vrt::hex(s.data(), s.size()) : scale::brief(s);
}
static std::string showt(const S &text)
{
    return text.size() <= BIG ? vrt::hex(text.data(), text.size()) : scale::brief(text, g_focus < text.size() ? g_focus : std::string::npos);
}
// a text result next to the value it should have had: in full while it is short, otherwise around the first difference
static std::string txt(const S &got, const S &want)
{
    if (got.size() <= BIG) return got;
    const size_t d = scale::first_diff(got, want);
    return d == std::string::npos ? scale::brief(got) : sfmt("(first difference at %zu) ", d) + scale::brief(got, d);
}
static std::string txt(const ST::string &t) { return t.size() <= BIG ? vrt::str_of(t) : scale::brief(vrt::str_of(t)); }

// ---------------------------------------------------------------- references
static const char B64[] = "ABCDEFGHIJKLMNOPQRSTUVWXYZabcdefghijklmnopqrstuvwxyz0123456789+/";

static S ref_hex(const S &d)
{
    static const char digs[] = "0123456789abcdef";
    S o;
    for (unsigned char c : d) { o += digs[c >> 4]; o += digs[c & 15]; }
    return o;
}
static S ref_b64(const S &d)
{
    S o;
    size_t i = 0;
    const unsigned char *p = reinterpret_cast<const unsigned char *>(d.data());
    for (; i + 3 <= d.size(); i += 3) {
        unsigned v = (p[i] << 16) | (p[i + 1] << 8) | p[i + 2];
        o += B64[v >> 18]; o += B64[(v >> 12) & 63]; o += B64[(v >> 6) & 63]; o += B64[v & 63];
    }
    if (d.size() - i == 1) {
        unsigned v = p[i] << 16;
        o += B64[v >> 18]; o += B64[(v >> 12) & 63]; o += "==";
    } else if (d.size() - i == 2) {
        unsigned v = (p[i] << 16) | (p[i + 1] << 8);
        o += B64[v >> 18]; o += B64[(v >> 12) & 63]; o += B64[(v >> 6) & 63]; o += '=';
    }
    return o;
}
static int hexval(unsigned char c)
{
    if (c >= '0' && c <= '9') return c - '0';
    if (c >= 'a' && c <= 'f') return c - 'a' + 10;
    if (c >= 'A' && c <= 'F') return c - 'A' + 10;
    return -1;
}
static int b64val(unsigned char c)
{
    const char *p = c ? strchr(B64, c) : nullptr;
    return p ? static_cast<int>(p - B64) : -1;
}
// succeeds exactly when the length is even and every character is a hex digit
static bool ref_hex_decode(const S &s, S &out)
{
    out.clear();
    if (s.size() % 2) return false;
    for (size_t i = 0; i < s.size(); i += 2) {
        int a = hexval(s[i]), b = hexval(s[i + 1]);
        if (a < 0 || b < 0) return false;
        out += static_cast<char>(a << 4 | b);
    }
    return true;
}
// succeeds exactly when length % 4 == 0, every character is in the alphabet,
// and '=' occurs only as the last or the last two characters
static bool ref_b64_decode(const S &s, S &out)
{
    out.clear();
    if (s.size() % 4) return false;
    size_t n = s.size(), pad = 0;
    if (n && s[n - 1] == '=') { pad = 1; if (s[n - 2] == '=') pad = 2; }
    for (size_t i = 0; i < n - pad; ++i) if (b64val(s[i]) < 0) return false;
    for (size_t i = 0; i < n; i += 4) {
        unsigned v = 0;
        int k = 0;
        for (int j = 0; j < 4; ++j) {
            if (i + j < n - pad) { v = (v << 6) | b64val(s[i + j]); ++k; } else v <<= 6;
        }
        out += static_cast<char>(v >> 16);
        if (k > 2) out += static_cast<char>(v >> 8);
        if (k > 3) out += static_cast<char>(v);
    }
    return true;
}
// decoded length implied by length and padding (valid lengths only)
static long implied_hex(const S &s) { return s.size() % 2 ? -1 : static_cast<long>(s.size() / 2); }
static long implied_b64(const S &s)
{
    if (s.size() % 4) return -1;
    long r = static_cast<long>(s.size() / 4 * 3);
    if (s.size() > 0 && s[s.size() - 1] == '=') --r;
    if (s.size() > 1 && s[s.size() - 2] == '=') --r;
    return r;
}


// ---------------------------------------------------------------- scale helpers
// n bytes of one of several kinds of content: random, homogeneous (0x00 / 0xFF / one random value), a small alphabet, a
// homogeneous background with one short random stretch near a multiple of a block size
static const char *const CONTENT[] = {"random", "all-00", "all-ff", "one-value", "small-alphabet", "constant-with-random-stretch"};
static void fill_random(char *p, size_t n, Rng &r)
{
    size_t i = 0;
    for (; i + 8 <= n; i += 8) { const uint64_t x = r.next(); memcpy(p + i, &x, 8); }
    if (i < n) { const uint64_t x = r.next(); memcpy(p + i, &x, n - i); }
}
static S scale_bytes(Rng &r, size_t n, unsigned kind)
{
    switch (kind) {
    case 0: { S s(n, '\0'); if (n) fill_random(&s[0], n, r); return s; }
    case 1: return S(n, '\0');
    case 2: return S(n, '\xff');
    case 3: return S(n, static_cast<char>(r.below(256)));
    case 4: { S al = gen::any_bytes(r, 2 + r.below(3)); return gen::bytes_over(r, n, al); }
    default: {
        S s(n, static_cast<char>(r.below(256)));
        if (n) {
            S piece = gen::any_bytes(r, 1 + r.below(64));
            scale::plant(s, scale::offset_any(r, n), piece);
        }
        return s;
    }
    }
}
// valid text of exactly n characters over the alphabet: one character repeated, or random
static S scale_text(Rng &r, size_t n, const S &alphabet)
{
    if (r.chance(1, 3)) return S(n, alphabet[r.below(alphabet.size())]);
    S s(n, '\0');
    size_t i = 0;
    while (i < n) {
        uint64_t x = r.next();
        for (int k = 0; k < 8 && i < n; ++k, x >>= 8) s[i++] = alphabet[(x & 255) % alphabet.size()];
    }
    return s;
}

// ---------------------------------------------------------------- C14
static const char *PROP = "C14";
// same_storage / crosstalk / alignment / soak phases: what came before the call that is being judged (the monitors only know
// the value in front of them); appended to every violation detail while it is set
static std::string g_context;
static void v(const std::string &key, const std::string &detail)
{
    vrt::violation(std::string(PROP) + ":" + key, g_context.empty() ? detail : detail + " [" + g_context + "]");
}

// ---------------------------------------------------------------- storage that outlives a value (same_storage / soak phases)
// A caller's array of n bytes that starts k bytes into its heap block and ends where the block ends (red zone right behind
// it); the caller overwrites it in place between two calls, so the library sees different content at the same address with
// the same length.  The k bytes in front carry a canary.
struct Pinned {
    char *base, *p;
    size_t n, k;
    Pinned(size_t n_, size_t k_) : n(n_), k(k_)
    {
        base = static_cast<char *>(malloc(n + k ? n + k : 1));
        if (!base) { fprintf(stderr, "vrt: out of memory\n"); _exit(98); }
        p = base + k;
        memset(base, 0xA5, k);
    }
    void put(const S &s) { if (!s.empty()) memcpy(p, s.data(), s.size()); }
    ~Pinned() { free(base); }
    Pinned(const Pinned &) = delete;
    Pinned &operator=(const Pinned &) = delete;
};
// An object slot of the caller's: the object in it is destroyed and its successor is built in the same storage (what a
// std::optional, a vector element or a member that is destroyed and constructed again does), so the successor has the ADDRESS
// of its predecessor.  The release of the predecessor's heap block is parked (vrt::placement_force_parks), so that a
// successor that needs a block of the same size gets that very block (best effort - the callers count how often it worked).
// The storage ends where the object ends; shift 8 puts the object at 8 mod 16.
template <typename T>
struct Slot {
    char *base;
    T *p = nullptr;
    size_t shift;
    explicit Slot(size_t shift_ = 0) : shift(shift_)
    {
        base = static_cast<char *>(malloc(sizeof(T) + shift));
        if (!base) { fprintf(stderr, "vrt: out of memory\n"); _exit(98); }
    }
    void *addr() const { return base + shift; }
    void destroy()
    {
        if (!p) return;
        vrt::placement_force_parks() = 2;
        p->~T();
        vrt::placement_force_parks() = 0;
        p = nullptr;
    }
    ~Slot() { if (p) p->~T(); free(base); }
    Slot(const Slot &) = delete;
    Slot &operator=(const Slot &) = delete;
};
// (the new value is complete before the old object goes, and nothing is allocated between the release and the construction)
static uint64_t g_rebuilt_long = 0, g_rebuilt_same_block = 0;
static void rebuild(Slot<ST::string> &s, const S &text)
{
    const char *old = s.p && s.p->size() >= 16 ? s.p->c_str() : nullptr;
    s.destroy();
    s.p = new (s.addr()) ST::string(vrt::mk(text));
    if (old && text.size() >= 16) { ++g_rebuilt_long; if (s.p->c_str() == old) ++g_rebuilt_same_block; }
}
static void rebuild(Slot<ST::char_buffer> &s, const S &data)
{
    const char *old = s.p && s.p->size() >= 16 ? s.p->data() : nullptr;
    s.destroy();
    s.p = new (s.addr()) ST::char_buffer(data.data(), data.size());
    if (old && data.size() >= 16) { ++g_rebuilt_long; if (s.p->data() == old) ++g_rebuilt_same_block; }
}

// ---- successors of a value: same length, different content, chosen so that a cheap summary of the storage - address, length,
// the first / last 16 units, a few sampled units, a sum / xor / order-insensitive digest of its words - does not change.
// `alphabet`: the units a text may consist of (nullptr: any byte); the last `keep_tail` units stay where they are (the padded
// group of a base64 text).  Returns the name of what was done; the result always differs from the input.
static std::string successor(Rng &r, S &s, const S *alphabet, size_t keep_tail)
{
    const S before = s;
    const size_t n = s.size();
    size_t lo = 0, hi = n > keep_tail ? n - keep_tail : 0;
    if (n >= 48 && r.chance(1, 2)) { lo = 16; hi = std::min(hi, n - 16); }       // the first and last 16 units stay as they are
    auto other_unit = [&](char c) {
        for (;;) {
            const char d = alphabet ? (*alphabet)[r.below(alphabet->size())] : static_cast<char>(r.below(256));
            if (d != c) return d;
        }
    };
    std::string what;
    for (int tries = 0; tries < 6 && s == before && hi > lo; ++tries) {
        const size_t span = hi - lo;
        const unsigned t = static_cast<unsigned>(r.below(11));
        static const size_t WIDTHS[] = {1, 2, 3, 4, 6, 8, 8, 8, 12, 16, 16, 24, 32, 64};
        size_t w = r.pick(WIDTHS);
        size_t g = r.chance(1, 4) ? r.below(8) : 0;                                // where the grid of records starts
        if (g >= span) g = 0;
        while (w > 1 && (span - g) / w < 2) w /= 2;
        const size_t cnt = (span - g) / w;
        char *base = &s[lo + g];
        switch (t) {
        case 0: {                                                                  // one unit in the middle
            static const unsigned where[] = {0, 1, 2, 3};
            const unsigned wh = r.pick(where);
            const size_t at = wh == 0 ? lo : wh == 1 ? hi - 1 : wh == 2 ? lo + span / 2 : lo + r.below(span);
            s[at] = other_unit(s[at]);
            what = sfmt("unit %zu changed", at);
            break;
        }
        case 1: {                                                                  // a stretch in the middle
            const size_t len = 1 + r.below(std::min<size_t>(span, 40)), at = lo + r.below(span - len + 1);
            for (size_t i = 0; i < len; ++i) s[at + i] = other_unit(s[at + i]);
            what = sfmt("units %zu..%zu changed", at, at + len);
            break;
        }
        case 2: case 3: {                                                          // the records sorted in place (descending when that changes nothing)
            if (cnt < 2) break;
            std::vector<S> rec(cnt);
            for (size_t i = 0; i < cnt; ++i) rec[i].assign(base + i * w, w);
            std::sort(rec.begin(), rec.end());
            if (t == 3) std::reverse(rec.begin(), rec.end());
            for (size_t i = 0; i < cnt; ++i) memcpy(base + i * w, rec[i].data(), w);
            what = sfmt("%zu records of %zu units from unit %zu sorted %s in place", cnt, w, lo + g, t == 3 ? "descending" : "ascending");
            break;
        }
        case 4: {                                                                  // the order of the records reversed
            if (cnt < 2) break;
            for (size_t i = 0, j = cnt - 1; i < j; ++i, --j) std::swap_ranges(base + i * w, base + (i + 1) * w, base + j * w);
            what = sfmt("order of %zu records of %zu units from unit %zu reversed", cnt, w, lo + g);
            break;
        }
        case 5: case 6: {                                                          // two records exchanged
            if (cnt < 2) break;
            const size_t a = r.below(cnt), b = r.chance(1, 3) ? (a + 1) % cnt : r.below(cnt);
            if (a == b) break;
            std::swap_ranges(base + a * w, base + (a + 1) * w, base + b * w);
            what = sfmt("records %zu and %zu (of %zu units, grid from unit %zu) exchanged", a, b, w, lo + g);
            break;
        }
        case 7: {                                                                  // everything rotated by 1..7 units
            const size_t k = 1 + r.below(7);
            if (span <= k) break;
            if (r.chance(1, 2)) std::rotate(s.begin() + lo, s.begin() + lo + k, s.begin() + hi);
            else std::rotate(s.begin() + lo, s.begin() + hi - k, s.begin() + hi);
            what = sfmt("units %zu..%zu rotated by %zu", lo, hi, k);
            break;
        }
        case 8: {                                                                  // two single units exchanged
            const size_t a = lo + r.below(span), b = lo + r.below(span);
            std::swap(s[a], s[b]);
            what = sfmt("units %zu and %zu exchanged", a, b);
            break;
        }
        case 9: {                                                                  // two 8-byte words changed so that their xor / their sum stays
            if (alphabet || span < 16 + g) break;
            const size_t words = (span - g) / 8, a = r.below(words), b = (a + 1 + r.below(words - 1)) % words;
            uint64_t x, y;
            const uint64_t d = r.next() | 1;
            memcpy(&x, base + 8 * a, 8); memcpy(&y, base + 8 * b, 8);
            const bool xr = r.chance(1, 2);
            if (xr) { x ^= d; y ^= d; } else { x += d; y -= d; }
            memcpy(base + 8 * a, &x, 8); memcpy(base + 8 * b, &y, 8);
            what = sfmt("8-byte words %zu and %zu (grid from unit %zu) changed, their %s unchanged", a, b, lo + g, xr ? "xor" : "sum");
            break;
        }
        default:                                                                   // everything reversed
            std::reverse(s.begin() + lo, s.begin() + hi);
            what = sfmt("units %zu..%zu reversed", lo, hi);
            break;
        }
    }
    if (s == before) {
        const size_t at = n / 2;
        s[at] = other_unit(s[at]);
        what = sfmt("unit %zu changed", at);
    }
    return what;
}

// ---- the monitors one round trip is made of (the same ones for every phase; the phases differ in what they are called on,
// where that lives and in which order the calls are made)

// where a caller-buffer decoder's output starts inside its heap block.  The block always ENDS where the output ends (a write
// at index >= output_size hits the ASan red zone); -1: the per-case placement stream decides - at the address malloc returned
// (16-byte aligned) in half of the calls, 1..15 bytes further in otherwise; 0..15: that many bytes further in.  The bytes in
// front of the output carry a canary.
static int g_out_align = -1;
struct OutBuf {
    char *base, *p;
    size_t k;
    explicit OutBuf(size_t n)
    {
        if (g_out_align >= 0) k = static_cast<size_t>(g_out_align) & 15;
        else if (vrt::placement_here()) { const uint64_t x = vrt::placement_next(); k = (x & 1) ? 1 + static_cast<size_t>((x >> 8) % 15) : 0; }
        else k = 0;
        if (n == 0 && k == 0) k = 16;            // an output of no bytes: the pointer is the end of a block, so even a write at index 0 is caught
        base = static_cast<char *>(malloc(k + n));
        if (!base) { fprintf(stderr, "vrt: out of memory\n"); _exit(98); }
        p = base + k;
        memset(base, 0xA5, k);
        if (n) memset(p, 0xEE, n);
        static uint64_t &c0 = vrt::counter("placement.outputs_16_byte_aligned"), &c1 = vrt::counter("placement.outputs_not_16_byte_aligned");
        ++((k & 15) ? c1 : c0);
    }
    bool front_intact() const
    {
        for (size_t i = 0; i < k; ++i) if (static_cast<unsigned char>(base[i]) != 0xA5) return false;
        return true;
    }
    ~OutBuf() { free(base); }
    OutBuf(const OutBuf &) = delete;
    OutBuf &operator=(const OutBuf &) = delete;
};

// pointer overloads: the text against the reference, its length, its terminator
static ST::string enc_hex(const char *in, const S &data, const S &want, S &hxs)
{
    ST::string hx = ST::hex_encode(in, data.size());
    vrt::evals();
    hxs = vrt::str_of(hx);
    if (hxs != want) v("hex_encode:wrong", sfmt("data=%s got=%s want=%s", show(data).c_str(), txt(hxs, want).c_str(), txt(want, hxs).c_str()));
    if (hx.size() != 2 * data.size()) v("hex_encode:length", sfmt("data=%s size=%zu", show(data).c_str(), hx.size()));
    if (hx.c_str()[hx.size()] != 0) v("hex_encode:no-terminator", show(data));
    return hx;
}
static ST::string enc_b64(const char *in, const S &data, const S &want, S &bs)
{
    ST::string b = ST::base64_encode(in, data.size());
    vrt::evals();
    bs = vrt::str_of(b);
    if (bs != want) v("base64_encode:wrong", sfmt("data=%s got=%s want=%s", show(data).c_str(), txt(bs, want).c_str(), txt(want, bs).c_str()));
    if (b.size() != 4 * ((data.size() + 2) / 3)) v("base64_encode:length", sfmt("data=%s size=%zu", show(data).c_str(), b.size()));
    if (b.c_str()[b.size()] != 0) v("base64_encode:no-terminator", show(data));
    return b;
}
// char_buffer overloads: the same text as `expect`
static void enc_cb(const ST::char_buffer &cb, const S &data, const S &expect, bool is_hex)
{
    const ST::string t = is_hex ? ST::hex_encode(cb) : ST::base64_encode(cb);
    vrt::evals();
    if (t.size() != expect.size() || memcmp(t.c_str(), expect.data(), expect.size()) != 0)
        v(is_hex ? "hex_encode:buffer-overload-differs" : "base64_encode:buffer-overload-differs", show(data));
}
// `text` (an encoding of `data`) back through the allocating decoder, the size query and the caller-buffer decoder with a
// buffer of exactly the needed size
static void decode_back(const char *codec, const ST::string &text, bool is_hex, const S &data)
{
    try {
        ST::char_buffer d = is_hex ? ST::hex_decode(text) : ST::base64_decode(text);
        vrt::evals();
        if (S(d.data(), d.size()) != data)
            v(sfmt("%s:roundtrip-alloc", codec), sfmt("data=%s text=%s back=%s", show(data).c_str(), txt(text).c_str(), vrt::hex(d.data(), d.size()).c_str()));
        if (d.data()[d.size()] != 0) v(sfmt("%s:decode-no-terminator", codec), show(data));
    } catch (const ST::codec_error &e) {
        v(sfmt("%s:roundtrip-alloc-threw", codec), sfmt("data=%s text=%s: %s", show(data).c_str(), txt(text).c_str(), e.what()));
    }
    // caller-buffer decoder, buffer of exactly the needed size
    long need = static_cast<long>(is_hex ? ST::hex_decode(text, nullptr, 0) : ST::base64_decode(text, nullptr, 0));
    vrt::evals();
    if (need != static_cast<long>(data.size())) {
        v(sfmt("%s:null-output-length", codec), sfmt("data=%s text=%s got=%ld want=%zu", show(data).c_str(), txt(text).c_str(), need, data.size()));
        return;
    }
    if (g_out_align >= 0) {
        // alignment-directed phases: the output at a chosen distance from a 16-byte boundary
        OutBuf out(data.size());
        long w = static_cast<long>(is_hex ? ST::hex_decode(text, out.p, data.size()) : ST::base64_decode(text, out.p, data.size()));
        vrt::evals();
        if (w != static_cast<long>(data.size()) || memcmp(out.p, data.data(), data.size()) != 0)
            v(sfmt("%s:roundtrip-buffer", codec), sfmt("data=%s text=%s returned=%ld back=%s (output %zu bytes past a 16-byte boundary)", show(data).c_str(), txt(text).c_str(), w, vrt::hex(out.p, data.size()).c_str(), out.k));
        if (!out.front_intact()) v(sfmt("%s:wrote-before-output", codec), sfmt("data=%s text=%s (output %zu bytes past a 16-byte boundary)", show(data).c_str(), txt(text).c_str(), out.k));
        return;
    }
    vrt::Exact<char> out(data.data(), data.size());
    memset(out.p, 0xEE, data.size());
    long w = static_cast<long>(is_hex ? ST::hex_decode(text, out.p, data.size()) : ST::base64_decode(text, out.p, data.size()));
    vrt::evals();
    if (w != static_cast<long>(data.size()) || memcmp(out.p, data.data(), data.size()) != 0)
        v(sfmt("%s:roundtrip-buffer", codec), sfmt("data=%s text=%s returned=%ld back=%s", show(data).c_str(), txt(text).c_str(), w, vrt::hex(out.p, data.size()).c_str()));
}
// results assigned to variables that already hold something (a short result over a long value and the reverse):
// "decode back to the original bytes" is about what the caller ends up holding
static void assigned_over(const char *in, const S &data, const S &hxs, const S &bs)
{
    ST::string enc("a previous value that is long enough to live on the heap"), enc2("short");
    ST::char_buffer dec("another previous value, also long enough for the heap", 53), dec2("tiny", 4);
    enc = ST::hex_encode(in, data.size()); enc2 = ST::base64_encode(in, data.size());
    dec = ST::hex_decode(enc); dec2 = ST::base64_decode(enc2);
    vrt::evals(4);
    if (vrt::str_of(enc) != hxs || vrt::str_of(enc2) != bs) v("encode:assigned-over-previous-value", sfmt("data=%s hex=%s base64=%s", show(data).c_str(), txt(enc).c_str(), txt(enc2).c_str()));
    if (S(dec.data(), dec.size()) != data || S(dec2.data(), dec2.size()) != data || dec.data()[dec.size()] != 0 || dec2.data()[dec2.size()] != 0)
        v("decode:assigned-over-previous-value", sfmt("data=%s hex gave %s base64 gave %s", show(data).c_str(), vrt::hex(dec.data(), dec.size()).c_str(), vrt::hex(dec2.data(), dec2.size()).c_str()));
}

// one round trip of `data`, which the library reads from `in` (data.size() bytes that end where their heap block ends)
static void roundtrip_at(const char *in, const S &data)
{
    vrt::cur_rewind();
    vrt::cur_printf("encode data=%s\n", show(data).c_str());
    // --- hex
    S hxs, bs;
    ST::string hx = enc_hex(in, data, ref_hex(data), hxs);
    ST::char_buffer cb(data.data(), data.size());
    enc_cb(cb, data, hxs, true);
    decode_back("hex", hx, true, data);
    ST::string up = hx.to_upper();
    decode_back("hex-upper", up, true, data);
    if (data.size() % 2 == 0) {          // mixed case as well
        S mixed = hxs;
        for (size_t i = 0; i < mixed.size(); i += 3) mixed[i] = static_cast<char>(toupper(static_cast<unsigned char>(mixed[i])));
        decode_back("hex-mixed", vrt::mk(mixed), true, data);
    }
    // --- base64
    ST::string b = enc_b64(in, data, ref_b64(data), bs);
    enc_cb(cb, data, bs, false);
    decode_back("base64", b, false, data);
    assigned_over(in, data, hxs, bs);
}
static void roundtrip(const S &data)
{
    vrt::Exact<char> in(data.data(), data.size());
    roundtrip_at(in.data(), data);
}

// ---------------------------------------------------------------- beyond 32 bits (C14, thorough tier only)
// One byte array of 2^32 + ~1000 bytes through base64_encode / hex_encode and back through the caller-buffer decoders.  The
// array is a lazily mapped region (untouched pages cost nothing) that is zero except for random bytes in a few windows: at
// the start, at the end, and around the offsets where a byte count, a remaining-byte count or a text index crosses 2^30,
// 2^31 or 2^32.  The text is compared with the reference in full (zero stretches against runs of 'A' / '0', windows against
// ref_b64 / ref_hex), then decoded into a second lazily mapped region that ends right at an inaccessible page.
// The results need 6 to 9 GB each, more than the allocation cap the driver gives the sanitizer runtime, so the case runs
// in a child process of its own (the same program, the same case address, a higher cap); what the child observes is
// carried over into this process, and if it dies its diagnostics and its fate become this worker's.
struct Lazy {
    char *base = nullptr, *p = nullptr;
    size_t maplen = 0;
    bool map(size_t n)
    {
        const size_t pg = static_cast<size_t>(sysconf(_SC_PAGESIZE));
        maplen = (n + pg - 1) / pg * pg + pg;
        void *m = mmap(nullptr, maplen, PROT_READ | PROT_WRITE, MAP_PRIVATE | MAP_ANONYMOUS | MAP_NORESERVE, -1, 0);
        if (m == MAP_FAILED) return false;
        base = static_cast<char *>(m);
        if (mprotect(base + maplen - pg, pg, PROT_NONE) != 0) return false;
        p = base + maplen - pg - n;                  // the n bytes end exactly where the inaccessible page begins
        return true;
    }
    ~Lazy() { if (base) munmap(base, maplen); }
};
typedef std::vector<std::pair<size_t, size_t>> Windows;
static bool in_windows(const Windows &w, size_t lo, size_t hi)
{
    for (const auto &x : w) if (lo < x.second && x.first < hi) return true;
    return false;
}
// the library's text for in[0, n) against the reference, piece by piece (a piece is 3 * 2^16 bytes, so pieces encode independently)
static bool beyond32_text(const char *key, const char *text, size_t text_len, const char *in, size_t n, const Windows &win, bool is_hex)
{
    const size_t CH = 3u << 16;
    const size_t want_len = is_hex ? 2 * n : 4 * ((n + 2) / 3);
    if (text_len != want_len) { v(sfmt("%s:length", key), sfmt("input of %zu bytes: size=%zu, expected %zu", n, text_len, want_len)); return false; }
    const S plain(is_hex ? 2 * CH : CH / 3 * 4, is_hex ? '0' : 'A');
    for (size_t o = 0; o < n; o += CH) {
        const size_t len = std::min(CH, n - o), toff = is_hex ? 2 * o : o / 3 * 4;
        S ref;
        const char *want = plain.data();
        size_t wlen = is_hex ? 2 * len : len / 3 * 4;
        if (in_windows(win, o, o + len) || len % 3 != 0) {
            const S piece(in + o, len);
            ref = is_hex ? ref_hex(piece) : ref_b64(piece);
            want = ref.data();
            wlen = ref.size();
            vrt::count("beyond32.pieces_against_reference_encoder");
        } else vrt::count("beyond32.pieces_of_zero_bytes");
        if (toff + wlen > text_len || memcmp(text + toff, want, wlen) != 0) {
            size_t d = 0;
            while (toff + d < text_len && d < wlen && text[toff + d] == want[d]) ++d;
            const size_t lo = d > 12 ? d - 12 : 0, hi = std::min(wlen, d + 12), thi = std::min(text_len, toff + hi);
            v(sfmt("%s:wrong", key), sfmt("input of %zu bytes (zero bytes except in a few windows): the text differs from the reference at character %zu (input byte %zu): got[%zu..]=%s want=%s",
                                        n, toff + d, o + (is_hex ? d / 2 : d / 4 * 3), toff + lo, vrt::hex(text + toff + lo, thi > toff + lo ? thi - toff - lo : 0).c_str(), vrt::hex(want + lo, hi - lo).c_str()));
            return false;
        }
    }
    if (text[text_len] != 0) { v(sfmt("%s:no-terminator", key), sfmt("input of %zu bytes", n)); return false; }
    return true;
}
static bool beyond32_back(const char *codec, const char *out, long returned, const char *in, size_t n)
{
    if (returned != static_cast<long>(n)) { v(sfmt("%s:roundtrip-buffer", codec), sfmt("input of %zu bytes: the caller-buffer decoder returned %ld", n, returned)); return false; }
    const size_t CH = 64u << 20;
    for (size_t o = 0; o < n; o += CH) {
        const size_t len = std::min(CH, n - o);
        if (memcmp(out + o, in + o, len) != 0) {
            size_t d = 0;
            while (d < len && out[o + d] == in[o + d]) ++d;
            const size_t lo = o + d > 12 ? o + d - 12 : 0, hi = std::min(n, o + d + 12);
            v(sfmt("%s:roundtrip-buffer", codec), sfmt("input of %zu bytes: decoded byte %zu differs: back[%zu..]=%s data=%s", n, o + d, lo, vrt::hex(out + lo, hi - lo).c_str(), vrt::hex(in + lo, hi - lo).c_str()));
            return false;
        }
    }
    return true;
}
static void beyond32_work(Rng &r)
{
    const size_t two32 = static_cast<size_t>(1) << 32;
    const size_t n = two32 + 1000 + r.below(3);
    vrt::cur_printf("beyond32: %zu bytes\n", n);
    Lazy in;
    if (!in.map(n)) { vrt::count("beyond32.skipped"); vrt::note("beyond32: cannot map the input"); return; }
    Windows win;
    const size_t W = 12288;
    for (size_t c : {static_cast<size_t>(0), n - two32, two32 / 4, 3 * (two32 / 8), two32 / 2, n - two32 / 2, 3 * (two32 / 4), two32, n}) {
        const size_t lo = c > W ? c - W : 0, hi = std::min(n, c + W);
        win.push_back({lo, hi});
        fill_random(in.p + lo, hi - lo, r);
    }
    vrt::count("beyond32.input_bytes", n);
    // ---- base64
    {
        ST::string b = ST::base64_encode(in.p, n);
        vrt::evals();
        vrt::count("beyond32.base64_encode");
        if (beyond32_text("base64_encode", b.c_str(), b.size(), in.p, n, win, false)) {
            const long need = static_cast<long>(ST::base64_decode(b, nullptr, 0));
            vrt::evals();
            if (need != static_cast<long>(n)) v("base64:null-output-length", sfmt("input of %zu bytes: got=%ld", n, need));
            Lazy out;
            if (!out.map(n)) { vrt::count("beyond32.skipped"); vrt::note("beyond32: cannot map the output"); return; }
            memset(out.p, 0xEE, n);
            const long w = static_cast<long>(ST::base64_decode(b, out.p, n));
            vrt::evals();
            if (beyond32_back("base64", out.p, w, in.p, n)) vrt::count("beyond32.base64_decoded_back");
        }
    }
    // ---- hex
    {
        ST::string h = ST::hex_encode(in.p, n);
        vrt::evals();
        vrt::count("beyond32.hex_encode");
        if (beyond32_text("hex_encode", h.c_str(), h.size(), in.p, n, win, true)) {
            const long need = static_cast<long>(ST::hex_decode(h, nullptr, 0));
            vrt::evals();
            if (need != static_cast<long>(n)) v("hex:null-output-length", sfmt("input of %zu bytes: got=%ld", n, need));
            Lazy out;
            if (!out.map(n)) { vrt::count("beyond32.skipped"); vrt::note("beyond32: cannot map the output"); return; }
            memset(out.p, 0xEE, n);
            const long w = static_cast<long>(ST::hex_decode(h, out.p, n));
            vrt::evals();
            if (beyond32_back("hex", out.p, w, in.p, n)) vrt::count("beyond32.hex_decoded_back");
        }
    }
    vrt::count("beyond32.done");
}
static unsigned long long mem_available_kb()
{
    FILE *f = fopen("/proc/meminfo", "r");
    if (!f) return 0;
    char line[256];
    unsigned long long kb = 0;
    while (fgets(line, sizeof(line), f))
        if (sscanf(line, "MemAvailable: %llu kB", &kb) == 1) break;
    fclose(f);
    return kb;
}
extern char **environ;
static void beyond32_case(Rng &r)
{
    const char *result_path = getenv("VRT_BEYOND32_CHILD");
    if (result_path) {
        // the child: do the work, then hand everything observed to the parent
        beyond32_work(r);
        FILE *f = fopen(result_path, "w");
        if (!f) { perror("beyond32: result file"); _exit(98); }
        fprintf(f, "E\t%llu\n", static_cast<unsigned long long>(vrt::st().evaluations));
        for (const auto &kv : vrt::st().counters) if (kv.second) fprintf(f, "C\t%s\t%llu\n", kv.first.c_str(), static_cast<unsigned long long>(kv.second));
        for (const std::string &nt : vrt::st().notes) fprintf(f, "N\t%s\n", nt.c_str());
        for (const auto &kv : vrt::st().violations) {
            S d = kv.second.detail;
            for (char &c : d) if (c == '\n' || c == '\t') c = ' ';
            fprintf(f, "V\t%s\t%s\n", kv.first.c_str(), d.c_str());
        }
        fprintf(f, "DONE\n");
        fclose(f);
        return;
    }
    const unsigned long long avail = mem_available_kb();
    if (avail < (24ull << 20)) {
        vrt::count("beyond32.skipped");
        vrt::note(sfmt("beyond32: skipped, only %llu MB of memory available (24576 MB wanted)", avail >> 10));
        return;
    }
    char exe[4096];
    const ssize_t el = readlink("/proc/self/exe", exe, sizeof(exe) - 1);
    if (el <= 0) { vrt::count("beyond32.skipped"); vrt::note("beyond32: skipped, cannot find the executable"); return; }
    exe[el] = 0;
    const std::string dir = vrt::opt().outdir + sfmt("/beyond32.w%d", vrt::opt().worker), errp = dir + "/stderr", resp = dir + "/result";
    mkdir(dir.c_str(), 0755);
    unlink(resp.c_str());
    std::vector<std::string> envs;
    std::string asan = "ASAN_OPTIONS=";
    for (char **e = environ; *e; ++e) {
        if (strncmp(*e, "ASAN_OPTIONS=", 13) == 0) asan = std::string(*e) + ":";
        else if (strncmp(*e, "VRT_BEYOND32_CHILD=", 19) != 0) envs.push_back(*e);
    }
    envs.push_back(asan + "max_allocation_size_mb=65536");
    envs.push_back("VRT_BEYOND32_CHILD=" + resp);
    std::vector<char *> envp;
    for (std::string &e : envs) envp.push_back(&e[0]);
    envp.push_back(nullptr);
    const std::string seed = sfmt("%llu", static_cast<unsigned long long>(vrt::opt().seed));
    const char *argv[] = {exe, "--prop", "C14", "--tier", "thorough", "--seed", seed.c_str(), "--out", dir.c_str(), "--case", "beyond32:0", nullptr};
    posix_spawn_file_actions_t fa;
    posix_spawn_file_actions_init(&fa);
    posix_spawn_file_actions_addopen(&fa, 1, errp.c_str(), O_WRONLY | O_CREAT | O_TRUNC, 0644);
    posix_spawn_file_actions_adddup2(&fa, 1, 2);
    pid_t pid = 0;
    const int rc = posix_spawn(&pid, exe, &fa, nullptr, const_cast<char *const *>(argv), envp.data());
    posix_spawn_file_actions_destroy(&fa);
    if (rc != 0) { vrt::count("beyond32.skipped"); vrt::note(sfmt("beyond32: skipped, cannot start the child process: %s", strerror(rc))); return; }
    vrt::cur_printf("beyond32: child process %d, diagnostics in %s\n", static_cast<int>(pid), errp.c_str());
    int status = 0;
    while (waitpid(pid, &status, 0) < 0 && errno == EINTR) { }
    // what the child observed
    bool done = false;
    std::vector<std::string> lines;
    if (FILE *f = fopen(resp.c_str(), "r")) {
        std::string cur;
        int ch;
        while ((ch = fgetc(f)) != EOF) { if (ch == '\n') { lines.push_back(cur); cur.clear(); } else cur += static_cast<char>(ch); }
        fclose(f);
        done = !lines.empty() && lines.back() == "DONE";
    }
    if (done && WIFEXITED(status) && (WEXITSTATUS(status) == 0 || WEXITSTATUS(status) == 1)) {
        for (const std::string &l : lines) {
            const size_t t1 = l.find('\t'), t2 = t1 == std::string::npos ? t1 : l.find('\t', t1 + 1);
            if (l[0] == 'E' && t1 != std::string::npos) vrt::evals(strtoull(l.c_str() + t1 + 1, nullptr, 10));
            else if (l[0] == 'C' && t2 != std::string::npos) vrt::count(l.substr(t1 + 1, t2 - t1 - 1), strtoull(l.c_str() + t2 + 1, nullptr, 10));
            else if (l[0] == 'N' && t1 != std::string::npos && l.compare(t1 + 1, 8, "beyond32") == 0) vrt::note(l.substr(t1 + 1));
            else if (l[0] == 'V' && t2 != std::string::npos) vrt::violation(l.substr(t1 + 1, t2 - t1 - 1), l.substr(t2 + 1));
        }
        return;
    }
    // the child died: its diagnostics and its fate become this worker's (the driver classifies them as for any worker)
    if (FILE *f = fopen(errp.c_str(), "r")) {
        char buf[4096];
        size_t k;
        while ((k = fread(buf, 1, sizeof(buf), f)) > 0) if (fwrite(buf, 1, k, stderr) != k) break;
        fclose(f);
        fflush(stderr);
    }
    if (WIFSIGNALED(status) && WTERMSIG(status) == SIGKILL) {
        // killed from outside (the kernel's out-of-memory killer, most likely): says nothing about the library
        vrt::count("beyond32.skipped");
        vrt::note("beyond32: skipped, the child process was killed (out of memory?)");
        return;
    }
    if (WIFSIGNALED(status)) {
        vrt::cur_printf("beyond32: the child process died of signal %d\n", WTERMSIG(status));
        signal(WTERMSIG(status), SIG_DFL);
        raise(WTERMSIG(status));
        _exit(99);
    }
    if (WEXITSTATUS(status) == 97) { vrt::cur_printf("HANG\n"); _exit(97); }
    vrt::cur_printf("beyond32: the child process exited with status %d\n", WEXITSTATUS(status));
    _exit(WEXITSTATUS(status) ? WEXITSTATUS(status) : 98);
}
static void beyond32_phase()
{
    vrt::require("beyond32.ran_or_skipped", 1);
    vrt::case_cpu_budget() = 1500;       // the one case that is allowed to take minutes
    vrt::phase("beyond32", 1, [&](uint64_t, Rng &r) {
        beyond32_case(r);
        if (getenv("VRT_BEYOND32_CHILD")) return;
        const uint64_t done = vrt::counter("beyond32.done"), skipped = vrt::counter("beyond32.skipped");
        if (done || skipped) vrt::count("beyond32.ran_or_skipped");
    });
    vrt::case_cpu_budget() = 30;
}

// ---------------------------------------------------------------- C14: same_storage / alignment / soak
// the storage one sequence of values goes through: the caller's array handed to the pointer overloads, the char_buffer handed
// to the buffer overloads, the text objects handed to the decoders
struct Pins {
    Pinned in;
    Slot<ST::char_buffer> cb;
    Slot<ST::string> hex_text, b64_text;
    Pins(size_t n, size_t k, size_t shift) : in(n, k), cb(shift), hex_text(shift), b64_text(8 - shift) { }
};
enum { OP_HEX, OP_HEX_CB, OP_B64, OP_B64_CB, OP_DEC_HEX, OP_DEC_HEX_UPPER, OP_DEC_B64, OP_ASSIGNED, N_OPS };
// `data` has just been written over its predecessor in pn.in; the operations in `ops` in that order, each judged by the monitor
// every other phase uses
static void pinned_step(Pins &pn, const S &data, const std::vector<unsigned> &ops)
{
    const S want_hex = ref_hex(data), want_b64 = ref_b64(data);
    S hxs, bs;
    bool cb_built = false;
    for (unsigned op : ops) {
        switch (op) {
        case OP_HEX: (void)enc_hex(pn.in.p, data, want_hex, hxs); break;
        case OP_B64: (void)enc_b64(pn.in.p, data, want_b64, bs); break;
        case OP_HEX_CB: case OP_B64_CB:
            if (!cb_built) { rebuild(pn.cb, data); cb_built = true; }
            enc_cb(*pn.cb.p, data, op == OP_HEX_CB ? want_hex : want_b64, op == OP_HEX_CB);
            break;
        case OP_DEC_HEX: rebuild(pn.hex_text, want_hex); decode_back("hex", *pn.hex_text.p, true, data); break;
        case OP_DEC_HEX_UPPER: {
            S up = want_hex;
            for (char &c : up) if (c >= 'a' && c <= 'f') c = static_cast<char>(c - 32);
            rebuild(pn.hex_text, up);
            decode_back("hex-upper", *pn.hex_text.p, true, data);
            break;
        }
        case OP_DEC_B64: rebuild(pn.b64_text, want_b64); decode_back("base64", *pn.b64_text.p, false, data); break;
        default: assigned_over(pn.in.p, data, want_hex, want_b64); break;
        }
        vrt::count("same_storage.operations");
    }
    for (size_t i = 0; i < pn.in.k; ++i)
        if (static_cast<unsigned char>(pn.in.base[i]) != 0xA5) { v("encode:wrote-before-input", sfmt("data=%s: the bytes in front of the caller's array were modified", show(data).c_str())); break; }
    if (memcmp(pn.in.p, data.data(), data.size()) != 0) v("encode:modified-input", sfmt("data=%s: the caller's array was modified", show(data).c_str()));
}
static void shuffle(Rng &r, std::vector<unsigned> &x)
{
    for (size_t i = x.size(); i > 1; --i) std::swap(x[i - 1], x[r.below(i)]);
}

static void c14_history_phases()
{
    // same_storage: ONE caller's array (every start alignment 0..15, ending where its heap block ends) that is rewritten in
    // place between consecutive calls, one char_buffer slot and one text slot per codec whose objects are destroyed and rebuilt
    // at the same address: 4..7 values of identical length per case, each a successor of the one before (same first / last 16
    // bytes with a different middle; the same multiset of 1/2/3/4/6/8/12/16/24/32/64-byte records in another order - sorted in
    // place, two exchanged, reversed; rotated by 1..7 bytes; two words changed with their sum or xor kept).  4- and 6-byte
    // records of the data are 8-character words of its hex / base64 text, so the texts get the same treatment.
    {
        vrt::require("same_storage.cases", 200);
        vrt::require("same_storage.values_written_over_their_predecessor", 800);
        vrt::require("same_storage.successor_has_the_same_multiset_of_8_byte_words", 100);
        vrt::require("same_storage.successor_has_the_same_first_and_last_16_bytes", 200);
        vrt::require("same_storage.array>=64KiB", 8);
        vrt::require("same_storage.objects_rebuilt_in_the_heap_block_of_their_predecessor", 500);
        // (an odd number of sizes: case i runs on worker i % 16, and every worker is to meet every size)
        static const size_t SIZES[] = {20, 40, 64, 100, 256, 300, 512, 520, 1000, 1024, 1500, 4096, 5000, 8192, 16384, 24576, 65536, 131072, 262144};
        const uint64_t NS = sizeof(SIZES) / sizeof(SIZES[0]), PER = NS * 16;
        vrt::phase("same_storage", vrt::tier_count(PER * 2, PER * 20), [&](uint64_t i, Rng &r) {
            size_t n = SIZES[i % NS];
            const size_t k = (i / NS) % 16;
            const uint64_t round = i / PER;
            if (round % 2 == 1) n = r.chance(1, 2) ? 512 + r.below(65536 - 512 + 1) : scale::length(r, 65536, 512);
            if (i % 67 == 37) n = (1u << 20) - r.below(3);                          // a few of 1 MiB
            static const unsigned kinds[] = {0, 0, 0, 4, 5};
            const unsigned kind = r.pick(kinds);
            S data = scale_bytes(r, n, kind);
            Pins pn(n, k, (i & 1) ? 8 : 0);
            const size_t K = n >= (1u << 20) - 8 ? 3 : n >= 131072 ? 4 : 4 + r.below(4);
            // which operations this sequence consists of: all of them, one encoder alone (consecutive calls of one entry point
            // on the same storage), one codec, a random selection
            std::vector<unsigned> ops;
            const unsigned mode = static_cast<unsigned>(r.below(8));
            switch (mode) {
            case 0: ops = {OP_B64}; break;
            case 1: ops = {OP_HEX}; break;
            case 2: ops = {OP_B64, OP_B64_CB, OP_DEC_B64}; break;
            case 3: ops = {OP_HEX, OP_HEX_CB, OP_DEC_HEX, OP_DEC_HEX_UPPER}; break;
            case 4: for (unsigned o = 0; o < N_OPS; ++o) if (r.chance(1, 2)) ops.push_back(o); if (ops.empty()) ops.push_back(OP_B64_CB); break;
            default: for (unsigned o = 0; o < N_OPS; ++o) ops.push_back(o); break;
            }
            const uint64_t l0 = g_rebuilt_long, s0 = g_rebuilt_same_block;
            std::string history;
            for (size_t step = 0; step < K; ++step) {
                std::string what = "first value";
                if (step) {
                    const S prev = data;
                    what = successor(r, data, nullptr, 0);
                    S a = prev, b = data;
                    if (n >= 32 && memcmp(prev.data(), data.data(), 16) == 0 && memcmp(prev.data() + n - 16, data.data() + n - 16, 16) == 0)
                        vrt::count("same_storage.successor_has_the_same_first_and_last_16_bytes");
                    const size_t w8 = n / 8 * 8;
                    std::vector<uint64_t> wa(n / 8), wb(n / 8);
                    if (w8) { memcpy(wa.data(), a.data(), w8); memcpy(wb.data(), b.data(), w8); }
                    std::sort(wa.begin(), wa.end()); std::sort(wb.begin(), wb.end());
                    if (w8 && wa == wb && a.compare(w8, S::npos, b, w8, S::npos) == 0) vrt::count("same_storage.successor_has_the_same_multiset_of_8_byte_words");
                    std::sort(a.begin(), a.end()); std::sort(b.begin(), b.end());
                    if (a == b) vrt::count("same_storage.successor_has_the_same_multiset_of_bytes");
                    vrt::count("same_storage.values_written_over_their_predecessor");
                }
                pn.in.put(data);
                shuffle(r, ops);
                g_context = sfmt("same_storage: value %zu of %zu in a caller's array of %zu bytes (%zu bytes past a 16-byte boundary) that is rewritten in place; this value: %s", step + 1, K, n, k, what.c_str());
                vrt::cur_rewind();
                vrt::cur_printf("%s data=%s\n", g_context.c_str(), show(data).c_str());
                pinned_step(pn, data, ops);
                if (history.size() < 600) history += (step ? " | " : "") + what;
                vrt::distinct(vrt::fnv1a(data.data(), data.size(), 46));
            }
            g_context.clear();
            vrt::count("same_storage.objects_rebuilt", g_rebuilt_long - l0);
            vrt::count("same_storage.objects_rebuilt_in_the_heap_block_of_their_predecessor", g_rebuilt_same_block - s0);
            vrt::count("same_storage.cases");
            if (n >= 65536) vrt::count("same_storage.array>=64KiB");
            if (n >= (1u << 20) - 8) vrt::count("same_storage.array>=1MiB");
            if (vrt::want_sample("same_storage") && n >= 1000 && mode >= 5)
                vrt::sample("same_storage", sfmt("array of %zu bytes (%s), %zu bytes past a 16-byte boundary, %zu values: %s", n, CONTENT[kind], k, K, history.c_str()));
        });
    }
    // alignment: the array handed to the encoders at every distance 0..15 from a 16-byte boundary (it still ends where its
    // heap block ends), crossed with the output of the caller-buffer decoders at every such distance, for arrays of 8 .. 600
    // bytes; the array is rewritten in place for every combination.
    {
        vrt::require("alignment.roundtrips", 10000);
        vrt::require("alignment.input_and_output_distances_covered", 256);
        std::vector<size_t> sizes;
        for (size_t n = 8; n <= 40; ++n) sizes.push_back(n);
        for (size_t n : {47, 48, 49, 63, 64, 65, 71, 95, 96, 97, 100, 127, 128, 129, 191, 192, 193, 255, 256, 257, 300, 383, 384, 385, 511, 512, 513, 600}) sizes.push_back(n);
        const uint64_t NS = sizes.size();
        static bool seen[16][16];
        vrt::phase("alignment", vrt::tier_count(NS, NS * 20), [&](uint64_t i, Rng &r) {
            const size_t n = i < NS ? sizes[i] : 8 + r.below(593);
            for (size_t kin = 0; kin < 16; ++kin) {
                Pinned in(n, kin);
                for (int kout = 0; kout < 16; ++kout) {
                    const S data = scale_bytes(r, n, r.chance(1, 8) ? 2 : 0);
                    in.put(data);
                    g_out_align = kout;
                    g_context = sfmt("alignment: array of %zu bytes %zu bytes past a 16-byte boundary, decoder output %d bytes past one", n, kin, kout);
                    roundtrip_at(in.p, data);
                    g_out_align = -1;
                    vrt::count("alignment.roundtrips");
                    if (!seen[kin][kout]) { seen[kin][kout] = true; vrt::count("alignment.input_and_output_distances_covered"); }
                }
            }
            g_context.clear();
            if (vrt::want_sample("alignment") && n == 100) vrt::sample("alignment", sfmt("arrays of %zu bytes at 16 x 16 (input, decoder output) distances from a 16-byte boundary", n));
        });
    }
    // soak: more than 70000 consecutive round trips in ONE case (one process), on arrays of 16..64 (sometimes up to 300) bytes
    // in one caller's arena that is rewritten in place (the array ends where the arena ends, so where it starts varies with
    // its length); runs of 64..300 calls with the very same arguments followed directly by an array that differs from them
    // only in its last 1..7 bytes.
    {
        vrt::require("soak.cases", 16);
        vrt::require("soak.roundtrips", 16 * 70000);
        vrt::require("soak.runs_of_equal_calls_followed_by_a_different_tail", 16 * 20);
        vrt::phase("soak", vrt::tier_count(16, 64), [&](uint64_t, Rng &r) {
            const size_t ARENA = 320;
            Pinned arena(ARENA, r.below(16));
            Slot<ST::string> slot_h(0), slot_b(8);
            uint64_t done = 0, runs = 0;
            S data, want_h, want_b, hxs, bs;
            auto one = [&](bool note) {
                char *p = arena.p + ARENA - data.size();
                memcpy(p, data.data(), data.size());
                if (note) { vrt::cur_rewind(); vrt::cur_printf("soak round trip %llu data=%s\n", static_cast<unsigned long long>(done), vrt::hex(data.data(), data.size()).c_str()); }
                want_h = ref_hex(data); want_b = ref_b64(data);
                const unsigned how = static_cast<unsigned>(r.below(4));
                if (how & 1) { (void)enc_b64(p, data, want_b, bs); (void)enc_hex(p, data, want_h, hxs); }
                else { (void)enc_hex(p, data, want_h, hxs); (void)enc_b64(p, data, want_b, bs); }
                if (how & 2) { rebuild(slot_h, want_h); rebuild(slot_b, want_b); decode_back("hex", *slot_h.p, true, data); decode_back("base64", *slot_b.p, false, data); }
                else { const ST::string th = vrt::mk(want_h), tb = vrt::mk(want_b); decode_back("base64", tb, false, data); decode_back("hex", th, true, data); }
                ++done;
            };
            while (done < 72000) {
                const size_t n = r.chance(1, 8) ? 65 + r.below(236) : 16 + r.below(49);
                data = r.chance(1, 6) ? scale_bytes(r, n, static_cast<unsigned>(1 + r.below(4))) : scale_bytes(r, n, 0);
                g_context = sfmt("soak: round trip %llu of one process", static_cast<unsigned long long>(done));
                one(true);
                if (r.chance(1, 400)) {
                    const size_t reps = 64 + r.below(237);
                    g_context = sfmt("soak: round trips %llu.. of one process: %zu with the same arguments, then one whose array differs only in its last bytes", static_cast<unsigned long long>(done), reps);
                    for (size_t q = 0; q < reps; ++q) one(q == 0);
                    const size_t tail = 1 + r.below(7);
                    for (size_t q = 0; q < tail; ++q) if (r.chance(2, 3) || q == 0) data[n - 1 - q] = static_cast<char>(data[n - 1 - q] ^ (1 + r.below(255)));
                    one(true);
                    ++runs;
                }
            }
            g_context.clear();
            vrt::count("soak.cases");
            vrt::count("soak.roundtrips", done);
            vrt::count("soak.runs_of_equal_calls_followed_by_a_different_tail", runs);
            vrt::distinct(vrt::fnv_u64(done, 47));
            if (vrt::want_sample("soak")) vrt::sample("soak", sfmt("%llu consecutive round trips (hex_encode, base64_encode, both decoders in their three forms) in one case, %llu runs of 64..300 calls with the same arguments", static_cast<unsigned long long>(done), static_cast<unsigned long long>(runs)));
        });
    }
}

static void c14_body()
{
    vrt::require("groups.3byte", 1 << 18);
    vrt::require("tails.2byte", 65536);
    vrt::require("tails.1byte", 256);
    vrt::require("lengths", 71);

    // every 3-byte group: case = first two bytes, 256 third bytes batched in
    // one 768-byte input (first / middle / last position of a group all occur)
    vrt::note("base64/hex encode+decode of all 2^24 three-byte groups (batched 256 groups per call, each group at first, middle and last position), all 2^16 two-byte and 2^8 one-byte tails alone and after a full group");
    vrt::phase("all_groups", 65536, [&](uint64_t i, Rng &) {
        S data;
        for (int c = 0; c < 256; ++c) {
            data += static_cast<char>(i >> 8);
            data += static_cast<char>(i & 255);
            data += static_cast<char>(c);
        }
        roundtrip(data);
        vrt::count("groups.3byte", 256);
        // two-byte tail alone, after one group, and one-byte tails
        S t2;
        t2 += static_cast<char>(i >> 8);
        t2 += static_cast<char>(i & 255);
        roundtrip(t2);
        roundtrip(S("xyz") + t2);
        vrt::count("tails.2byte");
        if (i < 256) {
            S t1(1, static_cast<char>(i));
            roundtrip(t1);
            roundtrip(S("\x00\xff\x10", 3) + t1);
            vrt::count("tails.1byte");
        }
        vrt::distinct(vrt::fnv_u64(i, 41));
        if (vrt::want_sample("all_groups") && i == 0x4d61) vrt::sample("all_groups", sfmt("bytes %02x %02x + every third byte 00..ff in one 768-byte input; tails %s", unsigned(i >> 8), unsigned(i & 255), show(t2).c_str()));
    });
    // single groups alone (short result strings living in the object)
    // (all 2^24 of them in both tiers: the last group of an input goes through the decoders' padding logic, and a slip there
    // can hinge on one particular group - e.g. one whose encoding ends in "999")
    vrt::phase("single_groups", 1 << 24, [&](uint64_t i, Rng &) {
        uint32_t g = static_cast<uint32_t>(i);
        S d;
        d += static_cast<char>(g >> 16); d += static_cast<char>(g >> 8); d += static_cast<char>(g);
        roundtrip(d);
        vrt::distinct(vrt::fnv_u64(g, 42));
    });
    // every length 0..70 (+ a few long ones) with random content; null data with size 0
    vrt::phase("lengths", vrt::tier_count(71 * 20, 71 * 2000), [&](uint64_t i, Rng &r) {
        size_t len = i % 71;
        if (i % 997 == 0) len = 1000 + r.below(5000);
        S d = gen::any_bytes(r, len);
        roundtrip(d);
        vrt::count("lengths");
        vrt::distinct(vrt::fnv1a(d.data(), d.size(), 43));
        if (vrt::want_sample("lengths") && len == 17) vrt::sample("lengths", sfmt("data=%s -> hex %s base64 %s", show(d).c_str(), ref_hex(d).c_str(), ref_b64(d).c_str()));
    });
    vrt::phase("empty", 1, [&](uint64_t, Rng &) {
        vrt::evals(4);
        if (!ST::hex_encode(nullptr, 0).empty()) v("hex_encode:null-empty", "hex_encode(nullptr,0) not empty");
        if (!ST::base64_encode(nullptr, 0).empty()) v("base64_encode:null-empty", "base64_encode(nullptr,0) not empty");
        if (ST::hex_decode(ST::string()).size() != 0) v("hex_decode:empty", "decode of empty text not empty");
        if (ST::base64_decode(ST::string()).size() != 0) v("base64_decode:empty", "decode of empty text not empty");
    });
    // scale: byte arrays of up to 4 MiB whose length - or the length of their base64 text, or of their hex
    // text - is a multiple q*B of a block size, and the two lengths on either side of it: the encoded text then ends exactly
    // on a block boundary without padding, with '=' and with '==', or one group / digit pair beyond it.  Content: random,
    // homogeneous, small alphabet, homogeneous with one random stretch near a multiple of a block size.
    {
        vrt::require("scale.cases", 300);
        vrt::require("scale.base64_text_is_multiple_of_block.padded", 40);
        vrt::require("scale.input>=64KiB", 60);
        vrt::require("scale.input>=512KiB", 5);
        const std::vector<size_t> &BL = scale::blocks();
        const uint64_t NB = BL.size(), PER = NB * 8 * 3 * 5;
        const size_t cap = 4u << 20;
        vrt::phase("scale", vrt::tier_count(PER, PER * 12), [&](uint64_t i, Rng &r) {
            const size_t B = BL[i % NB], q = 1 + (i / NB) % 8;
            const unsigned unit = static_cast<unsigned>((i / (NB * 8)) % 3);       // what is a multiple of B: 0 the byte array, 1 its base64 text, 2 its hex text
            long d = static_cast<long>((i / (NB * 8 * 3)) % 5) - 2;
            if ((i / PER) % 2 == 1) d = static_cast<long>(r.range(-12, 12));       // later rounds of the grid: further distances
            const size_t T = q * B;
            if (T > cap) { vrt::count("scale.skipped_too_large"); return; }
            const size_t n0 = unit == 0 ? T : unit == 1 ? T / 4 * 3 : T / 2;
            if (static_cast<long>(n0) + d < 0) return;
            const size_t n = static_cast<size_t>(static_cast<long>(n0) + d);
            const unsigned kind = static_cast<unsigned>(r.below(6));
            const S data = scale_bytes(r, n, kind);
            roundtrip(data);
            vrt::count("scale.cases");
            vrt::count(unit == 0 ? "scale.multiple_of_block.input" : unit == 1 ? "scale.multiple_of_block.base64_text" : "scale.multiple_of_block.hex_text");
            vrt::count(sfmt("scale.content.%s", CONTENT[kind]));
            if (n % 3 != 0 && (4 * ((n + 2) / 3)) % B == 0) vrt::count("scale.base64_text_is_multiple_of_block.padded");
            if (n % 3 == 0 && n && (4 * (n / 3)) % B == 0) vrt::count("scale.base64_text_is_multiple_of_block.unpadded");
            if (n && (2 * n) % B == 0) vrt::count("scale.hex_text_is_multiple_of_block");
            if (n >= 65536) vrt::count("scale.input>=64KiB");
            if (n >= 524288) vrt::count("scale.input>=512KiB");
            if (n >= (2u << 20)) vrt::count("scale.input>=2MiB");
            vrt::distinct(vrt::fnv1a(data.data(), data.size(), 45));
            if (vrt::want_sample("scale") && n >= 49000 && unit == 1)
                vrt::sample("scale", sfmt("data %s (%s): %zu bytes = (base64 text of %zu x %zu characters) %+ld", scale::brief(data).c_str(), CONTENT[kind], n, q, B, d));
        });
    }
    c14_history_phases();
    if (vrt::thorough()) beyond32_phase();
}

// ---------------------------------------------------------------- C15
// what the decoder monitors of one text share: the text object handed to the library, the bytes it holds, the reference's answer
struct DC {
    const ST::string &st;
    const S &text;
    bool is_hex;
    const char *codec;
    bool ok;
    S want;
    long implied;
    size_t len;          // the decoded length implied by length and padding, or (no such length) the length of the text
    DC(const ST::string &st_, const S &text_, bool is_hex_) : st(st_), text(text_), is_hex(is_hex_), codec(is_hex_ ? "hex_decode" : "base64_decode")
    {
        ok = is_hex ? ref_hex_decode(text, want) : ref_b64_decode(text, want);
        implied = is_hex ? implied_hex(text) : implied_b64(text);
        len = implied >= 0 ? static_cast<size_t>(implied) : text.size();
    }
};
// allocating form
static void dc_alloc(const DC &c)
{
    vrt::evals();
    try {
        ST::char_buffer d = c.is_hex ? ST::hex_decode(c.st) : ST::base64_decode(c.st);
        if (!c.ok) v(sfmt("%s:alloc-accepted-invalid", c.codec), sfmt("text=%s decoded=%s", showt(c.text).c_str(), vrt::hex(d.data(), d.size()).c_str()));
        else if (S(d.data(), d.size()) != c.want) v(sfmt("%s:alloc-wrong-bytes", c.codec), sfmt("text=%s got=%s want=%s", showt(c.text).c_str(), vrt::hex(d.data(), d.size()).c_str(), show(c.want).c_str()));
        if (d.data()[d.size()] != 0) v(sfmt("%s:no-terminator", c.codec), showt(c.text));
    } catch (const ST::codec_error &) {
        if (c.ok) v(sfmt("%s:alloc-rejected-valid", c.codec), sfmt("text=%s", showt(c.text).c_str()));
    }
}
// null output: decoded length implied by length and padding
static void dc_query(const DC &c, size_t declared)
{
    vrt::evals();
    long nl = static_cast<long>(c.is_hex ? ST::hex_decode(c.st, nullptr, declared) : ST::base64_decode(c.st, nullptr, declared));
    if (nl != c.implied) {
        if (declared == 0) v(sfmt("%s:null-output-length", c.codec), sfmt("text=%s got=%ld want=%ld", showt(c.text).c_str(), nl, c.implied));
        else v(sfmt("%s:null-output-length", c.codec), sfmt("text=%s output_size=%zu got=%ld want=%ld", showt(c.text).c_str(), declared, nl, c.implied));
    }
}
// caller-buffer form, a buffer of exactly output_size bytes: a write at index >= output_size hits the red zone
static void dc_buffer(const DC &c, size_t osz)
{
    vrt::evals();
    OutBuf ob(osz);
    char *out = ob.p;
    long w = static_cast<long>(c.is_hex ? ST::hex_decode(c.st, out, osz) : ST::base64_decode(c.st, out, osz));
    if (!c.ok) {
        if (w != -1) v(sfmt("%s:buffer-accepted-invalid", c.codec), sfmt("text=%s output_size=%zu returned=%ld", showt(c.text).c_str(), osz, w));
    } else if (osz < c.want.size()) {
        if (w != -1) v(sfmt("%s:buffer-too-small-not-rejected", c.codec), sfmt("text=%s output_size=%zu returned=%ld", showt(c.text).c_str(), osz, w));
        vrt::count("buffer.too_small");
    } else {
        if (w != static_cast<long>(c.want.size()) || memcmp(out, c.want.data(), c.want.size()) != 0)
            v(sfmt("%s:buffer-wrong", c.codec), sfmt("text=%s output_size=%zu returned=%ld got=%s want=%s", showt(c.text).c_str(), osz, w, vrt::hex(out, std::min(osz, c.want.size())).c_str(), show(c.want).c_str()));
        for (size_t k = c.want.size(); k < osz; ++k)
            if (static_cast<unsigned char>(out[k]) != 0xEE) {
                v(sfmt("%s:wrote-beyond-returned-length", c.codec), sfmt("text=%s output_size=%zu byte %zu modified", showt(c.text).c_str(), osz, k));
                break;
            }
        vrt::count("buffer.success");
    }
    if (!ob.front_intact()) v(sfmt("%s:wrote-before-output", c.codec), sfmt("text=%s output_size=%zu: bytes in front of the output modified (output %zu bytes past a 16-byte boundary)", showt(c.text).c_str(), osz, ob.k));
}
// declared sizes far above the decoded length ("unbounded" callers): the buffer
// really has `len` bytes, so any write past the decoded length hits the red zone
static void dc_huge(const DC &c, size_t osz)
{
    vrt::evals();
    OutBuf ob(c.len);
    char *out = ob.p;
    long w = static_cast<long>(c.is_hex ? ST::hex_decode(c.st, out, osz) : ST::base64_decode(c.st, out, osz));
    if (!c.ok) {
        if (w != -1) v(sfmt("%s:buffer-accepted-invalid", c.codec), sfmt("text=%s output_size=%zu returned=%ld", showt(c.text).c_str(), osz, w));
    } else if (w != static_cast<long>(c.want.size()) || memcmp(out, c.want.data(), c.want.size()) != 0) {
        v(sfmt("%s:buffer-wrong", c.codec), sfmt("text=%s output_size=%zu returned=%ld want=%s", showt(c.text).c_str(), osz, w, show(c.want).c_str()));
    }
    if (!ob.front_intact()) v(sfmt("%s:wrote-before-output", c.codec), sfmt("text=%s output_size=%zu: bytes in front of the output modified (output %zu bytes past a 16-byte boundary)", showt(c.text).c_str(), osz, ob.k));
    vrt::count("buffer.huge_output_size");
}
static const size_t HUGE_SIZES[4] = {static_cast<size_t>(-1), static_cast<size_t>(1) << 63, (static_cast<size_t>(1) << 63) - 1, static_cast<size_t>(1) << 32};
static void dc_done(const DC &c)
{
    vrt::count(c.ok ? (c.is_hex ? "hex.valid" : "base64.valid") : (c.is_hex ? "hex.invalid" : "base64.invalid"));
    vrt::distinct(vrt::fnv_u64(c.is_hex, vrt::fnv1a(c.text.data(), c.text.size(), 44)));
}
// every monitor on the text object `st` (which holds `text`); `order` varies the order of the calls (0: the order every
// phase but same_storage / crosstalk uses)
static void decode_checks(const ST::string &st, const S &text, bool is_hex, unsigned order = 0)
{
    vrt::cur_rewind();
    vrt::cur_printf("%s text=%s\n", is_hex ? "hex_decode" : "base64_decode", showt(text).c_str());
    const DC c(st, text, is_hex);
    // caller-buffer form with output_size below, at and above the decoded length
    std::vector<size_t> sizes = {0, c.len, c.len + 1, c.len + 64};
    if (c.len) sizes.push_back(c.len - 1);
    if (c.len > 2) sizes.push_back(c.len - 2);
    if (c.len > 3) sizes.push_back(c.len / 2);
    auto queries = [&]() { dc_query(c, 0); dc_query(c, 1000); };
    auto buffers = [&]() { for (size_t osz : sizes) dc_buffer(c, osz); };
    auto huge = [&]() { for (size_t osz : HUGE_SIZES) dc_huge(c, osz); };
    switch (order % 6) {
    case 0: dc_alloc(c); queries(); buffers(); huge(); break;
    case 1: buffers(); dc_alloc(c); huge(); queries(); break;
    case 2: std::reverse(sizes.begin(), sizes.end()); queries(); huge(); buffers(); dc_alloc(c); break;
    case 3: huge(); dc_alloc(c); buffers(); queries(); break;
    case 4: std::rotate(sizes.begin(), sizes.begin() + 1, sizes.end()); dc_alloc(c); buffers(); queries(); dc_alloc(c); huge(); break;
    default: dc_buffer(c, c.len); dc_alloc(c); queries(); buffers(); huge(); break;
    }
    dc_done(c);
}
static void decode_case(const S &text, bool is_hex)
{
    vrt::Box<ST::string> st(vrt::mk(text));
    decode_checks(*st, text, is_hex);
}

// ---------------------------------------------------------------- C15: same_storage / crosstalk / alignment / soak
static const char BAD64[] = {'=', '=', '*', '\0', '\x80', '\xff', '-', '_', ' ', '\n', '.', ',', ':', '@', '[', '`', '{', '\xc1', '\xe1'};
static const char BADHEX[] = {'g', 'G', '/', ':', '@', '`', '\0', '\x80', '\xff', ' ', 'x', '=', '\xb1', '\xc1', '\xe1', 'Z', '+'};
static const S HEXAL = "0123456789abcdefABCDEF";
static const S B64AL(B64);
// one library call on the text object, judged by the same monitor decode_checks uses
enum { F_ALLOC, F_QUERY, F_EXACT, F_ROOMY, F_TOO_SMALL, F_HUGE, N_FORMS };
static const char *const FORM[] = {"allocating", "size query", "buffer of exactly the decoded size", "roomy buffer", "buffer too small", "huge declared size"};
// true when the call has to succeed (a size query of an impossible length counts as failing)
static bool one_call(const DC &c, unsigned form, Rng &r)
{
    switch (form) {
    case F_ALLOC: dc_alloc(c); return c.ok;
    case F_QUERY: dc_query(c, r.chance(1, 2) ? 0 : 1 + r.below(5000)); return c.implied >= 0;
    case F_EXACT: dc_buffer(c, c.len); return c.ok;
    case F_ROOMY: dc_buffer(c, c.len + 1 + r.below(70)); return c.ok;
    case F_TOO_SMALL: dc_buffer(c, c.len ? c.len - 1 - r.below(std::min<size_t>(c.len, 9)) : 0); return c.ok && c.len == 0;
    default: dc_huge(c, r.pick(HUGE_SIZES)); return c.ok;
    }
}

static void c15_history_phases()
{
    // same_storage: ONE text slot whose ST::string is destroyed and rebuilt in place (object at the same address; its heap block
    // parked and re-issued), 5..8 texts of identical length per case, each a successor of the one before: one character / a
    // stretch in the middle changed (first and last 16 characters kept), 1/2/4/8/16/32-character records sorted / exchanged /
    // reversed, the text rotated by 1..7 characters, a character outside the alphabet planted (and taken out again), hex
    // letters switched between upper and lower case - valid and invalid texts following each other in both orders, the calls
    // of one text made in a different order than those of its predecessor, sometimes the other decoder in between.
    {
        vrt::require("same_storage.cases", 200);
        vrt::require("same_storage.texts_rebuilt_over_their_predecessor", 1000);
        vrt::require("same_storage.texts_rebuilt_in_the_heap_block_of_their_predecessor", 600);
        vrt::require("same_storage.valid_text_after_invalid_text", 150);
        vrt::require("same_storage.invalid_text_after_valid_text", 150);
        vrt::require("same_storage.text>=64KiB", 8);
        // (an odd number of sizes: case i runs on worker i % 16, and every worker is to meet every size)
        static const size_t SIZES[] = {20, 40, 64, 100, 256, 300, 512, 520, 1000, 1024, 1500, 4096, 5000, 8192, 16384, 65536, 131072};
        const uint64_t NS = sizeof(SIZES) / sizeof(SIZES[0]), PER = NS * 2 * 2 * 4;
        vrt::phase("same_storage", vrt::tier_count(PER * 2, PER * 20), [&](uint64_t i, Rng &r) {
            size_t L = SIZES[i % NS];
            const bool is_hex = (i / NS) % 2 != 0;
            const size_t shift = (i / (NS * 2)) % 2 ? 8 : 0;
            const uint64_t round = i / PER;
            if (round % 2 == 1) L = (r.chance(1, 2) ? 512 + r.below(65536 - 512 + 1) : scale::length(r, 65536, 512)) / 4 * 4;
            if (i % 67 == 41) L = 1u << 20;
            const S &al = is_hex ? HEXAL : B64AL;
            S text = scale_text(r, L, al);
            size_t keep_tail = 0;
            if (!is_hex && r.chance(1, 3)) { text[L - 1] = '='; keep_tail = 1; if (r.chance(1, 2)) { text[L - 2] = '='; keep_tail = 2; } }
            Slot<ST::string> slot(shift);
            const size_t K = L >= (1u << 20) ? 3 : 5 + r.below(4);
            const uint64_t l0 = g_rebuilt_long, s0 = g_rebuilt_same_block;
            std::string history;
            bool prev_ok = false;
            size_t planted = S::npos;
            char planted_over = 0;
            for (size_t step = 0; step < K; ++step) {
                std::string what = "first text";
                if (step) {
                    const unsigned t = static_cast<unsigned>(r.below(10));
                    if (planted != S::npos && t < 5) {                                // the bad character goes away again
                        text[planted] = planted_over;
                        what = sfmt("character %zu valid again", planted);
                        planted = S::npos;
                    } else if (t < 3 && planted == S::npos) {                            // a character outside the alphabet
                        static const unsigned where[] = {0, 1, 2, 3, 4};
                        const unsigned wh = r.pick(where);
                        planted = wh == 0 ? r.below(std::min<size_t>(L, 32)) : wh == 1 ? L - 1 - r.below(std::min<size_t>(L, 32)) : wh == 2 ? L / 2 : r.below(L);
                        planted_over = text[planted];
                        char bad;
                        do bad = is_hex ? r.pick(BADHEX) : r.pick(BAD64); while (bad == planted_over);
                        text[planted] = bad;
                        what = sfmt("character %zu replaced by 0x%02x", planted, static_cast<unsigned char>(bad));
                    } else if (t == 3 && is_hex) {
                        const S before = text;
                        for (char &c : text) if ((c >= 'a' && c <= 'f') || (c >= 'A' && c <= 'F')) c = static_cast<char>(c ^ 0x20);
                        what = "hex letters switched between upper and lower case";
                        if (text == before) what = successor(r, text, &al, keep_tail);
                    } else {
                        what = successor(r, text, &al, r.chance(1, 4) ? 0 : keep_tail);
                        if (planted != S::npos) planted = S::npos;                       // it may have moved; it is part of the text now
                    }
                }
                rebuild(slot, text);
                g_context = sfmt("same_storage: text %zu of %zu of %zu characters, each built where its predecessor was destroyed (object %zu mod 16); this text: %s", step + 1, K, L, shift, what.c_str());
                const DC probe(*slot.p, text, is_hex);
                if (step) {
                    vrt::count("same_storage.texts_rebuilt_over_their_predecessor");
                    if (probe.ok && !prev_ok) vrt::count("same_storage.valid_text_after_invalid_text");
                    if (!probe.ok && prev_ok) vrt::count("same_storage.invalid_text_after_valid_text");
                }
                prev_ok = probe.ok;
                const unsigned order = static_cast<unsigned>(r.below(6));
                if (r.chance(1, 4)) decode_checks(*slot.p, text, !is_hex, static_cast<unsigned>(r.below(6)));
                decode_checks(*slot.p, text, is_hex, order);
                if (history.size() < 600) history += (step ? " | " : "") + what;
            }
            g_context.clear();
            vrt::count("same_storage.texts_rebuilt_in_the_heap_block_of_their_predecessor", g_rebuilt_same_block - s0);
            vrt::count("same_storage.long_texts_rebuilt", g_rebuilt_long - l0);
            vrt::count("same_storage.cases");
            if (L >= 65536) vrt::count("same_storage.text>=64KiB");
            if (L >= (1u << 20)) vrt::count("same_storage.text>=1MiB");
            if (vrt::want_sample("same_storage") && L >= 1000)
                vrt::sample("same_storage", sfmt("%s text slot, %zu characters, %zu texts: %s", is_hex ? "hex" : "base64", L, K, history.c_str()));
        });
    }
    // crosstalk: the SAME text object handed to hex_decode and base64_decode alternately, in both orders - texts that both
    // accept (hex digits only, length a multiple of 4), that only base64_decode accepts (one character of G..Z g..z + / at the
    // start / in the middle / in the last group / at the very end of otherwise hex digits; hex digits with '=' / '==' at the
    // end), that only hex_decode accepts (hex digits, length 2 mod 4), that neither accepts - first all monitors of one
    // decoder, then of the other, then of the first again, then single calls alternating between the decoders in random forms.
    {
        vrt::require("crosstalk.cases", 400);
        vrt::require("crosstalk.text_only_base64_decode_accepts", 100);
        vrt::require("crosstalk.text_only_hex_decode_accepts", 50);
        vrt::require("crosstalk.text_both_accept", 50);
        vrt::require("crosstalk.text_neither_accepts", 50);
        vrt::require("crosstalk.call_that_must_succeed_directly_after_a_failing_call_of_the_other_decoder", 1000);
        vrt::require("crosstalk.call_that_must_fail_directly_after_a_successful_call_of_the_other_decoder", 1000);
        vrt::require("crosstalk.text>=256", 200);
        static const size_t LENS[] = {4, 8, 12, 16, 20, 32, 60, 128, 256, 260, 300, 512, 1000, 1024, 2048, 4096, 5000};
        const uint64_t NL = sizeof(LENS) / sizeof(LENS[0]), NC = 8, PER = NL * NC * 2;
        vrt::phase("crosstalk", vrt::tier_count(PER * 2, PER * 40), [&](uint64_t i, Rng &r) {
            size_t L = LENS[i % NL];
            const unsigned comp = static_cast<unsigned>((i / NL) % NC);
            const bool hex_first = (i / (NL * NC)) % 2 != 0;
            const uint64_t round = i / PER;
            if (round % 2 == 1) L = (r.chance(1, 2) ? 256 + r.below(4000) : 4 + r.below(200)) / 4 * 4;
            if (i % 61 == 19) L = 65536;
            static const S only64 = "GHIJKLMNOPQRSTUVWXYZghijklmnopqrstuvwxyz+/";
            S text = scale_text(r, L, HEXAL);
            const char *what = "";
            switch (comp) {
            case 0: what = "hex digits only"; break;
            case 1: text.resize(L - 2); what = "hex digits only, length 2 mod 4"; break;
            case 2: { const size_t at = r.below(std::min<size_t>(L, 16)); text[at] = only64[r.below(only64.size())]; what = "one base64-only character near the start"; break; }
            case 3: { const size_t at = r.below(L); text[at] = only64[r.below(only64.size())]; what = "one base64-only character somewhere"; break; }
            case 4: { const size_t at = L - 1 - r.below(4); text[at] = only64[r.below(only64.size())]; what = "one base64-only character in the last group"; break; }
            case 5: text[L - 1] = '='; if (r.chance(1, 2)) text[L - 2] = '='; what = "hex digits and padding"; break;
            case 6: { const size_t at = r.below(L); text[at] = r.pick(BAD64); what = "one character neither accepts"; break; }
            default: if (r.chance(1, 2)) text.resize(L - 1 - 2 * r.below(2)); else text = scale_text(r, L, B64AL); what = "odd length / base64 alphabet throughout"; break;
            }
            vrt::Box<ST::string> st(vrt::mk(text));
            const DC ch(*st, text, true), cb(*st, text, false);
            vrt::count(ch.ok && cb.ok ? "crosstalk.text_both_accept" : cb.ok ? "crosstalk.text_only_base64_decode_accepts" : ch.ok ? "crosstalk.text_only_hex_decode_accepts" : "crosstalk.text_neither_accepts");
            g_context = sfmt("crosstalk: one text object of %zu characters (%s) handed to both decoders alternately, %s first", text.size(), what, hex_first ? "hex_decode" : "base64_decode");
            decode_checks(*st, text, hex_first, static_cast<unsigned>(r.below(6)));
            decode_checks(*st, text, !hex_first, static_cast<unsigned>(r.below(6)));
            decode_checks(*st, text, hex_first, static_cast<unsigned>(r.below(6)));
            // single calls
            vrt::cur_rewind();
            vrt::cur_printf("%s: single calls; text=%s\n", g_context.c_str(), showt(text).c_str());
            bool prev_hex = hex_first, prev_must_succeed = hex_first ? ch.ok : cb.ok;
            const std::string head = g_context;
            std::string prev_call = sfmt("all monitors of %s", hex_first ? "hex_decode" : "base64_decode");
            const size_t calls = text.size() > 8192 ? 12 : 40;
            for (size_t q = 0; q < calls; ++q) {
                const bool now_hex = r.chance(1, 8) ? prev_hex : !prev_hex;
                unsigned form = static_cast<unsigned>(r.below(N_FORMS));
                if (r.chance(1, 2)) form = r.chance(1, 2) ? F_EXACT : F_ALLOC;
                const std::string this_call = sfmt("%s (%s)", now_hex ? "hex_decode" : "base64_decode", FORM[form]);
                vrt::cur_printf("%s; ", this_call.c_str());
                g_context = sfmt("%s; single call %zu: %s directly after %s", head.c_str(), q + 1, this_call.c_str(), prev_call.c_str());
                prev_call = this_call;
                const bool must = one_call(now_hex ? ch : cb, form, r);
                if (q && now_hex != prev_hex) {
                    if (must && !prev_must_succeed) vrt::count("crosstalk.call_that_must_succeed_directly_after_a_failing_call_of_the_other_decoder");
                    if (!must && prev_must_succeed) vrt::count("crosstalk.call_that_must_fail_directly_after_a_successful_call_of_the_other_decoder");
                }
                prev_hex = now_hex;
                prev_must_succeed = must;
                vrt::count("crosstalk.single_calls");
            }
            g_context.clear();
            vrt::count("crosstalk.cases");
            if (text.size() >= 256) vrt::count("crosstalk.text>=256");
            if (vrt::want_sample("crosstalk") && text.size() >= 256 && cb.ok && !ch.ok)
                vrt::sample("crosstalk", sfmt("text %s (%s): base64_decode must accept, hex_decode must reject, %s first", showt(text).c_str(), what, hex_first ? "hex_decode" : "base64_decode"));
        });
    }
    // alignment: the caller-buffer decoders with the OUTPUT at every distance 0..15 from a 16-byte boundary (the output still
    // ends where its heap block ends; canary in front), for texts of 16 .. 600 characters that are valid or have one character
    // outside the alphabet at every position among the first 32 and the last 32; buffer of exactly the decoded size and a
    // roomy one.  Text objects at 0 and at 8 mod 16.
    {
        vrt::require("alignment.cases", 60);
        vrt::require("alignment.calls", 100000);
        vrt::require("alignment.bad_character_among_the_first_32.output_not_8_byte_aligned", 20000);
        vrt::require("alignment.bad_character_among_the_last_32.output_not_8_byte_aligned", 20000);
        vrt::require("alignment.valid_text.output_not_8_byte_aligned", 1000);
        std::vector<size_t> lens;
        for (size_t L : {16, 20, 24, 32, 36, 48, 60, 64, 68, 96, 100, 124, 128, 132, 136, 144, 160, 192, 200, 252, 256, 260, 300, 384, 400, 508, 512, 516, 600}) lens.push_back(L);
        const uint64_t NL = lens.size();
        vrt::phase("alignment", vrt::tier_count(NL * 2 * 2, NL * 2 * 24), [&](uint64_t i, Rng &r) {
            size_t L = lens[i % NL];
            const bool is_hex = (i / NL) % 2 != 0;
            const uint64_t round = i / (NL * 2);
            if (round >= 2) L = (16 + r.below(585)) / 4 * 4;
            const S &al = is_hex ? HEXAL : B64AL;
            S base = scale_text(r, L, al);
            if (!is_hex && round % 2 == 1) { base[L - 1] = '='; if (r.chance(1, 2)) base[L - 2] = '='; }
            std::vector<size_t> positions = {S::npos};
            for (size_t q = 0; q < std::min<size_t>(32, L); ++q) positions.push_back(q);
            for (size_t q = L > 32 ? L - 32 : 0; q < L; ++q) if (q >= 32) positions.push_back(q);
            for (size_t pos : positions) {
                S text = base;
                char bad = 0;
                if (pos != S::npos) {
                    do bad = is_hex ? r.pick(BADHEX) : r.pick(BAD64); while (bad == text[pos]);
                    text[pos] = bad;
                }
                vrt::Box<ST::string> st(vrt::mk(text));
                const DC c(*st, text, is_hex);
                vrt::cur_rewind();
                vrt::cur_printf("alignment: %s text=%s\n", c.codec, showt(text).c_str());
                for (int k = 0; k < 16; ++k) {
                    g_out_align = k;
                    g_context = pos == S::npos ? sfmt("alignment: output %d bytes past a 16-byte boundary, valid text of %zu characters", k, L)
                                               : sfmt("alignment: output %d bytes past a 16-byte boundary, text of %zu characters with 0x%02x at %zu", k, L, static_cast<unsigned char>(bad), pos);
                    dc_buffer(c, c.len);
                    if ((k + pos) % 3 == 0) dc_buffer(c, c.len + 1 + r.below(24));
                    if ((k + pos) % 7 == 0) dc_huge(c, r.pick(HUGE_SIZES));
                    g_out_align = -1;
                    vrt::count("alignment.calls");
                    if (k % 8) vrt::count(pos == S::npos ? "alignment.valid_text.output_not_8_byte_aligned" : pos < 32 ? "alignment.bad_character_among_the_first_32.output_not_8_byte_aligned" : "alignment.bad_character_among_the_last_32.output_not_8_byte_aligned");
                }
                dc_done(c);
            }
            g_context.clear();
            vrt::count("alignment.cases");
            if (vrt::want_sample("alignment") && L == 256)
                vrt::sample("alignment", sfmt("%s text of %zu characters: valid, and one character outside the alphabet at each of %zu positions, each decoded into outputs at 16 distances from a 16-byte boundary", is_hex ? "hex" : "base64", L, positions.size() - 1));
        });
    }
    // soak: more than 70000 consecutive decoder calls in ONE case (one process) on texts of 16..64 (sometimes up to 300)
    // characters, valid or with one character outside the alphabet, both decoders and all forms mixed; runs of 64..300 calls on
    // the same valid text followed directly by a text that differs only in its last 1..7 characters (one of them outside the
    // alphabet) at the same address.
    {
        vrt::require("soak.cases", 16);
        vrt::require("soak.calls", 16 * 70000);
        vrt::require("soak.runs_of_equal_calls_followed_by_a_bad_tail", 16 * 20);
        vrt::phase("soak", vrt::tier_count(16, 64), [&](uint64_t, Rng &r) {
            Slot<ST::string> slot(r.chance(1, 2) ? 8 : 0);
            uint64_t done = 0, runs = 0;
            while (done < 72000) {
                const bool is_hex = r.chance(1, 2);
                const size_t G = is_hex ? 2 : 4;
                size_t L = (r.chance(1, 8) ? 65 + r.below(236) : 16 + r.below(49)) / G * G;
                const S &al = is_hex ? HEXAL : B64AL;
                S text = scale_text(r, L, al);
                if (!is_hex && r.chance(1, 3)) { text[L - 1] = '='; if (r.chance(1, 2)) text[L - 2] = '='; }
                const unsigned flavour = static_cast<unsigned>(r.below(8));
                if (flavour == 0) text[r.below(L)] = is_hex ? r.pick(BADHEX) : r.pick(BAD64);
                else if (flavour == 1) text.resize(L - 1 - r.below(3));
                const bool pinned = r.chance(1, 2);
                if (pinned) rebuild(slot, text);
                vrt::Box<ST::string> fresh(pinned ? ST::string() : vrt::mk(text));
                const ST::string &obj = pinned ? *slot.p : *fresh;
                vrt::cur_rewind();
                vrt::cur_printf("soak call %llu text=%s\n", static_cast<unsigned long long>(done), vrt::hex(text.data(), text.size()).c_str());
                g_context = sfmt("soak: call %llu of one process", static_cast<unsigned long long>(done));
                {
                    const DC c(obj, text, is_hex);
                    one_call(c, static_cast<unsigned>(r.below(N_FORMS)), r);
                    one_call(c, r.chance(1, 2) ? F_EXACT : F_ALLOC, r);
                    done += 2;
                    if (r.chance(1, 4)) { const DC o(obj, text, !is_hex); one_call(o, static_cast<unsigned>(r.below(N_FORMS)), r); ++done; }
                    if (r.chance(1, 64)) dc_done(c);
                }
                if (r.chance(1, 300) && L >= 16) {
                    // a run on one valid text, then the same storage with a bad tail
                    S good = scale_text(r, L, al);
                    rebuild(slot, good);
                    const size_t reps = 64 + r.below(237);
                    g_context = sfmt("soak: calls %llu.. of one process: %zu on the same valid text, then one on a text at the same address that differs only in its last characters", static_cast<unsigned long long>(done), reps);
                    vrt::cur_rewind();
                    vrt::cur_printf("%s text=%s\n", g_context.c_str(), vrt::hex(good.data(), good.size()).c_str());
                    {
                        const DC c(*slot.p, good, is_hex);
                        const unsigned form = r.chance(1, 2) ? static_cast<unsigned>(F_EXACT) : static_cast<unsigned>(r.below(N_FORMS));
                        for (size_t q = 0; q < reps; ++q) one_call(c, form, r);
                        done += reps;
                    }
                    S tail = good;
                    const size_t at = L - 1 - r.below(7);
                    tail[at] = is_hex ? r.pick(BADHEX) : r.pick(BAD64);
                    if (r.chance(1, 2)) for (size_t q = at + 1; q < L; ++q) tail[q] = al[r.below(al.size())];
                    rebuild(slot, tail);
                    vrt::cur_printf("then text=%s\n", vrt::hex(tail.data(), tail.size()).c_str());
                    {
                        const DC c(*slot.p, tail, is_hex);
                        one_call(c, r.chance(1, 2) ? F_EXACT : F_ALLOC, r);
                        one_call(c, static_cast<unsigned>(r.below(N_FORMS)), r);
                        done += 2;
                    }
                    ++runs;
                }
            }
            g_context.clear();
            vrt::count("soak.cases");
            vrt::count("soak.calls", done);
            vrt::count("soak.runs_of_equal_calls_followed_by_a_bad_tail", runs);
            vrt::distinct(vrt::fnv_u64(done, 48));
            if (vrt::want_sample("soak")) vrt::sample("soak", sfmt("%llu consecutive decoder calls (both decoders, all forms, valid and invalid texts of 16..300 characters) in one case, %llu runs of 64..300 calls on one text", static_cast<unsigned long long>(done), static_cast<unsigned long long>(runs)));
        });
    }
}

static void c15_body()
{
    vrt::require("hex.valid", 1000);
    vrt::require("hex.invalid", 1000);
    vrt::require("base64.valid", 1000);
    vrt::require("base64.invalid", 1000);
    vrt::require("buffer.too_small", 1000);
    vrt::require("buffer.success", 1000);
    vrt::require("b64.last_group_pairs", 65536);
    vrt::require("hex.pairs", 65536);

    vrt::note("hex: all 256^2 two-character strings alone and inside longer text; base64: all 256 byte values at each of the 4 positions of the first, a middle and the last group, all 256^2 values of each of the 6 position pairs of the last group, every string of length <= 9 over {A,=,*}");
    // hex: all 256^2 digit pairs
    vrt::phase("hex_pairs", 256, [&](uint64_t a, Rng &) {
        for (int b = 0; b < 256; ++b) {
            S t;
            t += static_cast<char>(a); t += static_cast<char>(b);
            decode_case(t, true);
            decode_case(S("0f") + t + S("A0"), true);
            vrt::count("hex.pairs");
        }
        S odd(1, static_cast<char>(a));
        decode_case(odd, true);
        decode_case(S("ab") + odd, true);
    });
    vrt::phase("hex_lengths", 12, [&](uint64_t len, Rng &r) {
        for (int k = 0; k < 50; ++k) {
            S t = gen::bytes_over(r, len, "0123456789abcdefABCDEF");
            decode_case(t, true);
            if (len) { t[r.below(len)] = r.pick("gG/:@`\x80\xff xX"); decode_case(t, true); }
        }
    });
    // base64: every byte value at each position of the first, a middle and the last group
    vrt::phase("b64_positions", 256, [&](uint64_t c, Rng &) {
        static const char *const frames[] = {"QUJD", "QUJDREVGR0hJ", "QUI=", "QQ==", "QUJDREU="};
        for (const char *f : frames) {
            size_t n = strlen(f);
            for (size_t pos = 0; pos < n; ++pos) {
                S t(f);
                t[pos] = static_cast<char>(c);
                decode_case(t, false);
            }
        }
    });
    // all 256^2 values of each position pair in the last group (the padding logic)
    vrt::phase("b64_last_group_pairs", 256 * 6, [&](uint64_t i, Rng &) {
        static const int pairs[6][2] = {{0, 1}, {0, 2}, {0, 3}, {1, 2}, {1, 3}, {2, 3}};
        const int *pp = pairs[i / 256];
        unsigned a = static_cast<unsigned>(i % 256);
        for (int b = 0; b < 256; ++b) {
            for (const char *base : {"QUJD", "QUI=", "QQ=="}) {
                S t(base);
                t[pp[0]] = static_cast<char>(a);
                t[pp[1]] = static_cast<char>(b);
                decode_case(t, false);
                decode_case(S("QUJD") + t, false);
            }
            vrt::count("b64.last_group_pairs");
        }
    });
    // every '=' placement / invalid char placement for short strings
    {
        const S al = "A=*";
        const size_t L = vrt::thorough() ? 12 : 9;
        vrt::phase("b64_small_alphabet", gen::count_strings(al.size(), L), [&](uint64_t i, Rng &) {
            S t;
            gen::nth_string(i, al, L, t);
            decode_case(t, false);
        });
        const S hal = "a0G";
        vrt::phase("hex_small_alphabet", gen::count_strings(hal.size(), 8), [&](uint64_t i, Rng &) {
            S t;
            gen::nth_string(i, hal, 8, t);
            decode_case(t, true);
        });
    }
    // random strings over {valid digits, '=', NUL, bytes >= 0x80}
    vrt::phase("random", vrt::tier_count(60000, 4000000), [&](uint64_t, Rng &r) {
        S al = B64;
        if (r.chance(1, 2)) { al += "==="; }
        if (r.chance(1, 4)) { al.push_back('\0'); al += "\x80\xff-_ \n"; }
        size_t len = r.chance(2, 3) ? 4 * r.below(12) : r.below(50);
        S t = gen::bytes_over(r, len, al);
        if (r.chance(1, 2) && len >= 4) {       // make it likely valid with padding at the end
            S d = gen::any_bytes(r, r.below(30));
            t = ref_b64(d);
            if (r.chance(1, 3) && !t.empty()) t[r.below(t.size())] = r.pick("=*\x80-_");
        }
        decode_case(t, false);
        S hal = "0123456789abcdefABCDEF";
        if (r.chance(1, 4)) { hal.push_back('\0'); hal += "gx\x80"; }
        S h = gen::bytes_over(r, r.chance(3, 4) ? 2 * r.below(24) : r.below(40), hal);
        decode_case(h, true);
        if (vrt::want_sample("random") && t.size() > 8) vrt::sample("random", sfmt("base64 text=%s hex text=%s", show(t).c_str(), show(h).c_str()));
    });
    // scale: texts of up to ~2 MiB (thorough: ~4 MiB) in which the one thing that decides between accept and reject sits on
    // a block boundary.  The case index walks a grid: block size B x multiple q x what is planted where; the boundary lies
    // q*B characters - or the characters of q*B decoded bytes - from the beginning or from the end of the text.  Planted:
    // a character outside the alphabet / '=' / NUL / a byte >= 0x80 as the last character of the run that ends at the
    // boundary, as the first character of the next run, elsewhere in the last group of the run, in the last group of the
    // text, in the group before it; nothing (valid text, without and with padding); a length that is off by one to three
    // characters; too much or misplaced padding at the end of the text or at the end of the run.  Everything else in the
    // text is valid, so the planted feature alone decides.  Each text goes through decode_case like every other input
    // (allocating form, size query, caller-buffer form with output_size below / at / above the decoded size and huge).
    {
        vrt::require("scale.cases", 1000);
        vrt::require("scale.valid", 100);
        vrt::require("scale.invalid", 500);
        vrt::require("scale.text>=64KiB", 200);
        vrt::require("scale.only_bad_character_in_last_group_of_a_run.text_continues", 100);
        vrt::require("scale.valid_padded_text_is_multiple_of_block", 20);
        vrt::require("scale.padding_at_end_of_run.text_continues", 10);
        const std::vector<size_t> &BL = scale::blocks();
        const uint64_t NB = BL.size(), PER = NB * 8 * 8;
        const size_t cap = vrt::thorough() ? (4u << 20) : (2u << 20);
        static const char *const WHERE[] = {"last_character_of_run", "first_character_of_next_run", "last_group_of_run", "last_group_of_text", "group_before_last_group_of_text",
                                            "nothing_planted", "length_off", "padding_misplaced"};
        const S hexal = "0123456789abcdefABCDEF";
        vrt::phase("scale", vrt::tier_count(PER * 4, PER * 8 * 8), [&](uint64_t i, Rng &r) {
            const uint64_t j = i % PER, k = i / PER;
            const size_t B = BL[j % NB], q = 1 + (j / NB) % 8;
            const unsigned where = static_cast<unsigned>((j / (NB * 8)) % 8);
            const unsigned combo = static_cast<unsigned>((3 * j + k) % 8);          // every (B, q, where) meets all 8 combinations over 8 rounds
            const bool from_end = (combo & 1) != 0, is_hex = (combo & 2) != 0, decoded_units = (combo & 4) != 0;
            const size_t G = is_hex ? 2 : 4;                                       // characters per group
            const size_t dist = q * B;
            if (dist > cap) { vrt::count("scale.skipped_too_large"); return; }
            size_t bchars = decoded_units ? (is_hex ? dist * 2 : dist / 3 * 4) : dist / G * G;     // the boundary, in characters, on a group boundary
            if (bchars < 2 * G) bchars = 2 * G;
            // what lies on the other side of the boundary: nothing, a group or two, a few dozen groups, a long stretch
            size_t margin = G * (r.chance(1, 3) ? r.below(3) : r.chance(1, 2) ? 3 + r.below(40) : 1000 + r.below(20000));
            if (where == 5 && r.chance(1, 2)) margin = 0;                          // valid text that ends exactly on the boundary
            const size_t L = bchars + margin;
            size_t bpos = from_end ? L - bchars : bchars;                          // first character after the boundary
            if (bpos < G) bpos = bchars;                                           // (from the end with no margin: use the other end)
            static const S b64al(B64);
            const S &al = is_hex ? hexal : b64al;
            S text = scale_text(r, L, al);
            static const char bad64[] = {'=', '=', '*', '\0', '\x80', '\xff', '-', '_', ' ', '\n', '.', ',', ':', '@', '[', '`', '{', '\xc1', '\xe1'};
            static const char badhex[] = {'g', 'G', '/', ':', '@', '`', '\0', '\x80', '\xff', ' ', 'x', '=', '\xb1', '\xc1', '\xe1'};
            const char bad = is_hex ? badhex[r.below(sizeof(badhex))] : bad64[r.below(sizeof(bad64))];
            size_t at = std::string::npos;
            std::vector<S> texts;
            switch (where) {
            case 0: at = bpos - 1; break;
            case 1: at = bpos < L ? bpos : L - 1; break;
            case 2: at = bpos - G + r.below(G - 1); break;
            case 3: at = L - G + r.below(G); break;
            case 4: at = L - 2 * G + r.below(G); break;
            case 5:                                                                // valid: no padding, '=', '==' (hex: as it is, all upper case, all lower case)
                texts.push_back(text);
                if (is_hex) {
                    S u = text, l = text;
                    for (char &c : u) if (c >= 'a' && c <= 'f') c = static_cast<char>(c - 32);
                    for (char &c : l) if (c >= 'A' && c <= 'F') c = static_cast<char>(c + 32);
                    texts.push_back(u); texts.push_back(l);
                } else {
                    S p1 = text, p2 = text;
                    p1[L - 1] = '='; p2[L - 1] = '='; p2[L - 2] = '=';
                    texts.push_back(p1); texts.push_back(p2);
                    if (L % B == 0 || (decoded_units && (L / 4 * 3) % B == 0)) vrt::count("scale.valid_padded_text_is_multiple_of_block", 2);
                }
                break;
            case 6: {                                                              // length off by 1..3 characters (too short / too long), otherwise valid
                const size_t off = 1 + r.below(3);
                if (r.chance(1, 2)) text.resize(L - off); else text += scale_text(r, off, al);
                if (!is_hex && r.chance(1, 3)) text[text.size() - 1] = '=';
                break;
            }
            default:
                if (is_hex) { text[bpos - 1] = r.chance(1, 2) ? '0' : bad; text[bpos < L ? bpos : L - 2] = r.chance(1, 2) ? 'x' : bad; at = bpos - 1; }   // "0x" / two bad characters across the boundary
                else {
                    static const char *const tails[] = {"===", "====", "=A", "=A=", "=AA", "==A", "A=A=", "=A==", "=\0=", "=\x80"};
                    const unsigned t = static_cast<unsigned>(r.below(12));
                    if (t < 10) { const S tail(tails[t], t == 8 ? 3 : strlen(tails[t])); at = scale::plant(text, L - tail.size(), tail); }
                    else {
                        // padding at the end of the run, and the text goes on (separately encoded pieces joined together)
                        const S pad = t == 10 ? "=" : "==";
                        at = scale::plant(text, bpos - pad.size(), pad);
                        if (bpos < L) vrt::count("scale.padding_at_end_of_run.text_continues");
                        if (r.chance(1, 2)) text[L - 1] = '=';
                    }
                }
                break;
            }
            if (where <= 4) {
                text[at] = bad;
                if (!is_hex && at + 2 * G < L && r.chance(1, 3)) { text[L - 1] = '='; if (r.chance(1, 2)) text[L - 2] = '='; }    // and valid padding at the end
                if (at + G >= bpos && at < bpos && bpos < L) vrt::count("scale.only_bad_character_in_last_group_of_a_run.text_continues");
            }
            if (texts.empty()) texts.push_back(text);
            uint64_t &cv = vrt::counter(is_hex ? "hex.valid" : "base64.valid"), &ci = vrt::counter(is_hex ? "hex.invalid" : "base64.invalid");
            const uint64_t v0 = cv, i0 = ci;
            g_focus = at;
            for (const S &t : texts) decode_case(t, is_hex);
            g_focus = std::string::npos;
            vrt::count("scale.valid", cv - v0);
            vrt::count("scale.invalid", ci - i0);
            vrt::count("scale.cases");
            vrt::count(sfmt("scale.where.%s", WHERE[where]));
            vrt::count(from_end ? "scale.boundary_measured.from_end" : "scale.boundary_measured.from_beginning");
            vrt::count(decoded_units ? "scale.boundary_measured.in_decoded_bytes" : "scale.boundary_measured.in_characters");
            vrt::count(is_hex ? "scale.hex" : "scale.base64");
            if (text.size() >= 65536) vrt::count("scale.text>=64KiB");
            if (text.size() >= (1u << 20)) vrt::count("scale.text>=1MiB");
            if (vrt::want_sample("scale") && where == 0 && text.size() > 65536)
                vrt::sample("scale", sfmt("%s text %s: boundary %zu x %zu %s from the %s = character %zu, %s at %zu", is_hex ? "hex" : "base64", scale::brief(text, at).c_str(), q, B,
                                          decoded_units ? "decoded bytes" : "characters", from_end ? "end" : "beginning", bpos, WHERE[where], at));
        });
    }
    c15_history_phases();
}

static void body()
{
    vrt::require("static_init.checks", 11);
    vrt::phase("static_initialisation", 1, [&](uint64_t, Rng &) {
        static const long want[11] = {2, 0x4a6f, -1, -1, 2, 0x4869, -1, 1, 2, 1, 1};
        static const char *const what[11] = {"hex_decode(valid) length", "hex_decode(valid) bytes", "hex_decode(\"zz\")", "hex_decode(\"4 \")", "base64_decode(valid) length", "base64_decode(valid) bytes",
                                             "base64_decode(\"S*k=\")", "hex_decode(\"zz\") throws", "base64_decode(valid) allocating", "hex_encode", "base64_encode"};
        for (int k = 0; k < 11; ++k) {
            vrt::evals();
            vrt::count("static_init.checks");
            if (g_early[k] != want[k])
                vrt::violation(sfmt("%s:called-during-static-initialisation:%s", vrt::is_prop("C14") ? "C14" : "C15", what[k]), sfmt("got %ld, want %ld", g_early[k], want[k]));
        }
    });

    // text objects (vrt::Box) at 8 mod 16 as well as at 0 mod 16: short texts live inside the object
    vrt::box_shifts() = true;
    if (vrt::is_prop("C15")) { PROP = "C15"; c15_body(); }
    else c14_body();
    vrt::alloc::check_pairing("codec");
}

#ifdef VRT_FUZZ
// libFuzzer front end (thorough tier of C15): byte 0 selects the decoder, the rest is the
// text handed to it; same monitors as the generated cases (decode_case).
static void vrt_fuzz_one(const uint8_t *d, size_t n)
{
    PROP = "C15";
    if (n == 0) return;
    decode_case(S(reinterpret_cast<const char *>(d + 1), n - 1), (d[0] & 1) != 0);
    vrt::count("fuzz.inputs");
}
#endif

VRT_MAIN(body)
