// C10 - totality and memory safety of the format-string parser: every outcome
// must be output, ST::bad_format, std::out_of_range, std::invalid_argument
// (null format) or ST::unicode_error, or the documented contract assertion for
// padding applied to a character conversion.  Format strings live in exact-size
// heap blocks (a read past the terminating NUL hits an ASan red zone).
#include "vrt.h"
#include "vrt_alloc.h"
#include "vrt_st.h"
#include "ref_format.h"
#include "gen_text.h"
#include "gen_scale.h"
#include "ambient.h"
#include <complex>
#include <filesystem>
#include <cerrno>
#include <sstream>
#include <string_theory/iostream>
#include <string_theory/stdio>
#include <climits>

using vrt::Rng;
using vrt::sfmt;
using namespace fmtref;

static std::string show(const S &s) { return vrt::hex(s.data(), s.size(), 1, 120); }

static const char CONTRACT_MSG[] = "Char formatting does not currently support padding";

enum Kind { OUT, BAD_FORMAT, OUT_OF_RANGE, INVALID_ARGUMENT, UNICODE_ERROR, CONTRACT, OTHER };
static const char *kname(Kind k)
{
    static const char *const n[] = {"output", "ST::bad_format", "std::out_of_range", "std::invalid_argument", "ST::unicode_error", "contract-assertion", "other"};
    return n[k];
}
struct Result {
    Kind kind = OTHER;
    S bytes;
    S what;
};

// extra shapes beyond rt/ref_format.h: floating point, complex, null text pointers
static const int EXTRA_BASE = 100;
static const int NEXTRA = 9;

template <typename Sink>
static void call_any(int shape, const Values &v, const char *fmt, Sink &&sink)
{
    static const double d1 = 3.25, d2 = -1e100, d3 = 0.0;
    static const float f1 = 2.5f;
    static const std::complex<double> cx(1.5, -2.0);
    static const char *nullc = nullptr;
    static const wchar_t *nullw = nullptr;
    static const char16_t *null16 = nullptr;
    static const char32_t *null32 = nullptr;
    switch (shape) {
    case EXTRA_BASE + 0: sink(fmt, d1); return;
    case EXTRA_BASE + 1: sink(fmt, f1, d2); return;
    case EXTRA_BASE + 2: sink(fmt, cx); return;
    case EXTRA_BASE + 3: sink(fmt, nullc, v.i); return;
    case EXTRA_BASE + 4: sink(fmt, nullw, null16, null32); return;
    case EXTRA_BASE + 5: sink(fmt, d3, v.st, v.i, d2); return;
    case EXTRA_BASE + 6: sink(fmt, v.i, d1, v.cstr, v.c32, v.b); return;
    case EXTRA_BASE + 7: { static const std::filesystem::path shortp("a/b.txt"); sink(fmt, shortp); return; }
    case EXTRA_BASE + 8: { static const std::filesystem::path longp("/a/rather/long/path/that/does/not/fit/a/small/buffer/caf\xC3\xA9.txt"); sink(fmt, v.i, longp, v.cstr); return; }
    default: call_shape_x(shape, v, fmt, nullptr, sink); return;
    }
}

// one ST::format call under a given validation selector (-1: the overload without a mode)
static Result run_format(int shape, const Values &v, const char *fmt, int mode)
{
    Result r;
    vrt::evals();
    vrt::st().assert_throws = true;
    // whatever an unrelated earlier C library call left in errno must not change the outcome
    { static unsigned n = 0; static const int stale[] = {0, EINVAL, ERANGE, ENOENT, EDOM}; errno = stale[n++ % 5]; }
    try {
        call_any(shape, v, fmt, [&](const char *f, auto &&...a) {
            ST::string out = mode == 0 ? ST::format(ST::assume_valid, f, a...)
                           : mode == 1 ? ST::format(ST::substitute_invalid, f, a...)
                           : mode == 2 ? ST::format(ST::check_validity, f, a...)
                           : ST::format(f, a...);
            r.bytes.assign(out.c_str(), out.size());
            if (out.c_str()[out.size()] != 0) vrt::violation("C10:no-terminator", "result without terminating NUL");
            r.kind = OUT;
        });
    } catch (const vrt::assertion_reached &a) {
        if (a.message == CONTRACT_MSG) r.kind = CONTRACT;
        else { r.kind = OTHER; r.what = "assertion: " + a.message + " @" + a.file; }
    } catch (const ST::unicode_error &e) { r.kind = UNICODE_ERROR; r.what = e.what();
    } catch (const ST::bad_format &e) { r.kind = BAD_FORMAT; r.what = e.what();
    } catch (const std::out_of_range &e) { r.kind = OUT_OF_RANGE; r.what = e.what();
    } catch (const std::invalid_argument &e) { r.kind = INVALID_ARGUMENT; r.what = e.what();
    } catch (const std::exception &e) { r.kind = OTHER; r.what = vrt::demangle(typeid(e).name()) + ": " + e.what(); }
    vrt::st().assert_throws = false;
    return r;
}

// The same format call through the incremental sinks: ST::printf into a memory FILE*, ST::writef into narrow and wide
// string streams.  Content is C17's subject; here only totality and memory safety: the outcome must be in the accepted
// set and ASan/UBSan watch the sinks' own padding / chunking loops.
template <typename F>
static Result run_sink(F &&f)
{
    Result r;
    vrt::evals();
    vrt::st().assert_throws = true;
    try {
        f();
        r.kind = OUT;
    } catch (const vrt::assertion_reached &a) {
        if (a.message == CONTRACT_MSG) r.kind = CONTRACT;
        else { r.kind = OTHER; r.what = "assertion: " + a.message + " @" + a.file; }
    } catch (const ST::unicode_error &e) { r.kind = UNICODE_ERROR; r.what = e.what();
    } catch (const ST::bad_format &e) { r.kind = BAD_FORMAT; r.what = e.what();
    } catch (const std::out_of_range &e) { r.kind = OUT_OF_RANGE; r.what = e.what();
    } catch (const std::invalid_argument &e) { r.kind = INVALID_ARGUMENT; r.what = e.what();
    } catch (const std::exception &e) { r.kind = OTHER; r.what = vrt::demangle(typeid(e).name()) + ": " + e.what(); }
    vrt::st().assert_throws = false;
    return r;
}

static void sinks_case(int shape, const Values &v, const char *fmt, const std::string &ctx, Kind format_kind)
{
    Result rs[5];
    {
        char *mem = nullptr;
        size_t msz = 0;
        FILE *fp = open_memstream(&mem, &msz);
        rs[0] = run_sink([&] { call_any(shape, v, fmt, [&](const char *f, auto &&...a) { ST::printf(fp, f, a...); }); });
        fclose(fp);
        free(mem);
    }
    { std::ostringstream os; rs[1] = run_sink([&] { call_any(shape, v, fmt, [&](const char *f, auto &&...a) { ST::writef(os, f, a...); }); }); }
    { std::wostringstream os; rs[2] = run_sink([&] { call_any(shape, v, fmt, [&](const char *f, auto &&...a) { ST::writef(os, f, a...); }); }); }
    { std::basic_ostringstream<char16_t> os; rs[3] = run_sink([&] { call_any(shape, v, fmt, [&](const char *f, auto &&...a) { ST::writef(os, f, a...); }); }); }
    { std::basic_ostringstream<char32_t> os; rs[4] = run_sink([&] { call_any(shape, v, fmt, [&](const char *f, auto &&...a) { ST::writef(os, f, a...); }); }); }
    static const char *const names[] = {"printf", "writef<char>", "writef<wchar_t>", "writef<char16_t>", "writef<char32_t>"};
    for (int i = 0; i < 5; ++i) {
        if (rs[i].kind == OTHER)
            vrt::violation(sfmt("C10:%s:foreign-outcome:%s", names[i], rs[i].what.substr(0, 80).c_str()), ctx);
        if (rs[i].kind == INVALID_ARGUMENT)
            vrt::violation(sfmt("C10:%s:invalid_argument-for-non-null-format", names[i]), ctx);
        // bad_format / out_of_range / the contract stop depend on the format string and the argument list alone
        // (a wide sink transcodes chunk by chunk and may meet text that is not valid UTF-8 before the structural error)
        if (i >= 2 && rs[i].kind == UNICODE_ERROR) { vrt::count("sinks.wide_sink_rejected_a_chunk"); continue; }
        const bool structural = format_kind == BAD_FORMAT || format_kind == OUT_OF_RANGE || format_kind == CONTRACT;
        if ((structural && rs[i].kind != format_kind) || (!structural && (rs[i].kind == BAD_FORMAT || rs[i].kind == OUT_OF_RANGE || rs[i].kind == CONTRACT)))
            vrt::violation(sfmt("C10:%s:outcome-differs-from-format", names[i]), sfmt("%s ST::format: %s, %s: %s %s", ctx.c_str(), kname(format_kind), names[i], kname(rs[i].kind), rs[i].what.c_str()));
    }
    vrt::count("sinks.cases");
}

// Widths / precisions that mean hundreds of kilobytes to gigabytes of output are a resource question, not a
// parser one (stated bound, DESIGN 6.8): such format strings are skipped.  Which number is a width or precision is
// decided by the *documented* grammar (literal text with {{ }} escapes; inside a field: '_' takes the next character
// as pad, a digit 1-9 starts the width, '.' and '&' are followed by a strtol number), never by what the library under
// test does with it - so a library that takes some other number for the width still runs, and is caught by the
// watchdog / allocation cap.  The narrowing to int is part of that grammar (a 10-digit width wraps).
static bool resource_heavy(const S &f)
{
    const char *p = f.c_str();
    const long LIMIT = 200000;
    for (;;) {
        // literal text up to the next field
        while (*p) {
            if (*p == '{') { if (p[1] == '{') { p += 2; continue; } break; }
            ++p;
        }
        if (!*p) return false;
        // a field
        for (++p;; ++p) {
            const char c = *p;
            if (c == 0) return false;                    // unterminated: bad_format
            if (c == '}') { ++p; break; }
            if (c == '_') { if (!p[1]) return false; ++p; continue; }
            if (c >= '1' && c <= '9') {
                char *end = nullptr;
                const int w = static_cast<int>(strtol(p, &end, 10));
                if (w > LIMIT) return true;
                p = end - 1;
                continue;
            }
            if (c == '.' || c == '&') {
                if (!p[1]) return false;
                char *end = nullptr;
                const int v = static_cast<int>(strtol(p + 1, &end, 10));
                if (c == '.' && v > LIMIT) return true;
                p = end - 1;
                continue;
            }
            if (!strchr("<>0#xX+dobcfeE", c)) return false;   // bad_format: nothing after this is formatted
        }
    }
}

// The string_view arguments of a case, re-seated on heap blocks of exactly their size (no unit behind the view, no
// terminator): a formatter that reads a view as a NUL-terminated string runs into an ASan red zone.
struct ExactViews {
    vrt::Exact<char> a;
    vrt::Exact<wchar_t> w;
    vrt::Exact<char16_t> u16;
    vrt::Exact<char32_t> u32;
    vrt::Exact<char8_t> u8;
    explicit ExactViews(Values &v)
        : a(v.sv.data(), v.sv.size()), w(v.wsv.data(), v.wsv.size()), u16(v.sv16.data(), v.sv16.size()), u32(v.sv32.data(), v.sv32.size()), u8(v.sv8.data(), v.sv8.size())
    {
        v.sv = std::string_view(a.data(), a.size());
        v.wsv = std::wstring_view(w.data(), w.size());
        v.sv16 = std::u16string_view(u16.data(), u16.size());
        v.sv32 = std::u32string_view(u32.data(), u32.size());
        v.sv8 = std::u8string_view(u8.data(), u8.size());
    }
};

static bool g_sinks_sampled = false;
static int g_selector_rotation = 0;
static void format_case(const S &fmt, int shape, const Values &v, bool bounded = true)
{
    if (bounded && resource_heavy(fmt)) { vrt::count("skipped.resource_heavy_width"); return; }
    vrt::Exact<char> f(fmt.data(), fmt.size(), true);
    vrt::cur_rewind();
    vrt::cur_printf("shape=%d fmt=%s\n", shape, show(fmt).c_str());
    Result r[4];
    // (the order in which the four selectors are tried is rotated by the history phases; the verdicts do not depend on it)
    for (int q = 0; q < 4; ++q) { const int m = (q + g_selector_rotation) % 4; r[m] = run_format(shape, v, f.data(), m == 3 ? -1 : m); }
    std::string ctx = sfmt("shape=%d fmt=%s (text: %s)", shape, show(fmt).c_str(), vrt::json_escape(fmt.substr(0, 160)).substr(0, 160).c_str());
    if (fmt.size() > 2000) ctx += " [" + scale::brief(fmt) + "]";
    for (int m = 0; m < 4; ++m) {
        if (r[m].kind == OTHER)
            vrt::violation(sfmt("C10:foreign-outcome:%s", r[m].what.substr(0, 80).c_str()), ctx);
        if (r[m].kind == INVALID_ARGUMENT)
            vrt::violation("C10:invalid_argument-for-non-null-format", ctx);
    }
    // the requested validation decides only between output and unicode_error
    const Result &a = r[0];
    if (a.kind == UNICODE_ERROR)
        vrt::violation("C10:unicode_error-under-assume_valid", ctx + " " + a.what);
    else if (a.kind == OUT) {
        const bool valid = ref::utf8_ok(a.bytes);
        if (r[1].kind != OUT || r[1].bytes != ref::cleanup_utf8(a.bytes))
            vrt::violation("C10:substitute_invalid-outcome", sfmt("%s assume_valid gave %s, substitute_invalid gave %s %s", ctx.c_str(), show(a.bytes).c_str(), kname(r[1].kind), show(r[1].bytes).c_str()));
        for (int m : {2, 3}) {
            if (valid ? (r[m].kind != OUT || r[m].bytes != a.bytes) : r[m].kind != UNICODE_ERROR)
                vrt::violation(sfmt("C10:%s-outcome", m == 2 ? "check_validity" : "default-mode"),
                               sfmt("%s result %s is %svalid UTF-8 but the call gave %s", ctx.c_str(), show(a.bytes).c_str(), valid ? "" : "not ", kname(r[m].kind)));
        }
        if (!valid) vrt::count("outcome.invalid_utf8_result");
    } else {
        for (int m = 1; m < 4; ++m)
            if (r[m].kind != a.kind)
                vrt::violation("C10:outcome-depends-on-validation-mode", sfmt("%s assume_valid: %s, mode %d: %s", ctx.c_str(), kname(a.kind), m, kname(r[m].kind)));
    }
    // (in the exhaustive grammar sweep the sinks get every third format string; everywhere else all of them)
    if (a.kind != OTHER && (!g_sinks_sampled || vrt::fnv1a(fmt.data(), fmt.size(), 7) % 3 == 0)) sinks_case(shape, v, f.data(), ctx, a.kind);
    vrt::count(S("outcome.") + kname(a.kind));
    vrt::distinct(vrt::fnv1a(fmt.data(), fmt.size(), static_cast<uint64_t>(shape) + 101));
}

// one to three random edits (insert, erase, replace, duplicate a piece) with bytes of the specifier alphabet
static const char INJ[] = {'{', '}', '_', '.', '&', '0', '9', '+', '-', ' ', 'x', 'c', '#', '<', '>', '\t', 'z', '\x80', '\xff', 'E', 'f', 'e', 'b', 'o', 'X', 'd'};
static void mutate_format(Rng &r, S &fmt)
{
    for (int rep = static_cast<int>(1 + r.below(3)); rep-- > 0;) {
        size_t p = r.below(fmt.size() + 1);
        switch (r.below(4)) {
        case 0: fmt.insert(p, 1, r.pick(INJ)); break;
        case 1: if (p < fmt.size()) fmt.erase(p, 1); break;
        case 2: if (p < fmt.size()) fmt[p] = r.pick(INJ); break;
        default: if (p < fmt.size()) fmt.insert(p, fmt.substr(p, 1 + r.below(4))); break;
        }
    }
    // the terminator must stay the only NUL
    for (auto &c : fmt) if (c == '\0') c = '0';
}

static const int DIRECTED_SHAPES[] = {0, 1, 2, 5, 9, EXTRA_BASE + 0, EXTRA_BASE + 3, EXTRA_BASE + 7};

static int random_shape(Rng &r)
{
    return r.chance(1, 6) ? EXTRA_BASE + static_cast<int>(r.below(NEXTRA)) : static_cast<int>(r.below(NSHAPES));
}

// format_case on a scale-phase input; the outcome classes it produced are counted again under "scale.outcome."
static void scale_format_case(const S &fmt, int shape, const Values &v)
{
    static const char *const names[] = {"output", "ST::bad_format", "std::out_of_range", "invalid_utf8_result", "contract-assertion"};
    uint64_t before[5];
    for (int k = 0; k < 5; ++k) before[k] = vrt::counter(S("outcome.") + names[k]);
    const uint64_t skipped = vrt::counter("skipped.resource_heavy_width");
    format_case(fmt, shape, v);
    if (vrt::counter("skipped.resource_heavy_width") != skipped) vrt::count("scale.skipped_as_resource_heavy");
    for (int k = 0; k < 5; ++k) {
        const uint64_t d = vrt::counter(S("outcome.") + names[k]) - before[k];
        if (d) vrt::count(S("scale.outcome.") + names[k], d);
    }
    vrt::count("scale.format_strings");
    if (fmt.size() >= 65536) vrt::count("scale.format_strings>=64KiB");
}

// ---------------------------------------------------------------- "state that survives a call" / "where the data lives"
// (rt/ref_format.h, sections 5-7): formatters that call back into the library, the caller's stack, format strings behind
// foreign bytes, buffers rewritten in place, tens of thousands of consecutive calls in one case - all through format_case():
// outcome class, cross-selector consistency, the sinks, and the sanitizers.  std::bad_function_call or any other exception
// outside the documented set is a "foreign outcome".
struct SoakEntry {
    Values v;
    Reent x;
    int shape = 0;
    S fmt;
    int mode = 0;
    size_t slot = 256, align = 0;
    int depth = 0;
    unsigned rot = 0;
};
static void soak_execute(SoakEntry &e)
{
    Placement &pl = placement();
    pl.mode = e.mode; pl.slot = e.slot; pl.depth = e.depth; pl.rot = e.rot; pl.align = e.align;
    ReentScope rs(&e.x);
    format_case(e.fmt, e.shape, e.v);
}
// flavour 0: boring (ASCII only, short, well-formed); 1: random (as in cut_and_mutate); 2: interesting
static std::unique_ptr<SoakEntry> soak_entry(Rng &r, int flavour)
{
    std::unique_ptr<SoakEntry> e(new SoakEntry);
    ReentScope rs(&e->x);
    if (flavour == 0) {
        random_values(r, e->v);
        set_all_texts(e->v, compose(r, r.below(20), BG_ASCII_RANDOM));
        static const int shapes[] = {0, 1, 2, 3, 5, 45, 32};
        e->shape = r.pick(shapes);
        e->fmt = compose(r, 1 + r.below(30), BG_ASCII_RANDOM);
        if (e->shape != 0 && r.chance(1, 2)) e->fmt += "{}" + compose(r, r.below(8), BG_ASCII_RANDOM);
    } else if (flavour == 1) {
        random_values(r, e->v);
        e->shape = random_shape(r);
        e->fmt = random_literal(r);
        for (size_t k = 1 + r.below(3); k-- > 0;) {
            Field f = random_field(r, true);
            if (f.width > 60) f.width = static_cast<int>(1 + r.below(60));
            if (r.chance(1, 3)) f.argref = static_cast<int>(r.below(7));
            e->fmt += field_text(f);
            e->fmt += random_literal(r);
        }
        if (r.chance(1, 2)) mutate_format(r, e->fmt);
        if (r.chance(1, 6)) { e->mode = 3; e->align = r.below(16); }
    } else {
        ScaleFmt sf;
        switch (r.below(5)) {
        case 0: reentrant_case(r, e->v, e->shape, sf); break;
        case 1: { Placement pl; stack_case(r.below(200), r, e->v, e->shape, sf, pl, false); e->mode = 1; e->slot = pl.slot; e->depth = pl.depth; e->rot = pl.rot; break; }
        case 2: {   // the only bytes that are not ASCII / the only braces sit in the last 1..7 bytes of a format string of 16 bytes or more
            random_values(r, e->v);
            e->shape = random_shape(r);
            static const char *const tails[] = {"{}", "{{", "}}", "}", "{", "{&1}", "\xC3\xA9", "\xF0\x9F\x98\x80", "{z}", "{_", "{.3}", "\x80"};
            sf.lit(compose(r, 16 + r.below(300), BG_ASCII_RANDOM));
            sf.lit(r.pick(tails));
            if (r.chance(1, 2)) sf.lit(compose(r, r.below(4), BG_ASCII_RANDOM));
            break;
        }
        case 3: {   // the last append takes the output across 256 / 512 bytes
            random_values(r, e->v);
            e->shape = 5;
            const size_t C = r.chance(2, 3) ? 256 : 512, P = 1 + r.below(40), B = C - r.below(P);
            set_all_texts(e->v, compose(r, P, BG_ASCII_RANDOM));
            sf.lit(compose(r, B, BG_ASCII_RANDOM)); sf.field(plain_field(r.chance(1, 2) ? 2 : 4));
            break;
        }
        default: {
            static const int shapes[] = {EXTRA_BASE + 0, EXTRA_BASE + 1, EXTRA_BASE + 2, EXTRA_BASE + 4, EXTRA_BASE + 5, EXTRA_BASE + 8, 8, 12, 14};
            random_values(r, e->v);
            e->shape = r.pick(shapes);
            for (size_t k = 1 + r.below(3); k-- > 0;) { Field f = random_field(r, true); if (f.width > 60) f.width = 7; static const char fl[] = {'f', 'e', 'E', 0}; if (r.chance(1, 2)) f.cls = r.pick(fl); sf.field(f); sf.lit(random_literal(r)); }
            break;
        }
        }
        e->fmt = sf.text();
        if (r.chance(1, 5)) mutate_format(r, e->fmt);
    }
    return e;
}

static void history_phases()
{
    g_sinks_sampled = false;
    vrt::note("history phases: (reentrant) argument types whose format_type() calls ST::format / writef / printf itself - two and three of them in one call, trees of depth 2..4 whose nested calls have the "
              "signature of the running call, nested calls that throw and are caught - with well-formed, cut and mutated format strings; (stack) format string and text arguments in local arrays of "
              "64 B..8 KiB right above the library's frames, the output outgrowing 256, 512, ... bytes with one append; (same_storage) format strings and arguments of identical size rewritten in place / "
              "rebuilt at the same address, malformed ones in between; (soak) more than 70000 consecutive calls in one case; (alignment) format strings of 32..200 bytes at every start alignment with "
              "braces directly in front of them");
    vrt::require("reentrant.cases", 5000);
    vrt::require("reentrant.nested_calls_of_recursive_formatters", 50000);
    vrt::require("reentrant.nested_call_with_the_signature_of_a_running_call", 30000);
    vrt::require("reentrant.nested_call_with_the_signature_of_two_or_more_running_calls", 10000);
    vrt::require("reentrant.nested_call_threw_and_was_caught_in_the_formatter", 10000);
    vrt::require("reentrant.nested_call_through_writef", 5000);
    vrt::require("reentrant.nested_call_through_printf", 5000);
    vrt::require("reentrant.values_with_a_tree_of_depth_4", 500);
    vrt::require("reentrant.cut_at_every_position", 1000);
    vrt::require("reentrant.mutated", 1000);
    for (int k = 0; k < N_REENT_SHAPES; ++k) vrt::require(sfmt("reentrant.shape.%d", REENT_SHAPES[k]), 150);
    vrt::phase("reentrant", vrt::tier_count(6000, 400000), [&](uint64_t i, Rng &r) {
        PlacementScope ps;
        g_sinks_sampled = false;
        g_selector_rotation = static_cast<int>(i % 4);
        Values v;
        int shape = 0;
        ScaleFmt sf;
        reentrant_case(r, v, shape, sf);
        S fmt = sf.text();
        switch (r.below(4)) {
        case 0: for (size_t k = 0; k <= fmt.size(); ++k) format_case(fmt.substr(0, k), shape, v); vrt::count("reentrant.cut_at_every_position"); break;
        case 1: mutate_format(r, fmt); format_case(fmt, shape, v); vrt::count("reentrant.mutated"); break;
        default: format_case(fmt, shape, v); break;
        }
        g_selector_rotation = 0;
        if (vrt::want_sample("reentrant") && fmt.size() > 10 && fmt.size() < 60) vrt::sample("reentrant", sfmt("shape %d (formatters that call back into the library), format \"%s\"", shape, vrt::json_escape(fmt).c_str()));
    });

    vrt::require("stack.cases", 3000);
    vrt::require("stack.calls_with_format_string_and_arguments_in_the_caller's_frame", 20000);
    vrt::require("stack.piece_is_a_text_argument", 1000);
    vrt::require("stack.piece_is_a_literal_run", 400);
    vrt::require("stack.piece_is_the_rendering_of_a_number", 300);
    vrt::require("stack.lowest_array_less_than_4096_bytes_above_the_call", 15000);
    vrt::require("stack.format_string_less_than_4096_bytes_above_the_call", 8000);
    vrt::require("stack.output_crosses_256_bytes_in_one_append", 1000);
    vrt::require("stack.output_crosses_512_bytes_in_one_append", 200);
    vrt::require("stack.output_crosses_8192_bytes_in_one_append", 200);
    vrt::phase("stack", vrt::tier_count(4000, 200000), [&](uint64_t i, Rng &r) {
        PlacementScope ps;
        g_sinks_sampled = false;
        g_selector_rotation = static_cast<int>(i % 4);
        Values v;
        int shape = 0;
        ScaleFmt sf;
        stack_case(i, r, v, shape, sf, placement(), false);
        S fmt = sf.text();
        if (r.chance(1, 4)) mutate_format(r, fmt);
        else if (r.chance(1, 4) && !fmt.empty()) fmt.resize(fmt.size() - 1 - r.below(std::min<size_t>(fmt.size(), 6)));
        format_case(fmt, shape, v);
        if (r.chance(1, 8)) {
            Values v2;
            ScaleFmt sf2;
            reentrant_case(r, v2, shape, sf2);
            format_case(sf2.text(), shape, v2);
        }
        g_selector_rotation = 0;
    });

    vrt::require("same_storage.cases", 600);
    vrt::require("same_storage.contents", 2500);
    vrt::require("same_storage.format_string_rewritten_in_place", 2500);
    vrt::require("same_storage.argument_buffers_rewritten_in_place", 5000);
    vrt::require("same_storage.ST::string_successors_of_the_same_size", 1000);
    vrt::require("same_storage.ST::string_heap_block_at_the_address_of_its_predecessor", 500);
    vrt::require("same_storage.malformed_content_between_two_others", 1000);
    vrt::phase("same_storage", vrt::tier_count(800, 24000), [&](uint64_t i, Rng &r) {
        PlacementScope ps;
        g_sinks_sampled = false;
        static const size_t LS[] = {33, 40, 64, 100, 256, 300, 1024, 1500, 4096, 5000, 16387};
        static const size_t AS[] = {20, 40, 64, 100, 256, 300, 1024, 1500, 4096, 5000};
        const size_t L = LS[i % 11], A = AS[(i / 11) % 10], K = 3 + r.below(4);
        placement().mode = 3;
        placement().align = r.below(16);
        const size_t arg_align = r.below(16);
        CallerTexts ct;
        Values v;
        random_values(r, v);
        static const int shapes[] = {5, 7, 45, 13, 2, 32, 200, 202, 8, 14, 3, 15, 46, 34, 42, 36, EXTRA_BASE + 3, EXTRA_BASE + 5, EXTRA_BASE + 6};
        const int shape = r.pick(shapes);
        const size_t nargs = shape == EXTRA_BASE + 3 ? 2 : shape == EXTRA_BASE + 5 ? 4 : shape == EXTRA_BASE + 6 ? 5 : [&] { std::vector<Arg> args; call_shape(shape, v, "", &args, [](const char *, auto &&...) {}); return args.size(); }();
        std::vector<ScaleFmt> fmts;
        std::vector<S> texts;
        same_storage_formats(r, nargs, L, K, false, fmts);
        same_storage_texts(r, A, K, texts);
        for (size_t k = 0; k < K; ++k) {
            g_selector_rotation = static_cast<int>((i + k) % 4);
            ST::string prev(std::move(v.st));
            ct.set(v, texts[k], arg_align);
            succeed_st(v, prev, texts[k]);
            const S fmt = fmts[k].text();
            format_case(fmt, shape, v);
            vrt::count("same_storage.contents");
            if (r.chance(2, 3)) {       // ... and a malformed / different one of the same length from the same buffer: bytes in the middle replaced
                S bad = fmt;
                for (size_t n = 1 + r.below(3); n-- > 0;) bad[16 + r.below(L - 32)] = r.pick(INJ);
                for (auto &c : bad) if (c == '\0') c = '0';
                format_case(bad, shape, v);
                vrt::count("same_storage.malformed_content_between_two_others");
            }
        }
        g_selector_rotation = 0;
        vrt::count("same_storage.cases");
        if (vrt::want_sample("same_storage") && L == 64)
            vrt::sample("same_storage", sfmt("shape %d: %zu format strings of %zu bytes in one buffer (\"%s\", \"%s\", ...) and edited copies of them, text arguments of %zu bytes rewritten in place", shape, K, L,
                                             vrt::json_escape(fmts[0].text()).c_str(), vrt::json_escape(fmts[1].text()).c_str(), A));
    });

    vrt::require("soak.cases_with_70000_or_more_consecutive_format_calls", 16);
    vrt::require("soak.runs_of_64_or_more_equal_calls_then_an_interesting_one", 300);
    vrt::phase("soak", vrt::thorough() ? 64 : 16, [&](uint64_t, Rng &r) {
        PlacementScope ps;
        g_sinks_sampled = true;                 // (the sinks get every third format string here)
        const size_t M = 40;
        std::vector<std::unique_ptr<SoakEntry>> pool, boring;
        for (size_t k = 0; k < M; ++k) pool.push_back(soak_entry(r, k % 4 == 3 ? 2 : 1));
        for (size_t k = 0; k < 6; ++k) boring.push_back(soak_entry(r, 0));
        uint64_t cases = 0, runs = 0;
        while (cases * 4 < 72000) {             // four ST::format calls per format_case
            g_selector_rotation = static_cast<int>(cases % 4);
            if (r.chance(1, 150)) {
                SoakEntry &b = *boring[r.below(boring.size())];
                std::unique_ptr<SoakEntry> next = soak_entry(r, 2);
                const size_t n = 64 + r.below(237);
                for (size_t k = 0; k < n; ++k) soak_execute(b);
                soak_execute(*next);
                cases += n + 1;
                ++runs;
                if (r.chance(1, 4)) boring[r.below(boring.size())] = soak_entry(r, 0);
                pool[r.below(M)] = std::move(next);
            } else {
                soak_execute(*pool[r.below(M)]);
                ++cases;
                if (r.chance(1, 25)) pool[r.below(M)] = soak_entry(r, r.chance(1, 3) ? 2 : 1);
            }
        }
        g_selector_rotation = 0;
        g_sinks_sampled = false;
        vrt::count("soak.format_calls", cases * 4);
        vrt::count("soak.runs_of_64_or_more_equal_calls_then_an_interesting_one", runs);
        if (cases * 4 >= 70000) vrt::count("soak.cases_with_70000_or_more_consecutive_format_calls");
        if (vrt::want_sample("soak")) vrt::sample("soak", sfmt("%llu consecutive ST::format calls (%llu format strings x 4 validation selectors, every third also through the five sinks) of mixed shapes in one case, "
                                                               "%llu runs of 64..300 equal plain calls each followed by an interesting one", static_cast<unsigned long long>(cases * 4), static_cast<unsigned long long>(cases),
                                                               static_cast<unsigned long long>(runs)));
    });

    vrt::require("alignment.format_strings", 1000);
    vrt::require("alignment.calls_with_a_format_string_behind_foreign_bytes", 300000);
    const unsigned usual_budget = vrt::case_cpu_budget();
    vrt::case_cpu_budget() = 8;                 // (small cases: a parser that runs away from such a string is stopped early)
    vrt::phase("alignment", vrt::tier_count(1020, 40800), [&](uint64_t i, Rng &r) {
        PlacementScope ps;
        g_sinks_sampled = true;
        Values v;
        random_values(r, v);
        static const int shapes[] = {1, 2, 3, 5, 6, 7, 9, 10, 12, 47, 0, 200, EXTRA_BASE + 0, EXTRA_BASE + 6};
        const int shape = r.pick(shapes);
        const size_t nargs = shape == EXTRA_BASE + 0 ? 1 : shape == EXTRA_BASE + 6 ? 5 : [&] { std::vector<Arg> args; call_shape(shape, v, "", &args, [](const char *, auto &&...) {}); return args.size(); }();
        ScaleFmt sf;
        alignment_format(i, r, nargs, false, sf);
        S fmt = sf.text();
        if (r.chance(1, 4)) mutate_format(r, fmt);
        Placement &pl = placement();
        pl.mode = 2;
        for (size_t a = 0; a < 16; ++a)
            for (int q = 0; q < N_ALIGN_PREFIXES; ++q) {
                pl.align = a;
                pl.prefix = ALIGN_PREFIXES[q];
                pl.fill_with_prefix = ((a + static_cast<size_t>(q) + i) % 2) != 0;
                format_case(fmt, shape, v);
            }
        g_sinks_sampled = false;
        if (vrt::want_sample("alignment") && fmt.size() < 50)
            vrt::sample("alignment", sfmt("shape %d, format \"%s\" at every address modulo 16 with {, }, {{, }}, {} and }{ directly in front of it in the same block", shape, vrt::json_escape(fmt).c_str()));
    });
    vrt::case_cpu_budget() = usual_budget;
    g_sinks_sampled = false;
    g_selector_rotation = 0;
}

static void body()
{
    ambient::enable(3);
    vrt::require("outcome.output", 10000);
    vrt::require("outcome.ST::bad_format", 10000);
    vrt::require("outcome.std::out_of_range", 1000);
    vrt::require("outcome.contract-assertion", 100);
    vrt::require("outcome.invalid_utf8_result", 100);
    vrt::require("null_format.calls", 8);
    vrt::require("cut.cases", 1000);
    vrt::require("wrapping_numbers.cases", 100);
    vrt::require("sinks.cases", 10000);

    // (a) grammar-directed: every string over the specifier alphabet up to length L
    S alpha = "{}_.&019+- xcf#<>d";
    alpha.push_back('\x80');
    const size_t L = vrt::thorough() ? 5 : 4;
    const uint64_t n = gen::count_strings(alpha.size(), L);
    vrt::note(sfmt("all %llu strings of length <= %zu over the alphabet \"{}_.&019+- xcf#<>d\\x80\" as format strings x 7 argument lists x 4 validation selectors",
                   static_cast<unsigned long long>(n), L));
    vrt::phase("grammar_exhaustive", n, [&](uint64_t i, Rng &r) {
        g_sinks_sampled = true;
        S fmt;
        gen::nth_string(i, alpha, L, fmt);
        Values v;
        random_values(r, v);
        ExactViews exact_views(v);
        v.i = 65; v.c32 = 0x1F600;
        for (int shape : DIRECTED_SHAPES) format_case(fmt, shape, v);
        if (vrt::want_sample("grammar_exhaustive") && fmt.size() == L && fmt[0] == '{') vrt::sample("grammar_exhaustive", "format string \"" + vrt::json_escape(fmt) + "\" with 7 argument lists");
    });

    // (b) valid fields cut at every position, (c) mutated
    vrt::phase("cut_and_mutate", vrt::tier_count(40000, 2500000), [&](uint64_t, Rng &r) {
        g_sinks_sampled = false;
        Values v;
        random_values(r, v);
        ExactViews exact_views(v);
        int shape = random_shape(r);
        S fmt = random_literal(r);
        size_t nf = 1 + r.below(3);
        for (size_t k = 0; k < nf; ++k) {
            Field f = random_field(r, true);
            if (r.chance(1, 3)) f.argref = static_cast<int>(r.below(7));
            if (r.chance(1, 4)) { static const char fl[] = {'f', 'e', 'E'}; f.cls = r.pick(fl); }
            fmt += field_text(f);
            fmt += random_literal(r);
        }
        if (r.chance(1, 3)) {
            for (size_t k = 0; k <= fmt.size(); ++k) format_case(fmt.substr(0, k), shape, v);
            vrt::count("cut.cases");
        } else {
            mutate_format(r, fmt);
            format_case(fmt, shape, v);
            vrt::count("mutated.cases");
        }
        if (vrt::want_sample("cut_and_mutate") && fmt.size() > 10) vrt::sample("cut_and_mutate", sfmt("shape=%d fmt=\"%s\"", shape, vrt::json_escape(fmt).c_str()));
    });

    // (d) numbers that overflow or wrap when narrowed to int, signs and blanks after '.', '&'
    vrt::phase("wrapping_numbers", 1, [&](uint64_t, Rng &r) {
        static const char *const nums[] = {"4294967295", "4294967296", "4294967300", "2147483648", "-1", "-5", "+3", " 7", "\t2", "0", "00", "007", "99999999999999999999",
                                           "18446744073709551615", "18446744073709551616", "9223372036854775808", "-2147483649", "-4294967295", "1-", "0x10", "1e3", ""};
        static const char *const tmpl[] = {"{%s}", "{.%s}", "{&%s}", "{_*%s}", "{<%s}", "{0%s}", "{%sx}", "id={%s}!", "{.%sf}", "{&1.%s}", "{%s.%s}"};
        Values v;
        random_values(r, v);
        ExactViews exact_views(v);
        for (const char *t : tmpl)
            for (const char *num : nums) {
                S fmt = sfmt(t, num, num);
                for (int shape : {0, 1, 2, 3, 5, 31, EXTRA_BASE + 0}) format_case(fmt, shape, v);
                vrt::count("wrapping_numbers.cases");
            }
    });

    // (d') the one precision the C library itself rejects (snprintf fails with EOVERFLOW):
    // recorded as known finding K2 - the library turns it into an abort
    vrt::phase("libc_precision_limit", 1, [&](uint64_t, Rng &r) {
        Values v;
        random_values(r, v);
        ExactViews exact_views(v);
        format_case("{.2147483647f}", EXTRA_BASE + 0, v, false);
        format_case("{.-2147483649}", EXTRA_BASE + 0, v, false);
    });

    // (e) null format string: std::invalid_argument, for every entry point shape
    vrt::phase("null_format", 1, [&](uint64_t, Rng &r) {
        Values v;
        random_values(r, v);
        ExactViews exact_views(v);
        for (int shape : {0, 1, 2, 5, EXTRA_BASE + 0})
            for (int m = 0; m < 4; ++m) {
                Result res = run_format(shape, v, nullptr, m == 3 ? -1 : m);
                if (res.kind != INVALID_ARGUMENT)
                    vrt::violation("C10:null-format-outcome", sfmt("shape=%d mode=%d gave %s %s", shape, m, kname(res.kind), res.what.c_str()));
                vrt::count("null_format.calls");
            }
    });
    // ---- scale (rt/ref_format.h, last section): the same monitor (format_case: four validation selectors and five sinks, exact-size
    // format strings) on format strings, arguments, renderings and pad runs of several KiB to a MiB
    {
        g_sinks_sampled = false;
        const auto describe_only = [](const char *, auto &&...) {};
        vrt::note("scale phases: (1) literal runs of up to 320 KiB in which {{ / }} / a field / a stray } / a 2-, 3-, 4-byte character / the end of the string / an unterminated or "
                  "malformed field begins q*B-k bytes (B over scale::blocks(), q in 1..8, k in 0..3) behind the start of the run or of the string, chained, each chain also cut "
                  "right behind every such token; (2) 255..70000 fields in one format string, argument lists of 9, 17 and 20, cut in the middle; (3) text arguments of "
                  "1 KB..1 MiB with characters / U+0000 / the precision cut / the end on such multiples, pad runs of up to 200000 behind texts and numbers");
        // malformed / unterminated things that begin at the grid offset and end the string
        static const char *const BAD[] = {"{", "{_", "{.", "{&", "{z}", "{>12", "{_*300", "{{{", "{&1.", "{\xC3\xA9}"};
        const int NBAD = static_cast<int>(sizeof(BAD) / sizeof(BAD[0]));
        static const size_t CAP = 320 * 1024;
        vrt::require("scale.literal.cases", 300);
        vrt::require("scale.literal.token_straddles_a_multiple", 300);
        vrt::require("scale.literal.token_starts_on_a_multiple", 100);
        vrt::require("scale.literal.format_string>=64KiB", 100);
        vrt::require("scale.literal.cut_behind_a_token", 500);
        vrt::require("scale.literal.malformed_token_at_grid_offset", 300);
        vrt::require("scale.format_strings>=64KiB", 300);
        vrt::require("scale.outcome.output", 1000);
        vrt::require("scale.outcome.ST::bad_format", 300);
        vrt::require("scale.outcome.std::out_of_range", 10);
        vrt::require("scale.outcome.invalid_utf8_result", 5);
        for (int t = 0; t < N_TOK; ++t) vrt::require(S("scale.literal.token.") + tok_name(t), 30);
        vrt::phase("scale_literals", vrt::tier_count(21 * (N_TOK + NBAD) * 4, 21 * (N_TOK + NBAD) * 120), [&](uint64_t i, Rng &r) {
            const LiteralPlan p = literal_plan(i, N_TOK + NBAD);
            Values v;
            random_values(r, v);
            ExactViews exact_views(v);
            static const int shapes[] = {1, 2, 3, 5, 6, 7, 9, 10, 11, 12, 47, 200, 201, 202, EXTRA_BASE + 5, EXTRA_BASE + 6};
            const int shape = r.pick(shapes);
            std::vector<Arg> args;
            call_shape(shape, v, "", &args, describe_only);
            const size_t nargs = shape >= EXTRA_BASE ? (shape == EXTRA_BASE + 5 ? 4 : 5) : args.size();
            ScaleFmt sf;
            const bool malformed = p.kind >= N_TOK;
            if (!scale_literal_chain(r, p, malformed ? static_cast<int>(r.below(3)) : p.kind, nargs, CAP, true, sf)) { vrt::count("scale.literal.skipped_too_large"); return; }
            const S text = sf.text();
            if (malformed) {
                const char *bad = BAD[p.kind - N_TOK];
                for (size_t at : sf.starts) {
                    scale_format_case(text.substr(0, at) + bad, shape, v);
                    vrt::count("scale.literal.malformed_token_at_grid_offset");
                }
            } else {
                for (size_t j = 0; j + 1 < sf.ends.size(); ++j) {
                    scale_format_case(text.substr(0, sf.ends[j]) + (r.chance(1, 2) ? "" : r.chance(1, 2) ? "z" : "tail \xE2\x82\xAC"), shape, v);
                    vrt::count("scale.literal.cut_behind_a_token");
                }
                scale_format_case(text, shape, v);
            }
            if (vrt::want_sample("scale") && sf.len > 20000)
                vrt::sample("scale", sfmt("format string of %zu bytes, %zu fields, %zu tokens (%s) at offsets %zu.. (block %zu, first multiple %zu, %zu bytes in front of it), and its prefixes behind each token", sf.len, sf.fields.size(),
                                          sf.starts.size(), malformed ? BAD[p.kind - N_TOK] : tok_name(p.kind), sf.starts.empty() ? 0 : sf.starts[0], p.B, p.q0, p.k0));
        });
        vrt::require("scale.fields.cases", 20);
        vrt::require("scale.fields.more_than_255_fields", 15);
        vrt::require("scale.fields.more_than_65535_fields", 4);
        vrt::require("scale.fields.more_than_16_arguments", 4);
        vrt::phase("scale_fields", vrt::tier_count(48, 1200), [&](uint64_t i, Rng &r) {
            Values v;
            random_values(r, v);
            ExactViews exact_views(v);
            static const int shapes[] = {200, 201, 202, 5, 47, 1, 10, 12, 200, 202};
            const int shape = r.pick(shapes);
            std::vector<Arg> args;
            call_shape(shape, v, "", &args, describe_only);
            ScaleFmt sf;
            scale_many_fields(i, r, args.size(), r.chance(1, 3), sf);
            const S text = sf.text();
            scale_format_case(text, shape, v);
            // ... and cut somewhere in the second half (mostly inside a field: unterminated)
            scale_format_case(text.substr(0, text.size() / 2 + r.below(text.size() / 2 + 1)), shape, v);
        });
        vrt::require("scale.args.cases", 150);
        vrt::require("scale.args.precision_cut", 20);
        vrt::require("scale.args.pad_run>=65536", 10);
        vrt::require("scale.args.text_argument>=64KiB", 50);
        vrt::require("scale.args.text_argument>=1MB", 3);
        vrt::phase("scale_args", vrt::tier_count(336, 10080), [&](uint64_t i, Rng &r) {
            Values v;
            ArgCase c;
            scale_arg_case(i, r, v, c, (1u << 20) + 4096, 200000);
            ExactViews exact_views(v);
            scale_format_case(c.f.text(), c.shape, v);
            if (vrt::want_sample("scale-arguments")) vrt::sample("scale-arguments", sfmt("shape %d, format \"%s\": %s", c.shape, vrt::json_escape(c.f.text().substr(0, 80)).c_str(), c.what.c_str()));
        });
    }
    history_phases();
    vrt::alloc::check_pairing("fmtparse");
}

#ifdef VRT_FUZZ
// libFuzzer front end (thorough tier of C10): byte 0 selects the argument list, byte 1 seeds
// the argument values, the rest is the format string (NUL bytes become '0': the terminator
// must stay the only NUL).  Same monitors as the generated cases (format_case).
static void vrt_fuzz_one(const uint8_t *d, size_t n)
{
    if (n < 2) return;
    const int nshapes = NSHAPES + NEXTRA;
    int shape = d[0] % nshapes;
    if (shape >= NSHAPES) shape = EXTRA_BASE + (shape - NSHAPES);
    Rng r(0x5eed0000u + d[1]);
    Values v;
    random_values(r, v);
    ExactViews exact_views(v);
    S fmt(reinterpret_cast<const char *>(d + 2), n - 2);
    for (auto &c : fmt) if (c == '\0') c = '0';
    format_case(fmt, shape, v);
    vrt::count("fuzz.inputs");
}
#endif

VRT_MAIN(body)
