// C07 - find / find_last / contains / starts_with / ends_with against a naive
// scan, all needle forms, both case modes, under ASan+UBSan.  Haystacks live
// in exact-size storage; (pointer,length) needles have no terminator.
#include "vrt.h"
#include "vrt_alloc.h"
#include "vrt_st.h"
#include "ref_text.h"
#include "gen_text.h"
#include "gen_scale.h"
#include "ambient.h"

using vrt::Rng;
using vrt::sfmt;
typedef std::string S;
static const size_t SMAX = static_cast<size_t>(-1);

static std::string show(const S &s) { return vrt::hex(s.data(), s.size()); }

struct Ctx {
    const S *h, *n;
    bool ci;
};

static void bad(const char *op, const char *form, const Ctx &c, size_t pos, long got, long want)
{
    vrt::violation(sfmt("C07:%s:%s:wrong-result", op, form),
                   sfmt("haystack=%s needle=%s ci=%d pos=%zu got=%ld want=%ld", show(*c.h).c_str(), show(*c.n).c_str(), c.ci, pos, got, want));
}
#define CHECK(op, form, pos, expr, want)                                   \
    do {                                                                    \
        long got__ = static_cast<long>(expr);                               \
        vrt::evals();                                                       \
        if (got__ != static_cast<long>(want)) bad(op, form, ctx, pos, got__, static_cast<long>(want)); \
    } while (0)

// everything about one (haystack, needle) pair
static void pair_case(const vrt::Box<ST::string> &hs, const S &h, const S &n, const std::vector<size_t> &positions)
{
    vrt::cur_rewind();
    vrt::cur_printf("haystack=%s needle=%s\n", show(h).c_str(), show(n).c_str());
    vrt::Box<ST::string> ns(vrt::mk(n));
    vrt::Exact<char> nptr(n.data(), n.size(), false);     // exactly n bytes, no NUL
    vrt::Exact<char> ncstr(n.data(), n.size(), true);
    const bool cstr_ok = n.find('\0') == S::npos;
    const bool char_ok = n.size() == 1;
    const char8_t *n8 = reinterpret_cast<const char8_t *>(ncstr.data());
    const char8_t *n8p = reinterpret_cast<const char8_t *>(nptr.data());

    for (int cim = 0; cim < 2; ++cim) {
        const bool ci = cim != 0;
        ST::case_sensitivity_t cs = ci ? ST::case_insensitive : ST::case_sensitive;
        Ctx ctx{&h, &n, ci};
        for (size_t pos : positions) {
            const long wf = ref::find(h, n, pos, ci);
            const long wl = ref::find_last(h, n, pos, ci);
            CHECK("find", "ST::string", pos, hs->find(pos, *ns, cs), wf);
            CHECK("find", "ptr+len", pos, hs->find(pos, nptr.data(), n.size(), cs), wf);
            CHECK("find", "char8_t-ptr+len", pos, hs->find(pos, n8p, n.size(), cs), wf);
            CHECK("find_last", "ST::string", pos, hs->find_last(pos, *ns, cs), wl);
            CHECK("find_last", "ptr+len", pos, hs->find_last(pos, nptr.data(), n.size(), cs), wl);
            CHECK("find_last", "char8_t-ptr+len", pos, hs->find_last(pos, n8p, n.size(), cs), wl);
            if (cstr_ok) {
                CHECK("find", "cstr", pos, hs->find(pos, ncstr.data(), cs), wf);
                CHECK("find", "char8_t-cstr", pos, hs->find(pos, n8, cs), wf);
                CHECK("find_last", "cstr", pos, hs->find_last(pos, ncstr.data(), cs), wl);
                CHECK("find_last", "char8_t-cstr", pos, hs->find_last(pos, n8, cs), wl);
            }
            if (char_ok) {
                CHECK("find", "char", pos, hs->find(pos, n[0], cs), wf);
                CHECK("find_last", "char", pos, hs->find_last(pos, n[0], cs), wl);
            }
            if (wf >= 0) vrt::count("find.hit"); else vrt::count("find.miss");
            if (wl >= 0) vrt::count("find_last.hit"); else vrt::count("find_last.miss");
            if (pos >= h.size()) vrt::count("pos.at_or_beyond_end");
            if (wl >= 0 && ref::find_last(h, n, SMAX, ci) != wl) vrt::count("find_last.hit_cut_by_limit");
        }
        // overloads without a position
        const long wf0 = ref::find(h, n, 0, ci), wl0 = ref::find_last(h, n, SMAX, ci);
        CHECK("find", "ST::string/nopos", 0, hs->find(*ns, cs), wf0);
        CHECK("find", "ptr+len/nopos", 0, hs->find(nptr.data(), n.size(), cs), wf0);
        CHECK("find", "char8_t-ptr+len/nopos", 0, hs->find(n8p, n.size(), cs), wf0);
        CHECK("find_last", "ST::string/nopos", SMAX, hs->find_last(*ns, cs), wl0);
        CHECK("find_last", "ptr+len/nopos", SMAX, hs->find_last(nptr.data(), n.size(), cs), wl0);
        CHECK("find_last", "char8_t-ptr+len/nopos", SMAX, hs->find_last(n8p, n.size(), cs), wl0);
        CHECK("contains", "ST::string", 0, hs->contains(*ns, cs), wf0 >= 0);
        CHECK("contains", "ptr+len", 0, hs->contains(nptr.data(), n.size(), cs), wf0 >= 0);
        CHECK("contains", "char8_t-ptr+len", 0, hs->contains(n8p, n.size(), cs), wf0 >= 0);
        CHECK("starts_with", "ST::string", 0, hs->starts_with(*ns, cs), ref::starts_with(h, n, ci));
        CHECK("ends_with", "ST::string", 0, hs->ends_with(*ns, cs), ref::ends_with(h, n, ci));
        if (cstr_ok) {
            CHECK("find", "cstr/nopos", 0, hs->find(ncstr.data(), cs), wf0);
            CHECK("find", "char8_t-cstr/nopos", 0, hs->find(n8, cs), wf0);
            CHECK("find_last", "cstr/nopos", SMAX, hs->find_last(ncstr.data(), cs), wl0);
            CHECK("find_last", "char8_t-cstr/nopos", SMAX, hs->find_last(n8, cs), wl0);
            CHECK("contains", "cstr", 0, hs->contains(ncstr.data(), cs), wf0 >= 0);
            CHECK("contains", "char8_t-cstr", 0, hs->contains(n8, cs), wf0 >= 0);
            CHECK("starts_with", "cstr", 0, hs->starts_with(ncstr.data(), cs), ref::starts_with(h, n, ci));
            CHECK("ends_with", "cstr", 0, hs->ends_with(ncstr.data(), cs), ref::ends_with(h, n, ci));
            CHECK("starts_with", "char8_t-cstr", 0, hs->starts_with(n8, cs), ref::starts_with(h, n, ci));
            CHECK("ends_with", "char8_t-cstr", 0, hs->ends_with(n8, cs), ref::ends_with(h, n, ci));
            vrt::count("form.cstr");
        }
        if (char_ok) {
            CHECK("find", "char/nopos", 0, hs->find(n[0], cs), wf0);
            CHECK("find_last", "char/nopos", SMAX, hs->find_last(n[0], cs), wl0);
            CHECK("contains", "char", 0, hs->contains(n[0], cs), wf0 >= 0);
            vrt::count("form.char");
        }
        if (ref::starts_with(h, n, ci)) vrt::count("starts_with.true");
        if (ref::ends_with(h, n, ci)) vrt::count("ends_with.true");
        if (ci && ref::find(h, n, 0, true) != ref::find(h, n, 0, false)) vrt::count("ci.differs_from_cs");
        vrt::distinct(vrt::fnv_u64(ci, vrt::fnv1a(n.data(), n.size(), vrt::fnv1a(h.data(), h.size(), 7))));
    }
    vrt::count("pairs");
    if (n.size() > h.size()) vrt::count("needle.longer_than_haystack");
    if (n == h && !n.empty()) vrt::count("needle.equals_haystack");
    if (n.empty()) vrt::count("needle.empty");
    if (n.find('\0') != S::npos || h.find('\0') != S::npos) vrt::count("with_NUL");
}

static void null_needles(const vrt::Box<ST::string> &hs, const S &h)
{
    static const S empty;
    Ctx ctx{&h, &empty, false};
    const char *np = nullptr;
    const char8_t *np8 = nullptr;
    for (size_t pos : {static_cast<size_t>(0), h.size() / 2, h.size(), SMAX}) {
        CHECK("find", "null-cstr", pos, hs->find(pos, np), -1);
        CHECK("find", "null-ptr+len", pos, hs->find(pos, np, 0), -1);
        CHECK("find", "null-ptr+len3", pos, hs->find(pos, np, 3), -1);
        CHECK("find", "null-char8_t", pos, hs->find(pos, np8), -1);
        CHECK("find_last", "null-cstr", pos, hs->find_last(pos, np), -1);
        CHECK("find_last", "null-ptr+len", pos, hs->find_last(pos, np, 0), -1);
        CHECK("find_last", "null-ptr+len3", pos, hs->find_last(pos, np, 3), -1);
    }
    CHECK("contains", "null-cstr", 0, hs->contains(np), 0);
    // zero-length and null needles through the char8_t (pointer,length) forms, and a non-null pointer with length 0
    static const char8_t some8[] = u8"bcX";
    for (size_t pos : {static_cast<size_t>(0), h.size() / 2, h.size(), SMAX}) {
        CHECK("find", "null-char8_t+len", pos, hs->find(pos, np8, 0), -1);
        CHECK("find_last", "null-char8_t", pos, hs->find_last(pos, np8), -1);
        CHECK("find_last", "null-char8_t+len", pos, hs->find_last(pos, np8, 0), -1);
        CHECK("find", "char8_t+len0", pos, hs->find(pos, some8, 0), -1);
        CHECK("find_last", "char8_t+len0", pos, hs->find_last(pos, some8, 0), -1);
        CHECK("find", "ptr+len0", pos, hs->find(pos, "bcX", 0), -1);
        CHECK("find_last", "ptr+len0", pos, hs->find_last(pos, "bcX", 0), -1);
    }
    CHECK("find_last", "char8_t+len0/nopos", 0, hs->find_last(some8, 0), -1);
    CHECK("contains", "null-char8_t", 0, hs->contains(np8), 0);
    CHECK("contains", "char8_t+len0", 0, hs->contains(some8, 0), 0);
    vrt::count("null_needle.calls", 10);
}

// the needle is a range of the haystack's own buffer (s.find(s.c_str() + k, n)): the answer is that of a copy of those bytes
static void own_buffer_needles(const vrt::Box<ST::string> &hs, const S &h, Rng &r)
{
    for (int rep = 0; rep < 4 && !h.empty(); ++rep) {
        const size_t k = r.below(h.size()), len = 1 + r.below(std::min<size_t>(4, h.size() - k));
        const S n = h.substr(k, len);
        const char *own = hs->c_str() + k;
        const char8_t *own8 = hs->u8_str() + k;
        for (int cim = 0; cim < 2; ++cim) {
            const bool ci = cim != 0;
            ST::case_sensitivity_t cs = ci ? ST::case_insensitive : ST::case_sensitive;
            Ctx ctx{&h, &n, ci};
            for (size_t pos : {static_cast<size_t>(0), static_cast<size_t>(1), k, k + 1, h.size(), SMAX}) {
                CHECK("find", "own-buffer ptr+len", pos, hs->find(pos, own, len, cs), ref::find(h, n, pos, ci));
                CHECK("find", "own-buffer char8_t+len", pos, hs->find(pos, own8, len, cs), ref::find(h, n, pos, ci));
                CHECK("find_last", "own-buffer ptr+len", pos, hs->find_last(pos, own, len, cs), ref::find_last(h, n, pos, ci));
            }
            CHECK("contains", "own-buffer ptr+len", 0, hs->contains(own, len, cs), ref::find(h, n, 0, ci) >= 0);
            if (h.find('\0', k) == S::npos) {       // the tail as a C string
                const S tail = h.substr(k);
                Ctx c2{&h, &tail, ci};
                const Ctx &ctx = c2;
                CHECK("find", "own-buffer cstr", 0, hs->find(own, cs), ref::find(h, tail, 0, ci));
                CHECK("find_last", "own-buffer cstr", SMAX, hs->find_last(own, cs), ref::find_last(h, tail, SMAX, ci));
                CHECK("ends_with", "own-buffer cstr", 0, hs->ends_with(own, cs), true);
                CHECK("starts_with", "own-buffer cstr", 0, hs->starts_with(own, cs), ref::find(h, tail, 0, ci) == 0);
            }
        }
        vrt::count("own_buffer_needles");
    }
}

static void body()
{
    ambient::enable(3);
    vrt::box_shifts() = true;
    vrt::require("pairs", 1000);
    vrt::require("find.hit", 1000);
    vrt::require("find.miss", 1000);
    vrt::require("find_last.hit", 1000);
    vrt::require("find_last.hit_cut_by_limit", 100);
    vrt::require("pos.at_or_beyond_end", 1000);
    vrt::require("needle.equals_haystack", 10);
    vrt::require("needle.longer_than_haystack", 10);
    vrt::require("ci.differs_from_cs", 100);
    vrt::require("with_NUL", 100);
    vrt::require("form.char", 100);
    vrt::require("form.cstr", 100);
    vrt::require("null_needle.calls", 10);

    S alpha = "abA";
    alpha.push_back('\0');
    alpha.push_back('\x80');
    const size_t hmax = vrt::thorough() ? 7 : 5, nmax = 3;
    const uint64_t nh = gen::count_strings(alpha.size(), hmax), nn = gen::count_strings(alpha.size(), nmax);
    vrt::note(sfmt("exhaustive sweep: all haystacks of length <= %zu x needles of length <= %zu over {a,b,A,NUL,0x80} x every start/limit in 0..len+2 and SIZE_MAX x both case modes x every needle form", hmax, nmax));

    vrt::phase("exhaustive", nh, [&](uint64_t i, Rng &) {
        S h, n;
        gen::nth_string(i, alpha, hmax, h);
        vrt::Box<ST::string> hs(vrt::mk(h));
        std::vector<size_t> positions;
        for (size_t p = 0; p <= h.size() + 2; ++p) positions.push_back(p);
        positions.push_back(SMAX);
        positions.push_back(SMAX - 1);
        for (uint64_t j = 0; j < nn; ++j) {
            gen::nth_string(j, alpha, nmax, n);
            pair_case(hs, h, n, positions);
        }
        null_needles(hs, h);
        if (vrt::str_of(*hs) != h) vrt::violation("C07:haystack-changed", show(h));
        if (vrt::want_sample("exhaustive") && h.size() == hmax)
            vrt::sample("exhaustive", sfmt("haystack=%s x all %llu needles x positions 0..%zu,SIZE_MAX-1,SIZE_MAX x {cs,ci}", show(h).c_str(), static_cast<unsigned long long>(nn), h.size() + 2));
    });

    // longer random cases: self-overlapping needles, needle straddling the end,
    // needle == haystack, matches cut by the limit, size classes around the SSO limit
    vrt::phase("random", vrt::tier_count(150000, 5000000), [&](uint64_t, Rng &r) {
        S al;
        switch (r.below(5)) {
        case 4: al = "@`[{^~_\x7f,\x0c; \t)kK"; break;   // non-letters next to their bit-5 twins
        case 0: al = "ab"; break;
        case 1: al = "aAbB"; break;
        case 2: al = "abc\xc3\xa9z"; break;
        default: al = "aA"; al.push_back('\0'); al += "\xff@[`{Zz"; break;
        }
        S h = gen::bytes_over(r, gen::pick_len(r) % 70, al);
        S n;
        switch (r.below(8)) {
        case 0: n = h; break;
        case 1: n = h.empty() ? S("a") : h.substr(r.below(h.size())) + gen::bytes_over(r, 1 + r.below(2), al); break;   // straddles the end
        case 2: case 3: case 4:
            if (!h.empty()) {
                size_t b = r.below(h.size());
                n = h.substr(b, 1 + r.below(std::min<size_t>(6, h.size() - b)));
                if (r.chance(1, 2)) n = r.chance(1, 2) ? ref::uppered(n) : ref::folded(n);
                break;
            }
            /* fall through */
        case 5: { S u = gen::bytes_over(r, 1 + r.below(2), al); n = u + u + u.substr(0, r.below(u.size() + 1)); break; }  // self-overlapping
        default: n = gen::bytes_over(r, r.below(5), al); break;
        }
        vrt::Box<ST::string> hs(vrt::mk(h));
        std::vector<size_t> positions = {0, h.size(), h.size() + 1, SMAX};
        for (int k = 0; k < 4; ++k) positions.push_back(r.below(h.size() + 3));
        long f = ref::find(h, n, 0, false);
        if (f >= 0) {                      // positions right around the first and last hit
            positions.push_back(static_cast<size_t>(f));
            positions.push_back(static_cast<size_t>(f) + 1);
            positions.push_back(static_cast<size_t>(f) + n.size());
            positions.push_back(static_cast<size_t>(f) + n.size() - 1);
            long l = ref::find_last(h, n, SMAX, false);
            positions.push_back(static_cast<size_t>(l) + n.size());
            positions.push_back(static_cast<size_t>(l) + n.size() - 1);
        }
        pair_case(hs, h, n, positions);
        own_buffer_needles(hs, h, r);
        if (vrt::want_sample("random") && f > 0 && n.size() > 2)
            vrt::sample("random", sfmt("haystack=%s needle=%s first=%ld last=%ld", show(h).c_str(), show(n).c_str(), f, ref::find_last(h, n, SMAX, false)));
    });
    // long needles with planted near-misses: a candidate that agrees with the needle (modulo case) everywhere except at one
    // position - the first byte, around a power-of-two offset, the last byte - followed or not by a real occurrence
    {
        static const size_t lens[] = {7, 8, 9, 15, 16, 17, 31, 32, 33, 63, 64, 65, 127, 128, 129, 255, 256, 257, 300, 511, 512, 513, 1000, 1025, 4100};
        const size_t nl = sizeof(lens) / sizeof(lens[0]);
        vrt::require("long_needles.cases", 100);
        vrt::phase("long_needles", nl * 3, [&](uint64_t i, Rng &r) {
            const size_t len = lens[i % nl];
            const unsigned layout = static_cast<unsigned>(i / nl);          // 0: near-miss only, 1: near-miss then hit, 2: hit then near-miss
            S n;
            for (size_t k = 0; k < len; ++k) n += static_cast<char>("abcXYZ-_9"[r.below(9)]);
            std::vector<size_t> where = {0, len - 1, len / 2};
            for (size_t p2 = 4; p2 < len; p2 *= 2) { where.push_back(p2 - 1); where.push_back(p2); }
            for (size_t at : where) {
                S miss = r.chance(1, 2) ? ref::uppered(n) : n;
                miss[at] = miss[at] == '#' ? '$' : '#';
                const S hit = r.chance(1, 2) ? ref::folded(n) : n;
                S h = "ab";
                h += layout == 2 ? hit + "--" + miss : layout == 1 ? miss + "--" + hit : miss;
                h += "yz";
                vrt::Box<ST::string> hs(vrt::mk(h));
                pair_case(hs, h, n, {0, 1, 2, 3, h.size(), len + 2, len + 4, h.size() - 2, SMAX});
                vrt::count("long_needles.cases");
            }
        });
    }
    // scale: haystacks of several KiB up to ~1 MiB whose length is on / next to a multiple of a block size, a background that
    // cannot match, and 0..3 occurrences planted so that they straddle or touch multiples of a block size measured from the
    // beginning, from the end, and from the start position / limit that the call is given
    {
        vrt::require("scale.cases", 40);
        vrt::require("scale.occurrence_straddles_block_boundary", 20);
        vrt::require("scale.haystack>=64KiB", 10);
        // the case index walks a grid: block size B x multiple q x the point distances are measured from
        // (beginning / end / forwards from the start position / backwards from the limit); the primary occurrence is
        // planted so that 0..|needle| of its bytes lie before the point at distance q*B; further occurrences only where
        // they cannot mask it (behind it for forward searches, in front of it for backward ones)
        const std::vector<size_t> &BL = scale::blocks();
        vrt::phase("scale", vrt::tier_count(700, 20000), [&](uint64_t i, Rng &r) {
            const size_t B = BL[i % BL.size()], q = 1 + (i / BL.size()) % 8;
            const unsigned kind = static_cast<unsigned>((i / (BL.size() * 8)) % 4);
            const size_t dist = q * B;
            if (dist > (1u << 20)) { vrt::count("scale.skipped_too_large"); return; }
            static const char *const bgs[] = {"x", "xy", "xyz.", "x\xc3\xa9", "\xff", "\xe9\xc9", "@[`{"};
            static const char *const nalpha[] = {"ab", "aAbB", "aA", "ab\x80", "Kk\xcb\xeb"};
            S n;
            const size_t nlen = r.chance(1, 6) ? 1 : r.chance(1, 4) ? 9 + r.below(300) : 2 + r.below(7);
            {
                S al = nalpha[r.below(sizeof(nalpha) / sizeof(nalpha[0]))];
                if (r.chance(1, 4)) al.push_back('\0');
                n = gen::bytes_over(r, nlen, al);
            }
            // total length: the distance plus a margin that is itself sometimes large (so that "more than 128 KiB in all" happens)
            const size_t margin = r.chance(1, 3) ? r.below(40) : r.chance(1, 2) ? 1000 + r.below(70000) : 131072 + r.below(70000);
            const size_t len = dist + nlen + margin;
            S h = scale::byte_background(r, len, bgs[r.below(sizeof(bgs) / sizeof(bgs[0]))]);
            // anchor = the start position / limit handed to the call
            size_t anchor, point;
            switch (kind) {
            case 0: anchor = 0; point = dist; break;                                    // from the beginning
            case 1: anchor = len; point = len - dist; break;                            // from the end
            case 2: anchor = r.below(margin + 1); point = anchor + dist; break;         // forwards from a start position
            default: anchor = len - r.below(margin + 1); point = anchor - dist; break;  // backwards from a limit
            }
            const bool forward = kind == 0 || kind == 2;
            const size_t back = r.below(n.size() + 1);
            size_t at = point + static_cast<size_t>(r.chance(1, 4) ? scale::nudge(r) + 9 : 9) - 9;
            at = at >= back ? at - back : 0;
            S occ = n;
            if (r.chance(1, 2)) occ = r.chance(1, 2) ? ref::uppered(n) : ref::folded(n);
            at = scale::plant(h, at, occ);
            std::vector<size_t> positions = {0, anchor, len, SMAX, at, at + n.size(), at + n.size() - 1};
            const unsigned extra = static_cast<unsigned>(r.below(3));
            for (unsigned k = 0; k < extra; ++k) {
                // keep the stretch between the anchor and the primary occurrence free of matches
                size_t lo, hi;
                if (forward) { lo = at + n.size(); hi = len; } else { lo = 0; hi = at; }
                if (hi < lo + n.size()) continue;
                const size_t e = scale::plant(h, lo + r.below(hi - lo - n.size() + 1), r.chance(1, 2) ? ref::uppered(n) : n);
                positions.push_back(e + (forward ? 0 : n.size()));
            }
            vrt::Box<ST::string> hs(vrt::mk(h));
            pair_case(hs, h, n, positions);
            if (vrt::str_of(*hs) != h) vrt::violation("C07:haystack-changed", scale::brief(h));
            vrt::count("scale.cases");
            vrt::count(sfmt("scale.measured_from.%s", kind == 0 ? "beginning" : kind == 1 ? "end" : kind == 2 ? "start_position" : "limit"));
            if (back > 0 && back < n.size()) vrt::count("scale.occurrence_straddles_block_boundary");
            if (len >= 65536) vrt::count("scale.haystack>=64KiB");
            if (len >= 262144) vrt::count("scale.haystack>=256KiB");
            if (vrt::want_sample("scale"))
                vrt::sample("scale", sfmt("haystack %s needle=%s block=%zu x %zu measured %s, occurrence at %zu, anchor=%zu", scale::brief(h, at).c_str(), show(n).c_str(), B, q,
                                          kind == 0 ? "from the beginning" : kind == 1 ? "from the end" : kind == 2 ? "forwards from the start position" : "backwards from the limit", at, anchor));
        });
    }
    // soak: more than 2^17 consecutive searches inside ONE case (one process, one thread) on haystacks and needles above the
    // sizes where an implementation might switch algorithm (needles of 4..40 bytes, haystacks of 80..400), so that state kept
    // between calls - a skip table with a generation counter, a call counter that enables a fast path, a memo of the last
    // needle - goes through its whole cycle.  Most needles use a small core alphabet; a few long ones carry a "rare" byte that
    // then stays out of all needles for a long time while haystacks keep containing it right in front of occurrences.
    {
        vrt::require("soak.searches", 1000000);
        vrt::require("soak.needles_with_a_rare_byte", 20);
        vrt::phase("soak", 16, [&](uint64_t, Rng &r) {
            const size_t iters = static_cast<size_t>(vrt::tier_count(400000, 4000000));
            static const char core[] = "abcdefgh";
            uint64_t searches = 0;
            S h, n;
            for (size_t it = 0; it < iters; ++it) {
                const bool rare_needle = r.chance(1, 700);
                const size_t nlen = rare_needle ? 24 + r.below(17) : 4 + r.below(9);
                n.clear();
                for (size_t k = 0; k < nlen; ++k) n += core[r.below(8)];
                if (rare_needle) { n[r.below(nlen - 1)] = static_cast<char>(0xA0 + r.below(80)); vrt::count("soak.needles_with_a_rare_byte"); }
                // haystack: filler rich in rare bytes, [occurrence], filler; sometimes a near-miss, sometimes nothing
                const size_t hlen = nlen + 64 + r.below(300);
                h.clear();
                const unsigned shape = static_cast<unsigned>(r.below(8));
                const size_t at = r.below(hlen - nlen + 1);
                for (size_t k = 0; k < hlen; ++k)
                    h += r.chance(1, 3) ? static_cast<char>(0xA0 + r.below(80)) : core[r.below(8)];
                if (shape != 0) h.replace(at, nlen, n);
                if (shape == 1) h[at + r.below(nlen)] = '#';                       // near-miss only
                if (shape == 2 && at > nlen + 2) h.replace(r.below(at - nlen), nlen, n);   // an earlier occurrence as well
                const bool ci = r.chance(1, 5);
                if (ci && r.chance(1, 2)) n = ref::uppered(n);
                const ST::case_sensitivity_t cs = ci ? ST::case_insensitive : ST::case_sensitive;
                vrt::cur_rewind();
                vrt::Box<ST::string> hs(vrt::mk(h));
                Ctx ctx{&h, &n, ci};
                const size_t start = r.chance(1, 3) ? r.below(hlen) : 0, limit = r.chance(1, 3) ? r.below(hlen + 1) : SMAX;
                const long wf = ref::find(h, n, start, ci), wl = ref::find_last(h, n, limit, ci);
                switch (it % 3) {
                case 0: { vrt::Box<ST::string> ns(vrt::mk(n)); CHECK("find", "soak ST::string", start, hs->find(start, *ns, cs), wf);
                          CHECK("find_last", "soak ST::string", limit, hs->find_last(limit, *ns, cs), wl); break; }
                case 1: { vrt::Exact<char> np(n.data(), n.size(), false); CHECK("find", "soak ptr+len", start, hs->find(start, np.data(), n.size(), cs), wf);
                          CHECK("contains", "soak ptr+len", 0, hs->contains(np.data(), n.size(), cs), ref::find(h, n, 0, ci) >= 0); break; }
                default: { vrt::Exact<char> nc(n.data(), n.size(), true); CHECK("find", "soak cstr", start, hs->find(start, nc.data(), cs), wf);
                           CHECK("find_last", "soak cstr", limit, hs->find_last(limit, nc.data(), cs), wl);
                           CHECK("ends_with", "soak cstr", 0, hs->ends_with(nc.data(), cs), ref::ends_with(h, n, ci)); break; }
                }
                searches += 2;
            }
            vrt::count("soak.searches", searches);
            vrt::distinct(vrt::fnv_u64(r.next(), 99));
            if (vrt::want_sample("soak"))
                vrt::sample("soak", sfmt("%zu consecutive (haystack, needle) pairs in one process; last: haystack %s needle=%s", iters, scale::brief(h).c_str(), show(n).c_str()));
        });
    }
    vrt::alloc::check_pairing("search");
}

VRT_MAIN(body)
