// C06 - compare is a total order; operators, overloads and hashes agree.
#include "vrt.h"
#include <memory>
#include "vrt_alloc.h"
#include "vrt_st.h"
#include "ref_text.h"
#include "gen_text.h"
#include "gen_scale.h"
#include "ambient.h"
#include <array>
#include <optional>

using vrt::Rng;
using vrt::sfmt;
typedef std::string S;
static const size_t SMAX = static_cast<size_t>(-1);

static std::string show(const S &s) { return vrt::hex(s.data(), s.size()); }
static int sgn(long v) { return v < 0 ? -1 : v > 0 ? 1 : 0; }
static S cut_at_nul(const S &s) { size_t z = s.find('\0'); return z == S::npos ? s : s.substr(0, z); }

// set by the scale phases: where in the (big) operands the interesting offset is; appended to every violation detail
static std::string &ctx() { static std::string c; return c; }
struct CtxGuard { ~CtxGuard() { ctx().clear(); } };

static void bad(const char *what, const S &a, const S &b, const std::string &extra)
{
    vrt::violation(sfmt("C06:%s", what), sfmt("a=%s b=%s %s%s", show(a).c_str(), show(b).c_str(), extra.c_str(), ctx().c_str()));
}

#define EXPECT_EQ(what, got, want, extra)                                                          \
    do {                                                                                            \
        long g__ = static_cast<long>(got), w__ = static_cast<long>(want);                           \
        vrt::evals();                                                                               \
        if (g__ != w__) bad(what, a, b, sfmt("got=%ld want=%ld %s", g__, w__, std::string(extra).c_str())); \
    } while (0)

// unsigned lexicographic order / equality modulo ASCII case of the prefixes a[0,na) and b[0,nb) (proper prefix first)
static int prefix_compare(const S &a, size_t na, const S &b, size_t nb)
{
    const size_t n = std::min(na, nb);
    for (size_t i = 0; i < n; ++i) {
        const unsigned char x = static_cast<unsigned char>(a[i]), y = static_cast<unsigned char>(b[i]);
        if (x != y) return x < y ? -1 : 1;
    }
    return na < nb ? -1 : na > nb ? 1 : 0;
}
static bool prefix_fold_equal(const S &a, size_t na, const S &b, size_t nb)
{
    if (na != nb) return false;
    for (size_t i = 0; i < na; ++i)
        if (ref::fold(static_cast<unsigned char>(a[i])) != ref::fold(static_cast<unsigned char>(b[i]))) return false;
    return true;
}

// ---------------------------------------------------------------- operands in caller-side storage
// A block of the caller's own memory whose data starts `lead` bytes (0..15, whole elements) behind a 16-byte boundary and ends
// exactly where the block ends (optionally after one NUL unit), so that the library sees a pointer of every alignment and a
// read past the end lands in the ASan red zone.  The block can be rewritten in place: same address, same size, new content.
// The slack in front is filled with the data's own elements (an under-read changes a result) or poisoned when it is 8 bytes.
template <typename T>
struct Placed {
    char *base;
    T *p;
    size_t n, lead;
    bool nul;
    Placed(size_t count, bool with_nul, size_t lead_bytes) : base(nullptr), p(nullptr), n(count), lead(lead_bytes - lead_bytes % sizeof(T)), nul(with_nul)
    {
        const size_t bytes = lead + (n + (nul ? 1 : 0)) * sizeof(T);
        void *m = nullptr;
        if (posix_memalign(&m, 16, bytes ? bytes : 1) != 0 || !m) { fprintf(stderr, "vrt: out of memory\n"); _exit(98); }
        base = static_cast<char *>(m);
        p = reinterpret_cast<T *>(base + lead);
    }
    Placed(const std::basic_string<T> &s, bool with_nul, size_t lead_bytes) : Placed(s.size(), with_nul, lead_bytes) { put(s.data()); }
    Placed(const Placed &) = delete;
    Placed &operator=(const Placed &) = delete;
    void guard(bool on)
    {
#ifdef VRT_HAVE_ASAN
        if (lead && lead % 8 == 0) { if (on) vrt::__asan_poison_memory_region(base, lead); else vrt::__asan_unpoison_memory_region(base, lead); }
#else
        (void)on;
#endif
    }
    void put(const T *src)
    {
        guard(false);
        if (n) memcpy(p, src, n * sizeof(T));
        if (nul) p[n] = T();
        T *front = reinterpret_cast<T *>(base);
        for (size_t i = 0; i < lead / sizeof(T); ++i) front[i] = n ? src[n - 1 - i % n] : static_cast<T>(0x80);
        guard(true);
    }
    ~Placed() { guard(false); free(base); }
    unsigned mod16() const { return static_cast<unsigned>(reinterpret_cast<uintptr_t>(p) & 15); }
};

// The const char* / const char8_t* overloads with the right operand in CALLER storage at `pb` (the text `b`, no NUL inside, one
// NUL behind it): against the reference, and - with `sb`, an ST::string that holds the same bytes - against the ST::string
// overload.  (operator< exists for ST::string operands only; a C string would go through the validating converting constructor.)
static void pointer_operand(const ST::string &sa, const S &a, const ST::string *sb, const S &b, const char *pb, const std::vector<size_t> &limits)
{
    const char8_t *ub = reinterpret_cast<const char8_t *>(pb);
    auto chk = [&](const char *what, long got, long want, size_t n) {
        vrt::evals();
        if (got != want)
            bad(what, a, b, sfmt("got=%ld want=%ld n=%zu; the right operand is a C string in caller storage at an address = %u modulo 16", got, want, n,
                                 static_cast<unsigned>(reinterpret_cast<uintptr_t>(pb) & 15)));
    };
    const int want = ref::compare(a, b);
    const int c = sgn(sa.compare(pb));
    chk("compare:cstr:caller-storage", c, want, SMAX);
    chk("compare:char8_t:caller-storage", sgn(sa.compare(ub)), want, SMAX);
    chk("compare:cstr-cs-param:caller-storage", sgn(sa.compare(pb, ST::case_sensitive)), want, SMAX);
    chk("operator==:cstr:caller-storage", sa == pb, want == 0, SMAX);
    chk("operator!=:cstr:caller-storage", sa != pb, want != 0, SMAX);
    chk("operator==:char8_t:caller-storage", sa == ub, want == 0, SMAX);
    chk("operator!=:char8_t:caller-storage", sa != ub, want != 0, SMAX);
    const int ci = sgn(sa.compare_i(pb));
    chk("compare_i:cstr:caller-storage:zero-iff-fold-equal", ci == 0, prefix_fold_equal(a, a.size(), b, b.size()), SMAX);
    chk("compare_i:char8_t:caller-storage", sgn(sa.compare_i(ub)), ci, SMAX);
    chk("compare:cstr-ci-param:caller-storage", sgn(sa.compare(pb, ST::case_insensitive)), ci, SMAX);
    chk("compare:char8_t-ci-param:caller-storage", sgn(sa.compare(ub, ST::case_insensitive)), ci, SMAX);
    if (sb) {
        chk("compare:cstr:caller-storage:string-overload-agrees", sgn(sa.compare(*sb)), c, SMAX);
        chk("compare_i:cstr:caller-storage:string-overload-agrees", sgn(sa.compare_i(*sb)), ci, SMAX);
        chk("compare_i:cstr:caller-storage:antisymmetry-across-overloads", sgn(sb->compare_i(sa)), -ci, SMAX);
        chk("operator==:cstr:caller-storage:string-overload-agrees", sa == *sb, sa == pb, SMAX);
    }
    for (size_t nn : limits) {
        const size_t na = std::min(nn, a.size()), nb = std::min(nn, b.size());
        const int wn = prefix_compare(a, na, b, nb);
        chk("compare_n:cstr:caller-storage", sgn(sa.compare_n(pb, nn)), wn, nn);
        chk("compare_n:char8_t:caller-storage", sgn(sa.compare_n(ub, nn)), wn, nn);
        const int cn = sgn(sa.compare_ni(pb, nn));
        chk("compare_ni:cstr:caller-storage:zero-iff-fold-equal", cn == 0, prefix_fold_equal(a, na, b, nb), nn);
        chk("compare_ni:char8_t:caller-storage", sgn(sa.compare_ni(ub, nn)), cn, nn);
        chk("compare_n:cstr-ci-param:caller-storage", sgn(sa.compare_n(pb, nn, ST::case_insensitive)), cn, nn);
        if (sb) {
            chk("compare_n:cstr:caller-storage:string-overload-agrees", sgn(sa.compare_n(*sb, nn)), sgn(sa.compare_n(pb, nn)), nn);
            chk("compare_ni:cstr:caller-storage:string-overload-agrees", sgn(sa.compare_ni(*sb, nn)), cn, nn);
        }
    }
}

// all agreement checks for one ordered pair of ST::strings; the prefix limits are 0..max(|a|,|b|)+1 and SIZE_MAX, or the
// ones listed in `limits` (the scale phase: limits on and around the first difference, block multiples, the two lengths)
static void string_pair(const ST::string &sa, const S &a, const ST::string &sb, const S &b, bool with_n, const std::vector<size_t> *limits = nullptr)
{
    const int want = ref::compare(a, b);
    const int c = sgn(sa.compare(sb));
    EXPECT_EQ("compare:sign", c, want, "");
    EXPECT_EQ("compare:antisymmetry", sgn(sb.compare(sa)), -c, "");
    EXPECT_EQ("operator==", sa == sb, want == 0, "");
    EXPECT_EQ("operator!=", sa != sb, want != 0, "");
    EXPECT_EQ("operator<", sa < sb, want < 0, "");
    EXPECT_EQ("compare:explicit-cs", sgn(sa.compare(sb, ST::case_sensitive)), want, "");
    // const char* overloads see b up to its first NUL
    const S bc = cut_at_nul(b);
    const int wantc = ref::compare(a, bc);
    EXPECT_EQ("compare:cstr", sgn(sa.compare(sb.c_str())), wantc, "");
    EXPECT_EQ("compare:char8_t", sgn(sa.compare(sb.u8_str())), wantc, "");
    EXPECT_EQ("operator==:cstr", sa == sb.c_str(), wantc == 0, "");
    EXPECT_EQ("operator!=:cstr", sa != sb.c_str(), wantc != 0, "");
    EXPECT_EQ("operator==:char8_t", sa == sb.u8_str(), wantc == 0, "");
    EXPECT_EQ("operator!=:char8_t", sa != sb.u8_str(), wantc != 0, "");
    // ... also when the C string handed in is the object's own c_str(): it still names only the text up to the first NUL
    {
        const S ac = cut_at_nul(a);
        const int wown = ref::compare(a, ac);
        EXPECT_EQ("compare:own-c_str", sgn(sa.compare(sa.c_str())), wown, "");
        EXPECT_EQ("operator==:own-c_str", sa == sa.c_str(), wown == 0, "");
        EXPECT_EQ("operator!=:own-c_str", sa != sa.c_str(), wown != 0, "");
        EXPECT_EQ("compare:own-u8_str", sgn(sa.compare(sa.u8_str())), wown, "");
        EXPECT_EQ("compare_i:own-c_str:zero-iff-fold-equal", sa.compare_i(sa.c_str()) == 0, ac.size() == a.size(), "");
        EXPECT_EQ("compare_n:own-c_str", sgn(sa.compare_n(sa.c_str(), a.size() + 1)), wown, "");
        EXPECT_EQ("compare:self", sa.compare(sa), 0, "");
        // the same object on both sides of every comparison
        EXPECT_EQ("compare_i:self", sa.compare_i(sa), 0, "");
        EXPECT_EQ("operator==:self", sa == sa, true, "");
        EXPECT_EQ("operator!=:self", sa != sa, false, "");
        EXPECT_EQ("operator<:self", sa < sa, false, "");
        EXPECT_EQ("equal_i:self", ST::equal_i()(sa, sa), true, "");
        EXPECT_EQ("less_i:self", ST::less_i()(sa, sa), false, "");
        EXPECT_EQ("compare_n:self", sa.compare_n(sa, a.size() / 2 + 1), 0, "");
        EXPECT_EQ("compare_ni:self", sa.compare_ni(sa, a.size() + 1), 0, "");
    }
    // case-insensitive: zero exactly for fold-equal, antisymmetric, overloads agree
    const S fa = ref::folded(a), fb = ref::folded(b);
    const int ci = sgn(sa.compare_i(sb));
    EXPECT_EQ("compare_i:zero-iff-fold-equal", ci == 0, fa == fb, "");
    EXPECT_EQ("compare_i:antisymmetry", sgn(sb.compare_i(sa)), -ci, "");
    EXPECT_EQ("compare:ci-param", sgn(sa.compare(sb, ST::case_insensitive)), ci, "");
    EXPECT_EQ("less_i", ST::less_i()(sa, sb), ci < 0, "");
    EXPECT_EQ("equal_i", ST::equal_i()(sa, sb), ci == 0, "");
    if (bc.size() == b.size()) {
        EXPECT_EQ("compare_i:cstr", sgn(sa.compare_i(sb.c_str())), ci, "");
        EXPECT_EQ("compare_i:char8_t", sgn(sa.compare_i(sb.u8_str())), ci, "");
        EXPECT_EQ("compare:cstr-ci-param", sgn(sa.compare(sb.c_str(), ST::case_insensitive)), ci, "");
    } else {
        EXPECT_EQ("compare_i:cstr:zero-iff-fold-equal", sa.compare_i(sb.c_str()) == 0, fa == ref::folded(bc), "");
    }
    // deprecated null_t comparisons mean "is empty"
    EXPECT_EQ("operator==(null_t) [deprecated]", sa == ST::null_t(), a.empty(), "");
    EXPECT_EQ("operator!=(null_t) [deprecated]", sa != ST::null_t(), !a.empty(), "");
    EXPECT_EQ("null_t==string [deprecated]", ST::null_t() == sb, b.empty(), "");
    EXPECT_EQ("null_t!=string [deprecated]", ST::null_t() != sb, !b.empty(), "");
    // hashes
    if (want == 0) EXPECT_EQ("hash:equal-strings", ST::hash()(sa) == ST::hash()(sb), 1, "");
    if (fa == fb) EXPECT_EQ("hash_i:fold-equal-strings", ST::hash_i()(sa) == ST::hash_i()(sb), 1, "");
    if (with_n) {
        size_t lim = std::max(a.size(), b.size()) + 1;
        const size_t steps = limits ? limits->size() : lim + 2;
        for (size_t n = 0; n < steps; ++n) {
            size_t nn = limits ? (*limits)[n] : n == lim + 1 ? SMAX : n;
            // the reference works on the prefixes in place (no copies: the operands may be a MiB long)
            const size_t na = std::min(nn, a.size()), nb = std::min(nn, b.size()), nbc = std::min(nn, bc.size());
            const int wn = prefix_compare(a, na, b, nb);
            std::string ex = sfmt("n=%zu", nn);
            EXPECT_EQ("compare_n:sign", sgn(sa.compare_n(sb, nn)), wn, ex);
            EXPECT_EQ("compare_n:antisymmetry", sgn(sb.compare_n(sa, nn)), -wn, ex);
            const int wnc = prefix_compare(a, na, bc, nbc);
            EXPECT_EQ("compare_n:cstr", sgn(sa.compare_n(sb.c_str(), nn)), wnc, ex);
            EXPECT_EQ("compare_n:char8_t", sgn(sa.compare_n(sb.u8_str(), nn)), wnc, ex);
            const int cn = sgn(sa.compare_ni(sb, nn));
            EXPECT_EQ("compare_ni:zero-iff-fold-equal", cn == 0, prefix_fold_equal(a, na, b, nb), ex);
            EXPECT_EQ("compare_ni:antisymmetry", sgn(sb.compare_ni(sa, nn)), -cn, ex);
            EXPECT_EQ("compare_n:ci-param", sgn(sa.compare_n(sb, nn, ST::case_insensitive)), cn, ex);
            if (bc.size() == b.size()) {
                EXPECT_EQ("compare_ni:cstr", sgn(sa.compare_ni(sb.c_str(), nn)), cn, ex);
                EXPECT_EQ("compare_ni:char8_t", sgn(sa.compare_ni(sb.u8_str(), nn)), cn, ex);
                EXPECT_EQ("compare_n:cstr-ci-param", sgn(sa.compare_n(sb.c_str(), nn, ST::case_insensitive)), cn, ex);
            }
        }
    }
    // the C-string overloads once more with the text in the caller's own storage (a block that ends right behind the NUL and
    // starts at a varying alignment) instead of another ST::string's buffer
    {
        vrt::Exact<char> eb(bc.data(), bc.size(), true);
        std::vector<size_t> all;
        if (with_n && !limits) {
            for (size_t n = 0; n <= std::max(a.size(), b.size()) + 1; ++n) all.push_back(n);
            all.push_back(SMAX);
        }
        pointer_operand(sa, a, bc.size() == b.size() ? &sb : nullptr, bc, eb.data(), with_n && limits ? *limits : all);
    }
}

static void case_map(const ST::string &sa, const S &a)
{
    const S &b = a;
    ST::string up = sa.to_upper(), lo = sa.to_lower();
    EXPECT_EQ("to_upper", vrt::str_of(up) == ref::uppered(a), 1, "got=" + vrt::hex(up.c_str(), up.size()) + " first difference from the expected text: " + scale::brief(vrt::str_of(up), scale::first_diff(vrt::str_of(up), ref::uppered(a))));
    EXPECT_EQ("to_lower", vrt::str_of(lo) == ref::folded(a), 1, "got=" + vrt::hex(lo.c_str(), lo.size()) + " first difference from the expected text: " + scale::brief(vrt::str_of(lo), scale::first_diff(vrt::str_of(lo), ref::folded(a))));
    EXPECT_EQ("to_upper:terminator", up.c_str()[up.size()], 0, "");
    EXPECT_EQ("to_lower:terminator", lo.c_str()[lo.size()], 0, "");
    EXPECT_EQ("hash_i:of-upper", ST::hash_i()(up) == ST::hash_i()(sa), 1, "");
    EXPECT_EQ("hash_i:of-lower", ST::hash_i()(lo) == ST::hash_i()(sa), 1, "");
    EXPECT_EQ("compare_i:with-upper", sa.compare_i(up), 0, "");
    // hash depends on the contents only: same bytes reached by another route
    ST::string viaconcat = ST::string::from_validated(a.data(), a.size() / 2) + ST::string::from_validated(a.data() + a.size() / 2, a.size() - a.size() / 2);
    EXPECT_EQ("hash:content-only", ST::hash()(viaconcat) == ST::hash()(sa), 1, "");
    EXPECT_EQ("std::hash", std::hash<ST::string>()(sa) == std::hash<ST::string>()(viaconcat), 1, "");
}

// ---------------------------------------------------------------- buffers
// order of the prefixes a[0,na) and b[0,nb): units by std::char_traits<T>::lt, proper prefix first
template <typename T>
static int ref_cmp(const std::basic_string<T> &a, size_t na, const std::basic_string<T> &b, size_t nb)
{
    size_t n = std::min(na, nb);
    for (size_t i = 0; i < n; ++i) {
        if (std::char_traits<T>::lt(a[i], b[i])) return -1;
        if (std::char_traits<T>::lt(b[i], a[i])) return 1;
    }
    return na < nb ? -1 : na > nb ? 1 : 0;
}
template <typename T>
static int ref_cmp(const std::basic_string<T> &a, const std::basic_string<T> &b) { return ref_cmp(a, a.size(), b, b.size()); }
template <typename T>
static std::basic_string<T> cut0(const std::basic_string<T> &s)
{
    size_t z = s.find(T());
    return z == std::basic_string<T>::npos ? s : s.substr(0, z);
}

// an object that holds value v, reached through history `kind` (0..15)
template <typename T>
static ST::buffer<T> *with_history(const std::basic_string<T> &v, unsigned kind)
{
    typedef ST::buffer<T> B;
    static const std::basic_string<T> shortres(5, T('z')), longres(40, T('y'));
    B *o = new B((kind & 1) ? shortres.data() : longres.data(), (kind & 1) ? shortres.size() : longres.size());
    switch ((kind >> 1) & 3) {
    case 0: *o = B(v.data(), v.size()); break;                                   // move assignment over the residue
    case 1: { B src(v.data(), v.size()); *o = src; break; }                      // copy assignment over the residue
    case 2: o->allocate(v.size()); if (!v.empty()) memcpy(o->data(), v.data(), v.size() * sizeof(T)); break;
    default:
        if (v.empty()) { if (kind & 8) o->clear(); else { B taken(std::move(*o)); (void)taken; } }   // cleared / moved-from: the empty value
        else if (kind & 8) { B mid(v.data(), v.size()); B taken(std::move(*o)); *o = std::move(mid); }   // moved-from, then move-assigned
        else { B taken(std::move(*o)); o->allocate(v.size(), v[0]); memcpy(o->data(), v.data(), v.size() * sizeof(T)); }
        break;
    }
    return o;
}

template <typename T>
static void equal_values_with_history(const char *tn)
{
    typedef ST::buffer<T> B;
    typedef std::basic_string<T> BS;
    const size_t limit = (sizeof(B) - 16) / sizeof(T);
    for (size_t len : {size_t(0), size_t(1), size_t(2), limit - 1, limit, limit + 1, size_t(40)}) {
        BS v;
        for (size_t k = 0; k < len; ++k) v += static_cast<T>('a' + k % 26);
        vrt::Box<B> fresh(v.data(), v.size());
        for (unsigned ka = 0; ka < 16; ++ka)
            for (unsigned kb = 0; kb < 16; ++kb) {
                std::unique_ptr<B> x(with_history<T>(v, ka)), y(with_history<T>(v, kb));
                auto bad = [&](const char *what) {
                    vrt::violation(sfmt("C06:buffer<%s>:history:%s", tn, what), sfmt("two objects holding the same %zu-unit value, histories %u and %u", len, ka, kb));
                };
                vrt::evals(8);
                if (x->compare(*y) != 0 || y->compare(*x) != 0) bad("compare-of-equal-values");
                if (!(*x == *y) || !(*y == *x)) bad("operator==-of-equal-values");
                if (*x != *y) bad("operator!=-of-equal-values");
                if (*x < *y || *y < *x) bad("operator<-of-equal-values");
                if (!(*x == *fresh) || *fresh != *y || fresh->compare(*x) != 0) bad("against-a-fresh-object");
                if (x->compare_n(*y, len + 1) != 0) bad("compare_n-of-equal-values");
                vrt::count("buffer.equal_values_with_history");
            }
    }
}

// all checks for one ordered pair of buffer objects ba, bb that hold the values a, b
template <typename T>
static void buffer_objs(const char *tn, const ST::buffer<T> *ba, const std::basic_string<T> &a, const ST::buffer<T> *bb, const std::basic_string<T> &b,
                        const std::vector<size_t> *limits, bool histories)
{
    typedef ST::buffer<T> B;
    typedef std::basic_string<T> BS;
    auto fail = [&](const char *what, long got, long want, const std::string &ex) {
        vrt::violation(sfmt("C06:buffer<%s>:%s", tn, what),
                       sfmt("a=%s b=%s got=%ld want=%ld %s", vrt::hex(a.data(), a.size(), sizeof(T)).c_str(),
                            vrt::hex(b.data(), b.size(), sizeof(T)).c_str(), got, want, (ex + ctx()).c_str()));
    };
#define BEQ(what, got, want, ex) do { long g__ = static_cast<long>(got), w__ = static_cast<long>(want); vrt::evals(); if (g__ != w__) fail(what, g__, w__, ex); } while (0)
    const int want = ref_cmp(a, b);
    BEQ("compare:sign", sgn(ba->compare(*bb)), want, "");
    BEQ("compare:antisymmetry", sgn(bb->compare(*ba)), -want, "");
    BEQ("compare:static", sgn(B::compare(a.data(), a.size(), b.data(), b.size())), want, "");
    BEQ("operator==", *ba == *bb, want == 0, "");
    BEQ("operator!=", *ba != *bb, want != 0, "");
    BEQ("operator<", *ba < *bb, want < 0, "");
    BEQ("compare:self", ba->compare(*ba), 0, "");
    BEQ("operator==:self", *ba == *ba, true, "");
    BEQ("operator!=:self", *ba != *ba, false, "");
    BEQ("operator<:self", *ba < *ba, false, "");
    BEQ("operator==(null_t) [deprecated]", *ba == ST::null_t(), a.empty(), "");
    BEQ("operator!=(null_t) [deprecated]", *ba != ST::null_t(), !a.empty(), "");
    BEQ("null_t==buffer [deprecated]", ST::null_t() == *bb, b.empty(), "");
    BEQ("null_t!=buffer [deprecated]", ST::null_t() != *bb, !b.empty(), "");
    const BS bc = cut0(b);
    BEQ("compare:cstr", sgn(ba->compare(bb->c_str())), ref_cmp(a, bc), "");
    // the (pointer, length) and C-string operands once more from the caller's own storage: blocks that end where the data ends
    // and start at a varying alignment
    vrt::Exact<T> ea(a.data(), a.size()), eb(b.data(), b.size()), ec(bc.data(), bc.size(), true);
    const std::string where = sfmt("operands in caller storage at addresses = %u, %u, %u modulo 16 ", static_cast<unsigned>(reinterpret_cast<uintptr_t>(ea.data()) & 15),
                                   static_cast<unsigned>(reinterpret_cast<uintptr_t>(eb.data()) & 15), static_cast<unsigned>(reinterpret_cast<uintptr_t>(ec.data()) & 15));
    BEQ("compare:static:caller-storage", sgn(B::compare(ea.data(), a.size(), eb.data(), b.size())), want, where);
    BEQ("compare:static:caller-storage:antisymmetry", sgn(B::compare(eb.data(), b.size(), ea.data(), a.size())), -want, where);
    BEQ("compare:cstr:caller-storage", sgn(ba->compare(ec.data())), ref_cmp(a, bc), where);
    size_t lim = std::max(a.size(), b.size()) + 1;
    const size_t steps = limits ? limits->size() : lim + 2;
    for (size_t n = 0; n < steps; ++n) {
        size_t nn = limits ? (*limits)[n] : n == lim + 1 ? SMAX : n;
        const size_t na = std::min(nn, a.size()), nb = std::min(nn, b.size()), nbc = std::min(nn, bc.size());
        const int wn = ref_cmp(a, na, b, nb);
        std::string ex = sfmt("n=%zu", nn);
        BEQ("compare_n:sign", sgn(ba->compare_n(*bb, nn)), wn, ex);
        BEQ("compare_n:static", sgn(B::compare(a.data(), a.size(), b.data(), b.size(), nn)), wn, ex);
        BEQ("compare_n:cstr", sgn(ba->compare_n(bb->c_str(), nn)), ref_cmp(a, na, bc, nbc), ex);
        BEQ("compare_n:static:caller-storage", sgn(B::compare(ea.data(), a.size(), eb.data(), b.size(), nn)), wn, where + ex);
        BEQ("compare_n:cstr:caller-storage", sgn(ba->compare_n(ec.data(), nn)), ref_cmp(a, na, bc, nbc), where + ex);
    }
    // The same two values held by objects with a history (a value assigned over another one, a cleared or re-allocated
    // object, the moved-from source of a move): order and equality are functions of the value alone.
    if (histories) {
        const uint64_t h = vrt::fnv1a(b.data(), b.size() * sizeof(T), vrt::fnv1a(a.data(), a.size() * sizeof(T), 0x41));
        std::unique_ptr<B> ha(with_history<T>(a, static_cast<unsigned>(h % 16))), hb(with_history<T>(b, static_cast<unsigned>((h / 16) % 16)));
        std::string ex = sfmt("objects with a history (kinds %u, %u)", static_cast<unsigned>(h % 16), static_cast<unsigned>((h / 16) % 16));
        BEQ("history:compare", sgn(ha->compare(*hb)), want, ex);
        BEQ("history:operator==", *ha == *hb, want == 0, ex);
        BEQ("history:operator!=", *ha != *hb, want != 0, ex);
        BEQ("history:operator<", *ha < *hb, want < 0, ex);
        BEQ("history:operator==(fresh)", *ha == *bb, want == 0, ex);
        BEQ("history:operator!=(fresh)", *ba != *hb, want != 0, ex);
        BEQ("history:compare(fresh)", sgn(ba->compare(*hb)), want, ex);
        BEQ("history:compare_n", sgn(ha->compare_n(*hb, lim)), want, ex);
        vrt::count("buffer.pairs_with_history");
    }
    vrt::count(std::string("buffer.pairs.") + tn);
#undef BEQ
}

template <typename T>
static void buffer_pair(const char *tn, const std::basic_string<T> &a, const std::basic_string<T> &b, const std::vector<size_t> *limits = nullptr)
{
    typedef ST::buffer<T> B;
    vrt::Box<B> ba(a.data(), a.size()), bb(b.data(), b.size());
    buffer_objs<T>(tn, ba.p, a, bb.p, b, limits, true);
}

// huge lengths through the static pointer+length compare: only min(lsize,rsize)
// units are touched, so no memory of that size is needed
template <typename T>
static void huge_lengths(const char *tn)
{
    typedef ST::buffer<T> B;
    static const uint64_t diffs[] = {0x7FFFFFFFull, 0x80000000ull, 0x80000001ull, 0xFFFFFFFFull, 0x100000000ull, 0x100000001ull,
                                     0x180000000ull, 0x200000000ull, 0x7FFFFFFFFFFFFFFFull, 0x8000000000000000ull, 0xFFFFFFFF00000000ull};
    const T text[4] = {T('a'), T('b'), T(0), T(0x7f)};
    for (size_t k = 0; k <= 4; ++k) {
        vrt::Exact<T> l(text, k), r(text, k);
        for (uint64_t d : diffs) {
            size_t big = k + static_cast<size_t>(d);
            if (big < k) continue;
            auto chk = [&](const char *what, int got, int want, size_t n) {
                vrt::evals();
                vrt::count("huge.calls");
                if (got != want)
                    vrt::violation(sfmt("C06:buffer<%s>:huge-length:%s", tn, what),
                                   sfmt("common prefix %zu units, lengths %zu vs %zu (difference 0x%llx) n=%zu got=%d want=%d", k, k, big,
                                        static_cast<unsigned long long>(d), n, got, want));
            };
            chk("shorter-first", sgn(B::compare(l.data(), k, r.data(), big)), -1, SMAX);
            chk("longer-first", sgn(B::compare(l.data(), big, r.data(), k)), 1, SMAX);
            // prefix limits: n <= k compares equal prefixes; n > k still orders by length
            for (size_t n : {static_cast<size_t>(0), k, k + 1, static_cast<size_t>(d), big, SMAX}) {
                size_t ln = std::min(k, n), rn = std::min(big, n);
                int want = ln < rn ? -1 : ln > rn ? 1 : 0;
                if (std::min(ln, rn) > k) continue;      // would read past the common prefix
                chk("compare_n:shorter-first", sgn(B::compare(l.data(), k, r.data(), big, n)), want, n);
                chk("compare_n:longer-first", sgn(B::compare(l.data(), big, r.data(), k, n)), -want, n);
            }
        }
    }
}

template <typename T>
static std::basic_string<T> wide_nth(uint64_t i, const std::vector<T> &alpha, size_t maxlen)
{
    std::basic_string<T> out;
    uint64_t k = alpha.size(), block = 1;
    for (size_t len = 0; len <= maxlen; ++len) {
        if (i < block) {
            out.assign(len, alpha[0]);
            for (size_t p = len; p-- > 0;) { out[p] = alpha[i % k]; i /= k; }
            return out;
        }
        i -= block;
        block *= k;
    }
    return out;
}

template <typename T>
static void buffer_phase(const char *tn, const std::vector<T> &alpha)
{
    const size_t L = vrt::thorough() ? 3 : 2;
    const uint64_t n = gen::count_strings(alpha.size(), L);
    std::string pname = std::string("buffer_") + tn;
    vrt::phase(pname.c_str(), n, [&](uint64_t i, Rng &) {
        auto a = wide_nth<T>(i, alpha, L);
        for (uint64_t j = 0; j < n; ++j) buffer_pair<T>(tn, a, wide_nth<T>(j, alpha, L));
        vrt::distinct(vrt::fnv1a(a.data(), a.size() * sizeof(T), vrt::fnv_str(tn)));
    });
    std::string rname = std::string("buffer_random_") + tn;
    vrt::phase(rname.c_str(), vrt::tier_count(30000, 300000), [&](uint64_t, Rng &r) {
        // long shared prefixes straddling the small-buffer limit
        size_t pre = gen::pick_len(r) % 40;
        std::basic_string<T> p;
        for (size_t k = 0; k < pre; ++k) p += alpha[r.below(alpha.size())];
        std::basic_string<T> a = p, b = p;
        for (size_t k = r.below(3); k-- > 0;) a += alpha[r.below(alpha.size())];
        for (size_t k = r.below(3); k-- > 0;) b += alpha[r.below(alpha.size())];
        buffer_pair<T>(tn, a, b);
        vrt::distinct(vrt::fnv1a(b.data(), b.size() * sizeof(T), vrt::fnv1a(a.data(), a.size() * sizeof(T), vrt::fnv_str(tn))));
    });
    if (vrt::opt().worker == 0 || vrt::opt().single) {
        std::string ename = std::string("equal_values_with_history_") + tn;
        vrt::phase(ename.c_str(), 1, [&](uint64_t, Rng &) { equal_values_with_history<T>(tn); });
        std::string hname = std::string("huge_") + tn;
        vrt::phase(hname.c_str(), 1, [&](uint64_t, Rng &) { huge_lengths<T>(tn); });
    }
}

// Lengths that differ by 2^31 through the public case-insensitive entry points need a real string of 2 GiB (only the
// common prefix is read): thorough tier, one case.
static void huge_case_insensitive()
{
    if (!vrt::thorough() || vrt::opt().scale < 1.0) return;
    vrt::require("huge.case_insensitive_checks", 8);
    vrt::phase("huge_case_insensitive", 1, [&](uint64_t, Rng &) {
        vrt::case_cpu_budget() = 900;
        const size_t big = (size_t(1) << 31) + 5;
        vrt::cur_printf("a string of %zu bytes against its 5-byte case-folded prefix\n", big);
        ST::char_buffer buf;
        buf.allocate(big, 'a');
        const ST::string L = ST::string::from_validated(std::move(buf));
        const ST::string P("AAAAA"), p("aaaaa");
        auto chk = [&](const char *what, long got, long want) {
            vrt::evals();
            vrt::count("huge.case_insensitive_checks");
            if (got != want) vrt::violation(sfmt("C06:huge-length:%s", what), sfmt("2^31+5 bytes of 'a' vs \"AAAAA\": got %ld want %ld", got, want));
        };
        chk("compare_i:longer-first", sgn(L.compare_i(P)), 1);
        chk("compare_i:shorter-first", sgn(P.compare_i(L)), -1);
        chk("compare(ci):longer-first", sgn(L.compare(P, ST::case_insensitive)), 1);
        chk("less_i", ST::less_i()(P, L), 1);
        chk("less_i:reversed", ST::less_i()(L, P), 0);
        chk("equal_i", ST::equal_i()(L, P), 0);
        chk("compare_ni:within-prefix", sgn(L.compare_ni(P, 5)), 0);
        chk("compare_ni:beyond-prefix", sgn(L.compare_ni(P, 6)), 1);
        chk("compare:longer-first", sgn(L.compare(p)), 1);
        chk("compare:shorter-first", sgn(p.compare(L)), -1);
        chk("operator<", p < L, 1);
        chk("compare_i:cstr", sgn(L.compare_i("AAAAA")), 1);
        vrt::case_cpu_budget() = 30;
    });
}


// ---------------------------------------------------------------- scale phases
// Families of big strings (and buffers) that agree - exactly or modulo ASCII case - on a prefix of 4 KiB .. 1 MiB and then
// differ in one planted unit.  The case index walks a grid: block size B x multiple q x the point the blocks are counted
// from (the beginning / the end of the common length / the first case-sensitive difference); the planted difference sits
// 1, 2, a few ... B units in front of the multiple, the "long" members of the family reach the multiple, the "short" ones
// end between the difference and the multiple.  So for a blocked / thresholded implementation the deciding unit lies in a
// complete block for a long-long pair and in the trailing partial block for a long-short pair of the same family.
namespace sc {

struct Feature { unsigned char b[3]; const char *cls; };
static const Feature features[] = {
    // a byte >= 0x80 against ASCII bytes
    {{0xC3, '0', 'a'}, "high_vs_ascii"}, {{0xE9, ' ', 'z'}, "high_vs_ascii"}, {{0x80, 0x01, 'M'}, "high_vs_ascii"},
    {{0xFF, '_', 'q'}, "high_vs_ascii"}, {{0xDD, 'A', 'b'}, "high_vs_ascii"}, {{0x80, 0xFF, 'k'}, "high_vs_ascii"}, {{0xC3, 0x7F, 0x7E}, "high_vs_ascii"},
    // letters that differ only in case (and a third unit that differs for real)
    {{'a', 'A', 'b'}, "case_only"}, {{'i', 'I', 'j'}, "case_only"}, {{'Z', 'z', 'Y'}, "case_only"}, {{'k', 'K', 0xCB}, "case_only"}, {{'I', 'i', 0xFD}, "case_only"},
    // non-letters that differ only in bit 0x20
    {{'@', '`', 'A'}, "bit5_non_letter"}, {{'[', '{', 'Z'}, "bit5_non_letter"}, {{0xC3, 0xE3, 'c'}, "bit5_non_letter"}, {{0xDD, 0xFD, 'i'}, "bit5_non_letter"},
    {{'^', '~', '>'}, "bit5_non_letter"}, {{0x10, '0', 'P'}, "bit5_non_letter"}, {{'_', 0x7F, '?'}, "bit5_non_letter"}, {{0xC9, 0xE9, 0xA9}, "bit5_non_letter"},
    // plain differences whose case-sensitive and case-insensitive order disagree / agree
    {{'a', 'b', 'C'}, "plain"}, {{'Z', 'a', 'B'}, "plain"}, {{'1', '2', '3'}, "plain"},
};
static const size_t n_features = sizeof(features) / sizeof(features[0]);

static bool is_letter(unsigned char c) { return (c >= 'A' && c <= 'Z') || (c >= 'a' && c <= 'z'); }

// every kind of byte at every offset: letters of both cases, the bit-0x20 twins of non-letters, UTF-8, bytes >= 0xC0
static S background(Rng &r, size_t len, unsigned kind)
{
    S s(len, 'x');
    switch (kind) {
    case 0: s.assign(len, "xXm_\xe9"[r.below(5)]); break;
    case 1: for (auto &c : s) { const uint64_t v = r.next(); c = (v & 7) == 0 ? ' ' : static_cast<char>(((v & 8) ? 'A' : 'a') + (v >> 8) % 26); } break;
    case 2: {   // all byte values but NUL
        size_t i = 0;
        while (i < len) { uint64_t v = r.next(); for (int k = 0; k < 8 && i < len; ++k, v >>= 8) s[i++] = static_cast<char>((v & 0xFF) ? (v & 0xFF) : 0x20); }
        break;
    }
    case 3: s = scale::utf8_background(r, len, r.chance(1, 2) ? scale::MIXED_UTF8 : scale::TWO_BYTE_RUN); break;
    case 4: { static const S al = "@`[{^~_\x7fiIkKzZaA"; for (auto &c : s) c = al[r.next() % al.size()]; break; }
    default: for (auto &c : s) c = static_cast<char>(0xC0 + r.next() % 0x40); break;
    }
    return s;
}

// a handful of prefix limits: on and around the deciding offset, the block multiples, the two lengths, beyond 2^31 / 2^32
static std::vector<size_t> limits(Rng &r, size_t d, size_t B, size_t edge, size_t la, size_t lb, size_t keep)
{
    std::vector<size_t> must = {d, d + 1, edge, SMAX};
    std::vector<size_t> more = {0, 1, d ? d - 1 : 0, d + 2, edge ? edge - 1 : 0, edge + 1, edge > B ? edge - B : B, edge + B, la, la + 1, la ? la - 1 : 0, lb, lb + 1, lb ? lb - 1 : 0,
                                SMAX - 1, (size_t(1) << 32) + 1, (size_t(1) << 32) + d / 2, size_t(1) << 31, (size_t(1) << 16) + d % 7, r.below(std::max(la, lb) + 2), r.below(d + 1)};
    while (must.size() < keep && !more.empty()) {
        const size_t k = r.below(more.size());
        if (std::find(must.begin(), must.end(), more[k]) == must.end()) must.push_back(more[k]);
        more.erase(more.begin() + static_cast<long>(k));
    }
    return must;
}

struct Grid { size_t B, q, D; unsigned kind; };
static Grid grid(uint64_t i, size_t cap, unsigned kinds)
{
    const std::vector<size_t> &BL = scale::blocks();
    Grid g;
    g.B = BL[i % BL.size()];
    while (g.B > cap) g.B /= 2;
    g.q = 1 + (i / BL.size()) % 8;
    if (g.q * g.B > cap) g.q = 1 + (g.q - 1) % (cap / g.B);
    g.D = g.q * g.B;
    g.kind = static_cast<unsigned>((i / (BL.size() * 8)) % kinds);
    return g;
}
static const char *kind_name(unsigned k) { return k == 0 ? "beginning" : k == 1 ? "end_of_common_length" : "first_case_sensitive_difference"; }

// distance of the deciding unit in front of the multiple: 1..B
static size_t back_off(Rng &r, size_t B)
{
    switch (r.below(10)) {
    case 0: case 1: case 2: return 2;
    case 3: return 1;
    case 4: return 3 + r.below(7);
    case 5: return B / 2;
    case 6: case 7: return 1 + r.below(B);
    case 8: return B;
    default: return 2 + r.below(3);
    }
}

// lengths of the long members (reach the multiple `edge`) and the short ones (end between the deciding unit and the multiple)
struct Layout { size_t d, edge, run; size_t len[6]; bool real_short; };
static Layout layout(Rng &r, const Grid &g)
{
    Layout L;
    L.run = 0;
    const size_t B = g.B, extra_cap = std::min<size_t>(B, 70000);
    if (g.kind == 1) {
        // blocks counted back from the end of the common length: the head [0, m % B) is the partial block
        const size_t dsel[] = {0, 1, 2 + r.below(8), B / 2, r.below(B - 1), B - 2};
        L.d = std::min(dsel[r.below(6)], B - 2);
        L.edge = g.D;
        for (int k = 0; k < 3; ++k) { const size_t r1 = r.chance(1, 2) ? L.d : r.chance(1, 2) ? 0 : L.d - r.below(std::min<size_t>(L.d, 9) + 1); L.len[k] = g.D + r1; }
        for (int k = 3; k < 6; ++k) { const size_t r2 = r.chance(1, 3) ? L.d + 1 : r.chance(1, 2) ? B - 1 : L.d + 1 + r.below(B - 1 - L.d); L.len[k] = (g.q - 1) * B + r2; }
        L.real_short = true;
        return L;
    }
    const size_t t = back_off(r, B);
    if (g.kind == 2) L.run = 1 + (r.chance(1, 2) ? r.below(64) : r.below(5000));
    L.edge = L.run + g.D;
    L.d = L.edge - t;
    for (int k = 0; k < 3; ++k) {
        size_t x;
        switch (r.below(5)) { case 0: x = 0; break; case 1: x = 1; break; case 2: x = 2 + r.below(8); break; case 3: x = r.below(extra_cap + 1); break; default: x = extra_cap; break; }
        L.len[k] = L.edge + x;
    }
    L.real_short = t >= 2;
    for (int k = 3; k < 6; ++k)
        L.len[k] = !L.real_short ? L.edge : r.chance(1, 3) ? L.d + 1 : r.chance(1, 2) ? L.edge - 1 : L.d + 1 + r.below(L.edge - 1 - L.d);
    return L;
}

static void string_case(uint64_t i, Rng &r)
{
    CtxGuard guard;
    const Grid g = grid(i, size_t(1) << 20, 3);
    const Layout L = layout(r, g);
    const size_t d = L.d;
    Feature f = features[r.below(n_features)];
    for (int k = 2; k > 0; --k) std::swap(f.b[k], f.b[r.below(static_cast<uint64_t>(k) + 1)]);
    const unsigned bg = static_cast<unsigned>(r.below(6));
    size_t len[7];
    for (int k = 0; k < 6; ++k) len[k] = L.len[k];
    if (r.chance(1, 2)) len[1] = len[0];          // same-length members: fold-equal pairs when the feature is a case pair
    const size_t maxlen = *std::max_element(len, len + 6);
    S base = background(r, maxlen, bg);
    if (r.chance(1, 8) && maxlen > 1) { base[scale::offset_any(r, maxlen - 1)] = '\0'; vrt::count("scale.with_NUL"); }
    // how the members' common prefix differs in case
    enum { IDENTICAL, ONE_FLIP, RANDOM_CASE };
    const unsigned pmode = d == 0 ? IDENTICAL : static_cast<unsigned>(r.below(10) < 4 ? IDENTICAL : r.below(2) ? ONE_FLIP : RANDOM_CASE);
    size_t flip_at[6] = {0, 0, 0, 0, 0, 0};
    if (pmode == ONE_FLIP)
        for (int k = 1; k < 6; ++k) { flip_at[k] = std::min(scale::offset_any(r, d - 1), d - 1); base[flip_at[k]] = static_cast<char>('a' + r.below(26)); }
    if (g.kind == 2) base[L.run] = static_cast<char>('a' + r.below(26));
    // what follows the deciding unit: the same text for everybody / a unit ordered the other way round / noise
    enum { TAIL_SAME, TAIL_OPPOSITE, TAIL_NOISE };
    const unsigned tmode = static_cast<unsigned>(r.below(4) < 2 ? TAIL_SAME : r.below(2) ? TAIL_OPPOSITE : TAIL_NOISE);
    std::vector<S> str(7);
    for (int k = 0; k < 6; ++k) {
        S &s = str[k];
        s = base.substr(0, len[k]);
        const size_t pre = std::min(d, s.size());
        if (pmode == ONE_FLIP && k > 0 && flip_at[k] < pre) s[flip_at[k]] ^= 0x20;
        if (pmode == RANDOM_CASE) {
            const unsigned how = static_cast<unsigned>((k + k / 3) % 3);
            if (how == 1) for (size_t j = 0; j < pre; ++j) { if (is_letter(static_cast<unsigned char>(s[j]))) s[j] &= ~0x20; }
            if (how == 2) for (size_t j = 0; j < pre; ++j) { if (is_letter(static_cast<unsigned char>(s[j])) && (r.next() & 1)) s[j] ^= 0x20; }
        }
        if (g.kind == 2 && (k & 1) && L.run < pre) s[L.run] ^= 0x20;
        const unsigned char unit = f.b[k % 3];
        s[d] = static_cast<char>(unit);
        if (tmode == TAIL_OPPOSITE && d + 1 < s.size()) {
            unsigned rank = 0;
            for (int j = 0; j < 3; ++j) rank += f.b[j] < unit;
            s[d + 1] = "741"[rank];
        } else if (tmode == TAIL_NOISE) {
            static const S al = "abAB01\xc3\xa9";
            for (size_t j = d + 1; j < s.size() && j < d + 49; ++j) s[j] = al[r.below(al.size())];
        }
    }
    {   // a proper prefix of member 0, shorter by a power of two (a length difference that is 0 in a narrow type)
        static const size_t deltas[] = {1, 128, 255, 256, 32768, 65535, 65536, 131072};
        size_t delta = r.chance(1, 4) ? g.B : r.pick(deltas);
        if (delta >= len[0]) delta = 1;
        len[6] = len[0] - delta;
        str[6] = str[0].substr(0, len[6]);
    }
    const std::string where = sfmt(" [scale: block %zu x %zu counted from the %s, deciding offset %zu, multiple at %zu, units there %02x/%02x/%02x (%s), lengths %zu %zu %zu | %zu %zu %zu | %zu, background %u, prefix mode %u, tail mode %u]",
                                   g.B, g.q, kind_name(g.kind), d, L.edge, f.b[0], f.b[1], f.b[2], f.cls, len[0], len[1], len[2], len[3], len[4], len[5], len[6], bg, pmode, tmode);
    vrt::cur_printf("%s member0 %s\n", where.c_str(), scale::brief(str[0], d).c_str());
    std::vector<std::unique_ptr<vrt::Box<ST::string>>> obj;
    std::vector<S> fold(7);
    for (int k = 0; k < 7; ++k) { obj.emplace_back(new vrt::Box<ST::string>(vrt::mk(str[k]))); fold[k] = ref::folded(str[k]); }

    // the whole family against itself: sign / zero-iff-(fold-)equal, antisymmetry, transitivity over every triple
    const size_t nlim = r.chance(1, 2) ? SMAX : r.chance(1, 2) ? L.edge + r.below(2) : maxlen;
    int cs[7][7], ci[7][7], cn[7][7];
    for (int j = 0; j < 7; ++j)
        for (int k = 0; k < 7; ++k) {
            cs[j][k] = sgn((*obj[j])->compare(**obj[k]));
            ci[j][k] = sgn((*obj[j])->compare_i(**obj[k]));
            cn[j][k] = sgn((*obj[j])->compare_ni(**obj[k], nlim));
        }
    auto member = [&](int k) { return sfmt("#%d %s", k, scale::brief(str[k], std::min(d, str[k].size())).c_str()); };
    auto pair_bad = [&](const char *what, int j, int k, int got, int want) {
        vrt::violation(sfmt("C06:%s", what), sfmt("a=%s b=%s got=%d want=%d%s", member(j).c_str(), member(k).c_str(), got, want, where.c_str()));
    };
    for (int j = 0; j < 7; ++j)
        for (int k = 0; k < 7; ++k) {
            vrt::evals(6);
            if (cs[j][k] != ref::compare(str[j], str[k])) pair_bad("compare:sign", j, k, cs[j][k], ref::compare(str[j], str[k]));
            if (cs[k][j] != -cs[j][k]) pair_bad("compare:antisymmetry", j, k, cs[k][j], -cs[j][k]);
            if ((ci[j][k] == 0) != (fold[j] == fold[k])) pair_bad("compare_i:zero-iff-fold-equal", j, k, ci[j][k] == 0, fold[j] == fold[k]);
            if (ci[k][j] != -ci[j][k]) pair_bad("compare_i:antisymmetry", j, k, ci[k][j], -ci[j][k]);
            const bool feq = fold[j].compare(0, nlim, fold[k], 0, nlim) == 0;
            if ((cn[j][k] == 0) != feq) pair_bad("compare_ni:zero-iff-fold-equal", j, k, cn[j][k] == 0, feq);
            if (cn[k][j] != -cn[j][k]) pair_bad("compare_ni:antisymmetry", j, k, cn[k][j], -cn[j][k]);
            if (j != k && fold[j] == fold[k]) vrt::count("scale.fold_equal_pairs");
        }
    for (int a = 0; a < 7; ++a)
        for (int b = 0; b < 7; ++b)
            for (int c = 0; c < 7; ++c) {
                vrt::evals(3);
                auto tri = [&](const char *what) {
                    vrt::violation(sfmt("C06:%s:transitivity", what), sfmt("a=%s b=%s c=%s: a<=b, b<=c but a>c%s", member(a).c_str(), member(b).c_str(), member(c).c_str(), where.c_str()));
                };
                if (ci[a][b] <= 0 && ci[b][c] <= 0 && ci[a][c] > 0) tri("compare_i");
                if (cs[a][b] <= 0 && cs[b][c] <= 0 && cs[a][c] > 0) tri("compare");
                if (cn[a][b] <= 0 && cn[b][c] <= 0 && cn[a][c] > 0) tri("compare_ni");
            }
    vrt::count("scale.families");
    vrt::count("scale.family_triples", 7 * 7 * 7);
    vrt::count("string.triples", 7 * 7 * 7);

    // the full per-pair monitor on a few ordered pairs (fewer, with fewer limits, the bigger they are)
    static const int pairs[][2] = {{0, 1}, {0, 4}, {0, 6}, {3, 2}, {5, 4}, {1, 2}, {2, 2}, {4, 0}};
    const size_t npairs = d >= (512u << 10) ? 2 : d >= (128u << 10) ? 3 : d >= (16u << 10) ? 5 : 8;
    const size_t nlims = d >= (256u << 10) ? 8 : d >= (32u << 10) ? 12 : 20;
    for (size_t p = 0; p < npairs; ++p) {
        const int j = pairs[p][0], k = pairs[p][1];
        const std::vector<size_t> lims = limits(r, d, g.B, L.edge, len[j], len[k], nlims);
        ctx() = sfmt(" members %d,%d: a around the offset: %s; b: %s;%s", j, k, scale::brief(str[j], std::min(d, len[j])).c_str(), scale::brief(str[k], std::min(d, len[k])).c_str(), where.c_str());
        string_pair(**obj[j], str[j], **obj[k], str[k], true, &lims);
        vrt::count("scale.string_pairs");
        vrt::count("string.pairs");
        vrt::count("scale.limit_steps", lims.size());
        if (fold[j] == fold[k] && str[j] != str[k]) vrt::count("string.fold_equal_pairs");
    }
    // case mapping: only ASCII letters may change, at every offset
    for (int k : {0, 4}) {
        if (k == 4 && d >= (256u << 10)) break;
        ctx() = sfmt(" member %d: %s;%s", k, scale::brief(str[k], std::min(d, len[k])).c_str(), where.c_str());
        case_map(**obj[k], str[k]);
        vrt::count("scale.casemap.strings");
        vrt::count("casemap.strings");
    }
    ctx().clear();
    for (int k = 0; k < 7; ++k)
        if (vrt::str_of(**obj[k]) != str[k]) vrt::violation("C06:operand-changed", member(k) + where);

    vrt::count("scale.cases");
    vrt::count(sfmt("scale.counted_from.%s", kind_name(g.kind)));
    vrt::count(sfmt("scale.feature.%s", f.cls));
    vrt::count(sfmt("scale.prefix_case.%s", pmode == IDENTICAL ? "identical" : pmode == ONE_FLIP ? "one_flip_per_member" : "random"));
    if (L.real_short) vrt::count("scale.deciding_unit_in_full_and_in_partial_block");
    if (d >= 4096) vrt::count("scale.common_prefix>=4KiB");
    if (d >= 65536) vrt::count("scale.common_prefix>=64KiB");
    if (d >= (512u << 10)) vrt::count("scale.common_prefix>=512KiB");
    vrt::distinct(vrt::fnv1a(str[4].data(), str[4].size(), vrt::fnv1a(str[0].data(), str[0].size(), 34)));
    if (vrt::want_sample("scale")) vrt::sample("scale", "member0 " + scale::brief(str[0], d) + where);
}

// ---- buffers: three values (long, short, long) + a proper prefix, every pair through the per-pair monitor
template <typename T>
static void buffer_case(const char *tn, const std::vector<std::array<T, 3>> &feats, const std::vector<T> &alpha, size_t cap, uint64_t i, Rng &r)
{
    typedef std::basic_string<T> BS;
    CtxGuard guard;
    Grid g = grid(i, cap, 1);
    g.kind = r.chance(1, 3) ? 1 : 0;
    const Layout L = layout(r, g);
    const size_t d = L.d;
    std::array<T, 3> f = feats[r.below(feats.size())];
    for (int k = 2; k > 0; --k) std::swap(f[k], f[r.below(static_cast<uint64_t>(k) + 1)]);
    const size_t len[3] = {L.len[0], L.len[4], L.len[2]};
    const size_t maxlen = std::max(len[0], std::max(len[1], len[2]));
    BS base(maxlen, alpha[r.below(alpha.size())]);
    const unsigned bg = static_cast<unsigned>(r.below(3));
    if (bg == 1) for (auto &c : base) c = alpha[r.next() % alpha.size()];
    if (bg == 2) for (auto &c : base) c = static_cast<T>((r.next() & 0x7F7F7F7Full) | 1);      // never zero, never negative
    if (r.chance(1, 8) && maxlen > 1) { base[scale::offset_any(r, maxlen - 1)] = T(); vrt::count("scale.buffer.with_zero_unit"); }
    const unsigned tmode = static_cast<unsigned>(r.below(3));
    BS v[4];
    for (int k = 0; k < 3; ++k) {
        v[k] = base.substr(0, len[k]);
        v[k][d] = f[k];
        if (tmode == 1 && d + 1 < v[k].size()) {
            unsigned rank = 0;
            for (int j = 0; j < 3; ++j) rank += std::char_traits<T>::lt(f[j], f[k]);
            v[k][d + 1] = static_cast<T>("741"[rank]);
        } else if (tmode == 2) {
            for (size_t j = d + 1; j < v[k].size() && j < d + 33; ++j) v[k][j] = alpha[r.below(alpha.size())];
        }
    }
    {
        static const size_t deltas[] = {1, 128, 255, 256, 32768, 65535, 65536, 131072};
        size_t delta = r.chance(1, 4) ? g.B : r.pick(deltas);
        if (delta >= len[0]) delta = 1;
        v[3] = v[0].substr(0, len[0] - delta);
    }
    const std::string where = sfmt(" [scale: buffer<%s>, block %zu x %zu counted from the %s, deciding offset %zu, multiple at %zu, units there %llx/%llx/%llx, lengths %zu %zu %zu %zu, background %u, tail mode %u]",
                                   tn, g.B, g.q, kind_name(g.kind), d, L.edge, static_cast<unsigned long long>(f[0]), static_cast<unsigned long long>(f[1]), static_cast<unsigned long long>(f[2]),
                                   v[0].size(), v[1].size(), v[2].size(), v[3].size(), bg, tmode);
    vrt::cur_printf("%s\n", where.c_str());
    static const int pairs[][2] = {{0, 2}, {0, 1}, {1, 2}, {0, 3}, {2, 2}, {1, 0}};
    const size_t bytes = d * sizeof(T);
    const size_t npairs = bytes >= (1u << 20) ? 3 : bytes >= (128u << 10) ? 4 : 6;
    const size_t nlims = bytes >= (256u << 10) ? 8 : bytes >= (32u << 10) ? 12 : 20;
    for (size_t p = 0; p < npairs; ++p) {
        const int j = pairs[p][0], k = pairs[p][1];
        const std::vector<size_t> lims = limits(r, d, g.B, L.edge, v[j].size(), v[k].size(), nlims);
        const size_t dj = std::min(d, v[j].size()), dk = std::min(d, v[k].size());
        ctx() = sfmt(" members %d,%d: a[%zu..]=%s b[%zu..]=%s;%s", j, k, dj > 4 ? dj - 4 : 0, vrt::hex(v[j].data() + (dj > 4 ? dj - 4 : 0), std::min<size_t>(8, v[j].size() - (dj > 4 ? dj - 4 : 0)), sizeof(T)).c_str(),
                     dk > 4 ? dk - 4 : 0, vrt::hex(v[k].data() + (dk > 4 ? dk - 4 : 0), std::min<size_t>(8, v[k].size() - (dk > 4 ? dk - 4 : 0)), sizeof(T)).c_str(), where.c_str());
        buffer_pair<T>(tn, v[j], v[k], &lims);
        vrt::count(std::string("scale.buffer.pairs.") + tn);
    }
    ctx().clear();
    vrt::count("scale.buffer.cases");
    if (L.real_short) vrt::count("scale.buffer.deciding_unit_in_full_and_in_partial_block");
    if (bytes >= 65536) vrt::count("scale.buffer.common_prefix>=64KiB");
    vrt::distinct(vrt::fnv1a(v[1].data(), v[1].size() * sizeof(T), vrt::fnv1a(v[0].data(), v[0].size() * sizeof(T), vrt::fnv_str(tn, 35))));
    if (vrt::want_sample(std::string("scale_buffer_") + tn, 1)) vrt::sample(std::string("scale_buffer_") + tn, where, 1);
}

template <typename T>
static void buffer_phase(const char *tn, const std::vector<std::array<T, 3>> &feats, const std::vector<T> &alpha, size_t cap)
{
    const std::string name = std::string("scale_buffer_") + tn;
    vrt::require(std::string("scale.buffer.pairs.") + tn, std::max<uint64_t>(1, static_cast<uint64_t>(300 * std::min(1.0, vrt::opt().scale))));
    vrt::phase(name.c_str(), vrt::tier_count(168, 168 * 20), [&](uint64_t i, Rng &r) { buffer_case<T>(tn, feats, alpha, cap, i, r); });
}

} // namespace sc

static void scale_phases()
{
    // (the minimum event counts shrink with --scale like the phases do)
    auto need = [](uint64_t n) { const double f = std::min(1.0, vrt::opt().scale); return std::max<uint64_t>(1, static_cast<uint64_t>(static_cast<double>(n) * f)); };
    vrt::require("scale.cases", need(300));
    vrt::require("scale.families", need(300));
    vrt::require("scale.string_pairs", need(1000));
    vrt::require("scale.casemap.strings", need(300));
    vrt::require("scale.deciding_unit_in_full_and_in_partial_block", need(200));
    vrt::require("scale.common_prefix>=4KiB", need(100));
    vrt::require("scale.common_prefix>=64KiB", need(50));
    vrt::require("scale.common_prefix>=512KiB", need(5));
    vrt::require("scale.feature.high_vs_ascii", need(50));
    vrt::require("scale.feature.case_only", need(40));
    vrt::require("scale.feature.bit5_non_letter", need(50));
    vrt::require("scale.fold_equal_pairs", need(60));
    vrt::require("scale.counted_from.beginning", need(100));
    vrt::require("scale.counted_from.end_of_common_length", need(100));
    vrt::require("scale.counted_from.first_case_sensitive_difference", need(100));
    vrt::require("scale.buffer.cases", need(600));
    vrt::require("scale.buffer.deciding_unit_in_full_and_in_partial_block", need(300));
    vrt::require("scale.buffer.common_prefix>=64KiB", need(100));
    vrt::note("scale: families of 7 strings (3 long, 3 short, 1 proper prefix) sharing a (case-folded) prefix of up to 1 MiB, one planted deciding unit in front of a multiple of a block size "
              "(grid: 21 block sizes x multiples 1..8 x blocks counted from the beginning / the end of the common length / the first case-sensitive difference); the whole family through "
              "compare / compare_i / compare_ni (sign, zero-iff-fold-equal, antisymmetry, transitivity on all 343 triples), selected pairs through the full per-pair monitor with limits on and "
              "around the deciding offset and the multiples, to_upper / to_lower / hashes on the big members; the same for buffers of the four element types");
    vrt::phase("scale", vrt::tier_count(504, 504 * 24), sc::string_case);

    typedef std::array<char, 3> C3;
    sc::buffer_phase<char>("char", {C3{char(0xC3), '0', 'a'}, C3{char(0x80), 0x7f, 0x01}, C3{char(0xff), 0x01, 'A'}, C3{'a', 'A', 'b'}, C3{'@', '`', '['}},
                           {'x', 'A', 'a', 0x7f, char(0x80), char(0xff), 1}, size_t(1) << 20);
    typedef std::array<wchar_t, 3> W3;
    sc::buffer_phase<wchar_t>("wchar_t", {W3{0x100, 0xFF, 0x101}, W3{0x10000, 0xFFFF, 0x7FFFFFFF}, W3{0x80, 0x7f, L'a'}, W3{L'a', L'A', L'b'}, W3{0x0141, 0x0241, 0x0142}},
                              {L'x', 1, L'A', 0x7f, 0x80, 0xff, 0xd800, 0xffff, 0x10ffff}, size_t(1) << 18);
    typedef std::array<char16_t, 3> U3;
    sc::buffer_phase<char16_t>("char16_t", {U3{0x8000, 0x7FFF, 0xFFFF}, U3{0x100, 0xFF, 0x101}, U3{0xD800, 0xE000, 0xDBFF}, U3{u'a', u'A', 0x80}, U3{0x0141, 0x0241, 0x0142}},
                               {u'x', 1, u'A', 0x7f, 0x80, 0xff, 0xd800, 0x8000, 0xffff}, size_t(1) << 18);
    typedef std::array<char32_t, 3> V3;
    sc::buffer_phase<char32_t>("char32_t", {V3{0x80000000u, 0x7FFFFFFF, 0xFFFFFFFFu}, V3{0x10000, 0xFFFF, 0x10FFFF}, V3{0x100, 0xFF, 0x101}, V3{U'a', U'A', 0x80}, V3{0x01000041, 0x02000041, 0x01000042}},
                               {U'x', 1, U'A', 0x7f, 0x80, 0xffff, 0x10ffff, 0x7fffffff, 0x80000000u, 0xffffffffu}, size_t(1) << 18);
}

// ---------------------------------------------------------------- alignment phases
// Every const char* / char8_t* / (pointer, length) operand at every start alignment 0..15, for operands of 16..80 units that
// agree on their first 8 bytes and differ first (really, or in case only) at each index from 8 on (so at each index 8..16 and
// at each index of the last 16 for every length); the object on the other side holds the same bytes in the library's own
// (aligned) buffer, so the result is also compared with the ST::string overload.
namespace al {

enum Variant { REAL, CASE_ONLY, CASE_THEN_REAL, REAL_THEN_OPPOSITE, HIGH_VS_ASCII, BIT5_NON_LETTER, SHORTER, HEAD_CASE_THEN_REAL, N_VARIANTS };
static const char *const variant_name[] = {"real", "case_only", "case_only_then_real", "real_then_opposite", "high_vs_ascii", "bit5_non_letter", "proper_prefix", "case_differs_in_first_8_then_real"};

static void string_case(uint64_t i, Rng &r)
{
    CtxGuard guard;
    const size_t len = 16 + i % 65;
    const unsigned bg = static_cast<unsigned>((i / 65) % 4);
    S base(len, 'x');
    switch (bg) {
    case 0: base.assign(len, "xXm_"[r.below(4)]); break;
    case 1: for (auto &c : base) c = static_cast<char>((r.chance(1, 2) ? 'A' : 'a') + r.below(26)); break;
    case 2: { static const S tw = "@`[{^~_\x7fiIkKzZaA"; for (auto &c : base) c = tw[r.below(tw.size())]; break; }
    default: for (auto &c : base) { const uint64_t v = r.next() & 0xFF; c = static_cast<char>(v ? v : 0x41); } break;
    }
    // every index from 8 on (so 8..16 and the last 16 are complete for every length), and what is left of the last 16
    std::vector<size_t> idxs;
    for (size_t x = len - 16; x < 8; ++x) idxs.push_back(x);
    for (size_t x = 8; x <= len; ++x) idxs.push_back(x);
    uint64_t at_mod[16] = {0}, n_var[N_VARIANTS] = {0}, n_ops = 0, n_8_16 = 0, n_last16 = 0, n_feq = 0;
    for (size_t idx : idxs)
        for (unsigned v = 0; v < N_VARIANTS; ++v) {
            if (v != SHORTER && idx >= len) continue;
            S a = base, b = base;
            const char l1 = static_cast<char>('a' + r.below(26));
            char l2 = static_cast<char>('a' + r.below(25));
            if (l2 >= l1) ++l2;
            const bool up1 = r.chance(1, 2), up2 = r.chance(1, 2);
            auto real_at = [&](size_t k) { a[k] = static_cast<char>(up1 ? l1 - 32 : l1); b[k] = static_cast<char>(up2 ? l2 - 32 : l2); };
            switch (v) {
            case REAL: real_at(idx); break;
            case CASE_ONLY: a[idx] = l1; b[idx] = static_cast<char>(l1 - 32); break;
            case CASE_THEN_REAL: {
                if (idx == 0) continue;
                const size_t j = idx > 8 ? 8 + r.below(idx - 8) : r.below(idx);
                a[j] = l2; b[j] = static_cast<char>(l2 - 32);
                real_at(idx);
                break;
            }
            case REAL_THEN_OPPOSITE: {
                if (idx + 1 >= len) continue;
                a[idx] = 'c'; b[idx] = up2 ? 'D' : 'd';
                const size_t j = idx + 1 + r.below(std::min<size_t>(8, len - idx - 1));
                a[j] = 'z'; b[j] = 'b';
                break;
            }
            case HIGH_VS_ASCII: a[idx] = static_cast<char>(0x80 + r.below(0x80)); b[idx] = up2 ? l2 : static_cast<char>(0x20 + r.below(0x5F)); break;
            case BIT5_NON_LETTER: { static const char tw[][2] = {{'@', '`'}, {'[', '{'}, {'\xc3', '\xe3'}, {'^', '~'}, {'\xdd', '\xfd'}, {0x10, '0'}}; const char *t = r.pick(tw); a[idx] = t[0]; b[idx] = t[1]; break; }
            case SHORTER: b = a.substr(0, idx); break;
            default: {
                const size_t j = r.below(std::min<size_t>(8, len));
                if (j >= idx) continue;
                a[j] = l2; b[j] = static_cast<char>(l2 - 32);
                real_at(idx);
                break;
            }
            }
            if (r.chance(1, 2)) std::swap(a, b);
            vrt::Box<ST::string> sa(vrt::mk(a)), sb(vrt::mk(b));
            const std::vector<size_t> lims = {idx, idx + 1, 16, len, SMAX, r.below(len + 2)};
            ctx() = sfmt(" [alignment: operands of %zu / %zu bytes, first %s difference at index %zu, background %u]", a.size(), b.size(), variant_name[v], idx, bg);
            vrt::cur_printf("alignment: a=%s b=%s%s\n", show(a).c_str(), show(b).c_str(), ctx().c_str());
            for (size_t k = 0; k < 16; ++k) {
                Placed<char> pb(b, true, k), pa(a, true, (k * 5 + 3) & 15);
                pointer_operand(*sa, a, sb.p, b, pb.p, lims);
                pointer_operand(*sb, b, sa.p, a, pa.p, lims);
                ++at_mod[pb.mod16()];
                ++at_mod[pa.mod16()];
                n_ops += 2;
            }
            ++n_var[v];
            if (idx >= 8 && idx <= 16) ++n_8_16;
            if (idx + 16 >= len) ++n_last16;
            if (ref::folded(a) == ref::folded(b) && a != b) ++n_feq;
        }
    ctx().clear();
    vrt::count("alignment.string.cases");
    vrt::count("alignment.string.pointer_operands", n_ops);
    vrt::count("alignment.string.first_difference_at_index_8..16", n_8_16);
    vrt::count("alignment.string.first_difference_in_the_last_16", n_last16);
    vrt::count("alignment.string.fold_equal_pairs", n_feq);
    for (unsigned k = 0; k < 16; ++k) vrt::count(sfmt("alignment.string.operand_at_address_mod16=%02u", k), at_mod[k]);
    for (unsigned v = 0; v < N_VARIANTS; ++v) vrt::count(sfmt("alignment.string.difference.%s", variant_name[v]), n_var[v]);
    vrt::distinct(vrt::fnv1a(base.data(), base.size(), 41));
    if (vrt::want_sample("alignment"))
        vrt::sample("alignment", sfmt("operands of %zu bytes (background %u): for each index from 8 on (and the rest of the last 16), 8 kinds of first difference there; each pair with the C string at every "
                                      "address modulo 16 (block ends behind the NUL), both directions, compare / compare_i / compare_n / compare_ni / == / != through the const char* and "
                                      "char8_t* overloads against the reference and the ST::string overload", len, bg));
}

// buffers: both (pointer, length) operands at every pair of start alignments
template <typename T>
static void buffer_case(const char *tn, const std::vector<T> &alpha, uint64_t i, Rng &r)
{
    typedef ST::buffer<T> B;
    typedef std::basic_string<T> BS;
    const size_t len = 16 + i % 65, A = 16 / sizeof(T);
    BS base(len, alpha[r.below(alpha.size())]);
    if ((i / 65) & 1) for (auto &c : base) c = alpha[r.below(alpha.size())];
    std::vector<size_t> idxs;
    for (size_t x = 0; x <= 16 && x <= len; ++x) idxs.push_back(x);
    for (size_t x = len - 16; x < len; ++x) if (std::find(idxs.begin(), idxs.end(), x) == idxs.end()) idxs.push_back(x);
    uint64_t n_calls = 0, n_pairs = 0;
    for (size_t idx : idxs)
        for (unsigned v = 0; v < 3; ++v) {
            if (v != 2 && idx >= len) continue;
            BS a = base, b = base;
            if (v == 2) b = a.substr(0, idx);
            else {
                T x = alpha[r.below(alpha.size())], y = alpha[r.below(alpha.size() - 1)];
                if (y == x) y = alpha[alpha.size() - 1];
                a[idx] = x; b[idx] = y;
                if (v == 1 && idx + 1 < len) {     // a later difference ordered the other way round
                    const size_t j = idx + 1 + r.below(std::min<size_t>(8, len - idx - 1));
                    a[j] = y; b[j] = x;
                }
            }
            vrt::Box<B> oa(a.data(), a.size()), ob(b.data(), b.size());
            const int want = ref_cmp(a, b);
            const size_t lims[] = {idx, idx + 1, SMAX};
            int wn[3];
            for (int k = 0; k < 3; ++k) wn[k] = ref_cmp(a, std::min(lims[k], a.size()), b, std::min(lims[k], b.size()));
            for (size_t la = 0; la < A; ++la) {
                Placed<T> pa(a, false, la * sizeof(T));
                for (size_t lb = 0; lb < A; ++lb) {
                    Placed<T> pb(b, true, lb * sizeof(T));
                    auto chk = [&](const char *what, int got, int w, size_t n) {
                        vrt::evals();
                        if (got != w)
                            vrt::violation(sfmt("C06:buffer<%s>:%s", tn, what),
                                           sfmt("a=%s b=%s got=%d want=%d n=%zu; operands in caller storage at addresses = %u and %u modulo 16, first difference at index %zu", vrt::hex(a.data(), a.size(), sizeof(T)).c_str(),
                                                vrt::hex(b.data(), b.size(), sizeof(T)).c_str(), got, w, n, pa.mod16(), pb.mod16(), idx));
                    };
                    chk("compare:static:caller-storage", sgn(B::compare(pa.p, a.size(), pb.p, b.size())), want, SMAX);
                    chk("compare:static:caller-storage:antisymmetry", sgn(B::compare(pb.p, b.size(), pa.p, a.size())), -want, SMAX);
                    chk("compare:cstr:caller-storage", sgn(oa->compare(pb.p)), want, SMAX);
                    for (int k = 0; k < 3; ++k) {
                        chk("compare_n:static:caller-storage", sgn(B::compare(pa.p, a.size(), pb.p, b.size(), lims[k])), wn[k], lims[k]);
                        chk("compare_n:cstr:caller-storage", sgn(oa->compare_n(pb.p, lims[k])), wn[k], lims[k]);
                    }
                    chk("compare:static:caller-storage:object-overload-agrees", sgn(oa->compare(*ob)), sgn(B::compare(pa.p, a.size(), pb.p, b.size())), SMAX);
                    n_calls += 10;
                }
            }
            ++n_pairs;
        }
    vrt::count(std::string("alignment.buffer.cases.") + tn);
    vrt::count("alignment.buffer.pairs", n_pairs);
    vrt::count("alignment.buffer.calls", n_calls);
    vrt::distinct(vrt::fnv1a(base.data(), base.size() * sizeof(T), vrt::fnv_str(tn, 42)));
}

template <typename T>
static void buffer_phase(const char *tn, std::vector<T> alpha)
{
    alpha.erase(std::remove(alpha.begin(), alpha.end(), T()), alpha.end());        // C-string operands: no zero unit
    const std::string name = std::string("alignment_buffer_") + tn;
    vrt::require(std::string("alignment.buffer.cases.") + tn, std::max<uint64_t>(1, static_cast<uint64_t>(130 * std::min(1.0, vrt::opt().scale))));
    vrt::phase(name.c_str(), vrt::tier_count(130, 130 * 12), [&](uint64_t i, Rng &r) { buffer_case<T>(tn, alpha, i, r); });
}

} // namespace al

// ---------------------------------------------------------------- same_storage phases
// 3..6 different texts of IDENTICAL size that share their first and last 16 units and differ in the middle in ways that change
// the answers (another letter, the other case, a byte >= 0x80; the same text again), each put at the SAME ADDRESS before the
// library is asked: the object is destroyed and its successor built right away with the release of the object block and of its
// heap block forced into the re-issue pools (rt/vrt_st.h, rt/vrt_alloc.h), or assigned over; C-string / (pointer, length)
// operands sit in one caller block that is rewritten in place.  What a successor hashes to is compared with the hash of an
// equal string built elsewhere and alive during the whole case; order and equality against a fixed partner go through the
// per-pair monitors.  The order of the operations changes from text to text.
namespace ss {

static const size_t sizes[] = {64, 65, 71, 100, 128, 256, 300, 1024, 1500, 4096, 5000};
static const size_t NS = sizeof(sizes) / sizeof(sizes[0]);

enum Direct { D_HASH, D_HASH_I, D_STD_HASH, D_COMPARE, D_COMPARE_REV, D_EQ, D_NE, D_LT, D_LT_REV, D_COMPARE_I, D_COMPARE_I_REV, D_EQUAL_I, D_LESS_I, D_COMPARE_N, D_COMPARE_NI,
              D_CSTR, D_CSTR_I, D_CSTR_EQ, D_CSTR_N, D_CSTR_NI, D_OBJ_CSTR, D_OBJ_CSTR_I, D_OBJ_CSTR_NE, D_OWN_CSTR, N_DIRECT };
static const char *const direct_name[] = {"hash", "hash_i", "std::hash", "compare(string)", "compare(string):reversed", "operator==", "operator!=", "operator<", "operator<:reversed", "compare_i(string)",
                                          "compare_i(string):reversed", "equal_i", "less_i", "compare_n(string)", "compare_ni(string)", "compare(cstr_rewritten_in_place)", "compare_i(cstr_rewritten_in_place)",
                                          "operator==(cstr_rewritten_in_place)", "compare_n(cstr_rewritten_in_place)", "compare_ni(char8_t_rewritten_in_place)", "compare(cstr)", "compare_i(cstr)",
                                          "operator!=(char8_t)", "compare(own_c_str)"};

static std::vector<size_t> hot_positions(Rng &r, size_t N)
{
    std::vector<size_t> h = {16, 17, 23, 24, N / 2, N - 17, N - 18, N - 24, N - 25};
    for (int k = 0; k < 3; ++k) h.push_back(16 + r.below(N - 32));
    if (N > 4096) h.push_back(std::min(N - 17, 16 + scale::offset_any(r, N - 33)));
    std::sort(h.begin(), h.end());
    h.erase(std::unique(h.begin(), h.end()), h.end());
    return h;
}

static void string_case(uint64_t i, Rng &r)
{
    CtxGuard guard;
    const bool big = i % 48 == 47;
    const size_t N = big ? (size_t(1) << 20) + (r.chance(1, 2) ? 0 : r.below(3)) : sizes[i % NS];
    const size_t m = big ? 3 : 3 + r.below(4);
    const std::vector<size_t> hot = hot_positions(r, N);
    S base = sc::background(r, N, static_cast<unsigned>(r.below(6)));
    for (size_t h : hot) base[h] = static_cast<char>('a' + r.below(26));
    std::vector<S> content(m, base);
    uint64_t n_same = 0, n_case = 0;
    for (size_t k = 1; k < m; ++k) {
        content[k] = content[r.below(k)];
        S &s = content[k];
        auto other_letter = [&](size_t h) { char c; do c = static_cast<char>('a' + r.below(26)); while (ref::fold(static_cast<unsigned char>(s[h])) == static_cast<unsigned char>(c)); s[h] = r.chance(1, 3) ? static_cast<char>(c - 32) : c; };
        switch (r.below(7)) {
        case 0: ++n_same; break;                                                                       // the same text again
        case 1: case 2: for (size_t n = 1 + r.below(3); n-- > 0;) { const size_t h = r.pick(hot); if (sc::is_letter(static_cast<unsigned char>(s[h]))) s[h] ^= 0x20; } ++n_case; break;
        case 3: case 4: other_letter(r.pick(hot)); break;
        case 5: other_letter(r.pick(hot)); other_letter(r.pick(hot)); break;
        default: s[r.pick(hot)] = static_cast<char>(0x80 + r.below(0x80)); break;
        }
    }
    const size_t p = r.below(m);
    const std::string where = sfmt(" [same_storage: %zu texts of %zu bytes with the same first and last 16 bytes, differing at some of %zu places in %zu..%zu; partner is text %zu]",
                                   m, N, hot.size(), hot.front(), hot.back(), p);
    vrt::cur_printf("%s base %s\n", where.c_str(), scale::brief(base).c_str());

    // equal strings built elsewhere, alive during the whole case, and what they hash to
    std::vector<std::unique_ptr<vrt::Box<ST::string>>> tw;
    std::vector<size_t> H(m), HI(m), SH(m);
    std::vector<S> fold(m);
    for (size_t k = 0; k < m; ++k) {
        tw.emplace_back(new vrt::Box<ST::string>(vrt::mk(content[k])));
        H[k] = ST::hash()(**tw[k]);
        HI[k] = ST::hash_i()(**tw[k]);
        SH[k] = std::hash<ST::string>()(**tw[k]);
        fold[k] = ref::folded(content[k]);
    }
    auto text = [&](size_t k) { return sfmt("#%zu %s", k, scale::brief(content[k], scale::first_diff(content[k], base) == S::npos ? N / 2 : scale::first_diff(content[k], base)).c_str()); };
    for (size_t j = 0; j < m; ++j)
        for (size_t k = 0; k < j; ++k) {
            vrt::evals(2);
            if (content[j] == content[k] && (H[j] != H[k] || SH[j] != SH[k])) vrt::violation("C06:hash:equal-strings", sfmt("a=%s b=%s%s", text(j).c_str(), text(k).c_str(), where.c_str()));
            if (fold[j] == fold[k] && HI[j] != HI[k]) vrt::violation("C06:hash_i:fold-equal-strings", sfmt("a=%s b=%s%s", text(j).c_str(), text(k).c_str(), where.c_str()));
        }

    std::vector<size_t> lims = {0, 16, N - 16, N, N + 1, SMAX};
    for (size_t h : hot) { lims.push_back(h); lims.push_back(h + 1); }
    while (lims.size() > (big ? 5u : 14u)) lims.erase(lims.begin() + static_cast<long>(r.below(lims.size())));
    const std::vector<size_t> few = {SMAX, r.pick(hot) + 1};

    Placed<char> blk(N, true, r.below(16));
    size_t blk_holds = m;
    std::optional<vrt::Box<ST::string>> obj;
    size_t holds = m;                               // which text the object holds
    enum Op { HASH, HASH_I, PAIR, PAIR_REV, BLOCK, CASEMAP, TWIN, N_OPS };
    const unsigned direct_kind = static_cast<unsigned>(i % (N_DIRECT + 6) < N_DIRECT ? i % (N_DIRECT + 6) : (i % (N_DIRECT + 6) - N_DIRECT) % 3);      // the three hashes more often
    const size_t direct_n = r.chance(1, 3) ? SMAX : r.chance(1, 2) ? r.pick(hot) + 1 : N;
    size_t fixed_holds = r.below(m);
    Placed<char> fixed(content[fixed_holds], true, r.below(16));         // a caller block that is NOT rewritten
    // one library call on the object holding text c (and the partner / a caller block), compared with the reference
    auto direct = [&](const ST::string &o, size_t c) {
        const ST::string &P = **tw[p];
        const S &a = content[c], &b = content[p];
        const std::string ex = sfmt("a single %s call, the first after the same call on the predecessor; n=%zu", direct_name[direct_kind], direct_n);
        const size_t na = std::min(direct_n, N);
        switch (direct_kind) {
        case D_HASH: EXPECT_EQ("hash:equal-string-built-elsewhere", ST::hash()(o) == H[c], 1, ex); break;
        case D_HASH_I: EXPECT_EQ("hash_i:equal-string-built-elsewhere", ST::hash_i()(o) == HI[c], 1, ex); break;
        case D_STD_HASH: EXPECT_EQ("std::hash:equal-string-built-elsewhere", std::hash<ST::string>()(o) == SH[c], 1, ex); break;
        case D_COMPARE: EXPECT_EQ("compare:sign", sgn(o.compare(P)), ref::compare(a, b), ex); break;
        case D_COMPARE_REV: EXPECT_EQ("compare:sign", sgn(P.compare(o)), ref::compare(b, a), ex); break;
        case D_EQ: EXPECT_EQ("operator==", o == P, a == b, ex); break;
        case D_NE: EXPECT_EQ("operator!=", P != o, a != b, ex); break;
        case D_LT: EXPECT_EQ("operator<", o < P, ref::compare(a, b) < 0, ex); break;
        case D_LT_REV: EXPECT_EQ("operator<", P < o, ref::compare(b, a) < 0, ex); break;
        case D_COMPARE_I: EXPECT_EQ("compare_i:zero-iff-fold-equal", o.compare_i(P) == 0, fold[c] == fold[p], ex); break;
        case D_COMPARE_I_REV: EXPECT_EQ("compare_i:zero-iff-fold-equal", P.compare_i(o) == 0, fold[c] == fold[p], ex); break;
        case D_EQUAL_I: EXPECT_EQ("equal_i", ST::equal_i()(o, P), fold[c] == fold[p], ex); break;
        case D_LESS_I: EXPECT_EQ("less_i:irreflexive-on-fold-equal", ST::less_i()(o, P) && fold[c] == fold[p], 0, ex); break;
        case D_COMPARE_N: EXPECT_EQ("compare_n:sign", sgn(o.compare_n(P, direct_n)), prefix_compare(a, na, b, na), ex); break;
        case D_COMPARE_NI: EXPECT_EQ("compare_ni:zero-iff-fold-equal", o.compare_ni(P, direct_n) == 0, prefix_fold_equal(a, na, b, na), ex); break;
        // the partner against the caller block, which is rewritten in place with this text right before the call
        case D_CSTR: blk.put(a.data()); blk_holds = c; EXPECT_EQ("compare:cstr:caller-storage", sgn(P.compare(blk.p)), ref::compare(b, a), ex); break;
        case D_CSTR_I: blk.put(a.data()); blk_holds = c; EXPECT_EQ("compare_i:cstr:caller-storage:zero-iff-fold-equal", P.compare_i(blk.p) == 0, fold[c] == fold[p], ex); break;
        case D_CSTR_EQ: blk.put(a.data()); blk_holds = c; EXPECT_EQ("operator==:cstr:caller-storage", P == blk.p, a == b, ex); break;
        case D_CSTR_N: blk.put(a.data()); blk_holds = c; EXPECT_EQ("compare_n:cstr:caller-storage", sgn(P.compare_n(blk.p, direct_n)), prefix_compare(b, na, a, na), ex); break;
        case D_CSTR_NI: blk.put(a.data()); blk_holds = c; EXPECT_EQ("compare_ni:cstr:caller-storage:zero-iff-fold-equal", P.compare_ni(reinterpret_cast<const char8_t *>(blk.p), direct_n) == 0, prefix_fold_equal(b, na, a, na), ex); break;
        // the object against a caller block that stays as it is
        case D_OBJ_CSTR: EXPECT_EQ("compare:cstr:caller-storage", sgn(o.compare(fixed.p)), ref::compare(a, content[fixed_holds]), ex); break;
        case D_OBJ_CSTR_I: EXPECT_EQ("compare_i:cstr:caller-storage:zero-iff-fold-equal", o.compare_i(fixed.p) == 0, fold[c] == fold[fixed_holds], ex); break;
        case D_OBJ_CSTR_NE: EXPECT_EQ("operator!=:char8_t:caller-storage", o != reinterpret_cast<const char8_t *>(fixed.p), a != content[fixed_holds], ex); break;
        default: EXPECT_EQ("compare:own-c_str", o.compare(o.c_str()), 0, ex); break;
        }
    };
    const size_t steps = m + (big ? 0 : r.below(3));
    for (size_t step = 0; step < steps; ++step) {
        const size_t c = step < m ? step : r.below(m);
        // ---- the successor, at the address of its predecessor
        bool same_heap = false, same_obj = false;
        const bool differs = holds < m && content[holds] != content[c];
        if (obj && !big && r.chance(1, 4)) {
            **obj = vrt::mk(content[c]);            // assigned over: same object, new heap block
            same_obj = true;
            vrt::count("same_storage.string.successors_assigned_over");
        } else {
            const void *old_obj = obj ? static_cast<const void *>(obj->p) : nullptr;
            const void *old_heap = obj ? static_cast<const void *>((*obj)->c_str()) : nullptr;
            if (obj) { vrt::placement_force_parks() = 4; obj.reset(); }
            obj.emplace(vrt::mk(content[c]));
            vrt::placement_force_parks() = 0;
            if (old_obj) {
                same_obj = obj->p == old_obj;
                same_heap = (*obj)->c_str() == old_heap;
                vrt::count("same_storage.string.successors_rebuilt");
                if (same_obj) vrt::count("same_storage.string.object_at_the_address_of_its_predecessor");
                if (same_heap) vrt::count("same_storage.string.heap_block_at_the_address_of_its_predecessor");
                if (same_heap && differs) vrt::count("same_storage.string.different_text_in_the_same_heap_block");
                if (same_heap && big) vrt::count("same_storage.string.heap_block_of_1MiB_at_the_address_of_its_predecessor");
            }
        }
        const std::string was = holds < m ? sfmt(" predecessor: text #%zu (object %s, heap block %s address)", holds, same_obj ? "at the same" : "at another", same_heap ? "at the same" : "at another") : std::string(" first text");
        holds = c;
        const ST::string &o = **obj;

        std::vector<int> ops = {HASH, HASH_I, PAIR, BLOCK, CASEMAP};
        if (!big) { ops.push_back(PAIR_REV); ops.push_back(TWIN); }
        for (size_t k = ops.size(); k > 1; --k) std::swap(ops[k - 1], ops[r.below(k)]);
        if (big && step > 0) ops.erase(std::find(ops.begin(), ops.end(), static_cast<int>(CASEMAP)));
        // ONE call of the case's chosen entry point is the first thing that happens to a successor - and was the last thing that
        // happened to its predecessor (same entry point, same addresses, same sizes, another text)
        ctx() = sfmt(" text %s;%s%s", text(c).c_str(), was.c_str(), where.c_str());
        if (step > 0) {
            direct(o, c);
            if (differs && (same_heap || (direct_kind >= D_CSTR && direct_kind < D_OBJ_CSTR))) vrt::count(sfmt("same_storage.string.last_call_on_predecessor_is_first_on_successor.%s", direct_name[direct_kind]));
        }
        for (int op : ops) {
            ctx() = sfmt(" text %s;%s%s", text(c).c_str(), was.c_str(), where.c_str());
            switch (op) {
            case HASH: {
                const size_t h1 = ST::hash()(o), h2 = std::hash<ST::string>()(o);
                vrt::evals(2);
                if (h1 != H[c]) vrt::violation("C06:hash:equal-string-built-elsewhere", sfmt("got=%016zx want=%016zx%s", h1, H[c], ctx().c_str()));
                if (h2 != SH[c]) vrt::violation("C06:std::hash:equal-string-built-elsewhere", sfmt("got=%016zx want=%016zx%s", h2, SH[c], ctx().c_str()));
                break;
            }
            case HASH_I: {
                const size_t h1 = ST::hash_i()(o);
                vrt::evals();
                if (h1 != HI[c]) vrt::violation("C06:hash_i:equal-string-built-elsewhere", sfmt("got=%016zx want=%016zx%s", h1, HI[c], ctx().c_str()));
                break;
            }
            case PAIR: string_pair(o, content[c], **tw[p], content[p], true, big ? &few : &lims); vrt::count("same_storage.string.pairs"); break;
            case PAIR_REV: string_pair(**tw[p], content[p], o, content[c], true, &lims); vrt::count("same_storage.string.pairs"); break;
            case BLOCK: {
                // the caller block rewritten in place, as the right operand of the fixed partner and of the object
                size_t nb = r.below(m);
                if (nb == blk_holds) nb = (nb + 1) % m;
                blk.put(content[nb].data());
                if (blk_holds < m) vrt::count("same_storage.caller_block_rewritten_in_place");
                blk_holds = nb;
                ctx() = sfmt(" caller block holds text %s; left operand is the partner;%s", text(nb).c_str(), where.c_str());
                pointer_operand(**tw[p], content[p], tw[nb]->p, content[nb], blk.p, big ? few : lims);
                ctx() = sfmt(" caller block holds text %s; left operand is text %s;%s%s", text(nb).c_str(), text(c).c_str(), was.c_str(), where.c_str());
                pointer_operand(o, content[c], tw[nb]->p, content[nb], blk.p, big ? few : lims);
                break;
            }
            case CASEMAP: case_map(o, content[c]); break;
            default: string_pair(o, content[c], **tw[c], content[c], false); vrt::count("same_storage.string.pairs"); break;
            }
        }
        ctx() = sfmt(" text %s;%s%s", text(c).c_str(), was.c_str(), where.c_str());
        direct(o, c);
        if (big) {
            vrt::evals(2);
            if (!(o == **tw[c]) || o.compare(**tw[c]) != 0) vrt::violation("C06:compare:equal-string-built-elsewhere", ctx());
        }
        vrt::count("same_storage.string.texts");
        if (vrt::str_of(o) != content[c]) vrt::violation("C06:operand-changed", ctx());
    }
    ctx().clear();
    // the strings built elsewhere still hash to what they did
    for (size_t k = 0; k < m; ++k) {
        vrt::evals(2);
        if (ST::hash()(**tw[k]) != H[k] || ST::hash_i()(**tw[k]) != HI[k]) vrt::violation("C06:hash:same-object-twice", sfmt("%s%s", text(k).c_str(), where.c_str()));
    }
    vrt::count("same_storage.string.cases");
    vrt::count("same_storage.string.same_text_again", n_same);
    vrt::count("same_storage.string.fold_equal_successors", n_case);
    if (big) vrt::count("same_storage.string.cases_of_1MiB");
    vrt::distinct(vrt::fnv1a(content[m - 1].data(), N, vrt::fnv1a(base.data(), N, 43)));
    if (vrt::want_sample("same_storage")) vrt::sample("same_storage", "base " + scale::brief(base) + where);
}

enum BDirect { B_COMPARE, B_COMPARE_REV, B_EQ, B_NE, B_LT, B_LT_REV, B_COMPARE_N, B_STATIC, B_STATIC_N, B_CSTR, B_CSTR_N, B_OBJ_CSTR, B_OBJ_CSTR_N, N_BDIRECT };
static const char *const bdirect_name[] = {"compare(buffer)", "compare(buffer):reversed", "operator==", "operator!=", "operator<", "operator<:reversed", "compare_n(buffer)", "compare:static(block_rewritten_in_place)",
                                           "compare_n:static(block_rewritten_in_place)", "compare(cstr_rewritten_in_place)", "compare_n(cstr_rewritten_in_place)", "compare(cstr)", "compare_n(cstr)"};

template <typename T>
static void buffer_case(const char *tn, const std::vector<T> &alpha, uint64_t i, Rng &r)
{
    typedef ST::buffer<T> B;
    typedef std::basic_string<T> BS;
    CtxGuard guard;
    static const size_t bsizes[] = {64, 65, 100, 256, 300, 1024, 4096};
    const bool big = i % 30 == 29;
    const size_t N = big ? (size_t(1) << 20) / sizeof(T) : r.pick(bsizes) / (i % 3 == 2 ? sizeof(T) : 1) + (i % 3 == 2 ? 48 : 0);
    const size_t m = big ? 3 : 3 + r.below(4);
    const std::vector<size_t> hot = hot_positions(r, N);
    BS base(N, alpha[r.below(alpha.size())]);
    if (r.chance(2, 3)) for (auto &c : base) c = alpha[r.next() % alpha.size()];
    std::vector<BS> content(m, base);
    for (size_t k = 1; k < m; ++k) {
        content[k] = content[r.below(k)];
        if (r.chance(1, 6)) continue;                                                                    // the same value again
        for (size_t n = 1 + r.below(2); n-- > 0;) {
            const size_t h = r.pick(hot);
            T y = alpha[r.below(alpha.size() - 1)];
            if (y == content[k][h]) y = alpha[alpha.size() - 1];
            content[k][h] = y;
        }
    }
    const size_t p = r.below(m);
    const std::string where = sfmt(" [same_storage: buffer<%s>, %zu values of %zu units with the same first and last 16 units, differing at some of %zu places in %zu..%zu; partner is value %zu]",
                                   tn, m, N, hot.size(), hot.front(), hot.back(), p);
    vrt::cur_printf("%s\n", where.c_str());
    vrt::Box<B> partner(content[p].data(), N);
    std::vector<size_t> lims = {0, 16, N - 16, N, N + 1, SMAX};
    for (size_t h : hot) { lims.push_back(h); lims.push_back(h + 1); }
    while (lims.size() > (big ? 4u : 12u)) lims.erase(lims.begin() + static_cast<long>(r.below(lims.size())));
    Placed<T> lblk(N, false, r.below(16)), rblk(N, true, r.below(16));
    size_t lholds = m, rholds = m;
    std::optional<vrt::Box<B>> obj;
    size_t holds = m;
    const unsigned direct_kind = static_cast<unsigned>(i % N_BDIRECT);
    const size_t direct_n = r.chance(1, 3) ? SMAX : r.chance(1, 2) ? r.pick(hot) + 1 : N;
    const size_t fixed_holds = r.below(m);
    Placed<T> fixed(content[fixed_holds], true, r.below(16));            // a caller block that is NOT rewritten
    // one library call on the object holding value c (and the partner / the caller blocks), compared with the reference
    auto direct = [&](size_t c) {
        const B &o = **obj, &P = *partner;
        const BS &a = content[c], &b = content[p];
        const size_t nn = std::min(direct_n, N);
        long got = 0, want = 0;
        switch (direct_kind) {
        case B_COMPARE: got = sgn(o.compare(P)); want = ref_cmp(a, b); break;
        case B_COMPARE_REV: got = sgn(P.compare(o)); want = ref_cmp(b, a); break;
        case B_EQ: got = o == P; want = a == b; break;
        case B_NE: got = P != o; want = a != b; break;
        case B_LT: got = o < P; want = ref_cmp(a, b) < 0; break;
        case B_LT_REV: got = P < o; want = ref_cmp(b, a) < 0; break;
        case B_COMPARE_N: got = sgn(o.compare_n(P, direct_n)); want = ref_cmp(a, nn, b, nn); break;
        // the caller blocks, the right one rewritten in place with this value right before the call
        case B_STATIC: rblk.put(a.data()); rholds = c; if (lholds >= m) { lblk.put(b.data()); lholds = p; } got = sgn(B::compare(lblk.p, N, rblk.p, N)); want = ref_cmp(content[lholds], a); break;
        case B_STATIC_N: rblk.put(a.data()); rholds = c; if (lholds >= m) { lblk.put(b.data()); lholds = p; } got = sgn(B::compare(rblk.p, N, lblk.p, N, direct_n)); want = ref_cmp(a, nn, content[lholds], nn); break;
        case B_CSTR: rblk.put(a.data()); rholds = c; got = sgn(P.compare(rblk.p)); want = ref_cmp(b, a); break;
        case B_CSTR_N: rblk.put(a.data()); rholds = c; got = sgn(P.compare_n(rblk.p, direct_n)); want = ref_cmp(b, nn, a, nn); break;
        // the object against a caller block that stays as it is
        case B_OBJ_CSTR: got = sgn(o.compare(fixed.p)); want = ref_cmp(a, content[fixed_holds]); break;
        default: got = sgn(o.compare_n(fixed.p, direct_n)); want = ref_cmp(a, nn, content[fixed_holds], nn); break;
        }
        vrt::evals();
        if (got != want)
            vrt::violation(sfmt("C06:buffer<%s>:same-storage:%s", tn, bdirect_name[direct_kind]),
                           sfmt("got=%ld want=%ld n=%zu; a single call, the first after the same call on the predecessor;%s", got, want, direct_n, ctx().c_str()));
    };
    const size_t steps = m + (big ? 0 : r.below(3));
    for (size_t step = 0; step < steps; ++step) {
        const size_t c = step < m ? step : r.below(m);
        bool same_heap = false, same_obj = false;
        if (obj && !big && r.chance(1, 4)) {
            if (r.chance(1, 2)) **obj = B(content[c].data(), N);
            else { B src(content[c].data(), N); **obj = src; }
            same_obj = true;
            vrt::count("same_storage.buffer.successors_assigned_over");
        } else {
            const void *old_obj = obj ? static_cast<const void *>(obj->p) : nullptr;
            const void *old_heap = obj ? static_cast<const void *>((*obj)->data()) : nullptr;
            if (obj) { vrt::placement_force_parks() = 4; obj.reset(); }
            obj.emplace(content[c].data(), N);
            vrt::placement_force_parks() = 0;
            if (old_obj) {
                same_obj = obj->p == old_obj;
                same_heap = (*obj)->data() == old_heap;
                vrt::count("same_storage.buffer.successors_rebuilt");
                if (same_obj) vrt::count("same_storage.buffer.object_at_the_address_of_its_predecessor");
                if (same_heap) vrt::count("same_storage.buffer.heap_block_at_the_address_of_its_predecessor");
                if (same_heap && holds < m && content[holds] != content[c]) vrt::count("same_storage.buffer.different_value_in_the_same_heap_block");
            }
        }
        const std::string was = holds < m ? sfmt(" value #%zu after value #%zu (object %s, heap block %s address)", c, holds, same_obj ? "at the same" : "at another", same_heap ? "at the same" : "at another") : sfmt(" value #%zu, the first", c);
        const bool differs = holds < m && content[holds] != content[c];
        holds = c;
        ctx() = was + where;
        if (step > 0) {
            direct(c);
            if (differs && (same_heap || (direct_kind >= B_STATIC && direct_kind <= B_CSTR_N))) vrt::count(sfmt("same_storage.buffer.last_call_on_predecessor_is_first_on_successor.%s", bdirect_name[direct_kind]));
        }
        int order[3] = {0, 1, 2};
        for (int k = 3; k > 1; --k) std::swap(order[k - 1], order[r.below(static_cast<uint64_t>(k))]);
        for (int op : order) {
            ctx() = was + where;
            if (op == 0) buffer_objs<T>(tn, obj->p, content[c], partner.p, content[p], &lims, false);
            else if (op == 1) { if (!big) buffer_objs<T>(tn, partner.p, content[p], obj->p, content[c], &lims, false); }
            else {
                // both caller blocks rewritten in place
                size_t nl = r.below(m), nr = r.below(m);
                if (nl == lholds) nl = (nl + 1) % m;
                if (nr == rholds) nr = (nr + 1) % m;
                lblk.put(content[nl].data());
                rblk.put(content[nr].data());
                if (lholds < m) vrt::count("same_storage.caller_block_rewritten_in_place", 2);
                lholds = nl; rholds = nr;
                auto chk = [&](const char *what, int got, int w, size_t n) {
                    vrt::evals();
                    if (got != w)
                        vrt::violation(sfmt("C06:buffer<%s>:%s", tn, what), sfmt("got=%d want=%d n=%zu; caller blocks (rewritten in place, addresses = %u and %u modulo 16) hold values #%zu and #%zu; object holds%s%s",
                                                                                 got, w, n, lblk.mod16(), rblk.mod16(), nl, nr, was.c_str(), where.c_str()));
                };
                const int want = ref_cmp(content[nl], content[nr]);
                chk("compare:static:caller-storage", sgn(B::compare(lblk.p, N, rblk.p, N)), want, SMAX);
                chk("compare:static:caller-storage:antisymmetry", sgn(B::compare(rblk.p, N, lblk.p, N)), -want, SMAX);
                chk("compare:cstr:caller-storage", sgn((*obj)->compare(rblk.p)), ref_cmp(content[c], content[nr]), SMAX);
                chk("compare:cstr:caller-storage", sgn(partner->compare(rblk.p)), ref_cmp(content[p], content[nr]), SMAX);
                for (size_t n : lims) {
                    const size_t nn = std::min(n, N);
                    chk("compare_n:static:caller-storage", sgn(B::compare(lblk.p, N, rblk.p, N, n)), ref_cmp(content[nl], nn, content[nr], nn), n);
                    chk("compare_n:cstr:caller-storage", sgn((*obj)->compare_n(rblk.p, n)), ref_cmp(content[c], nn, content[nr], nn), n);
                }
            }
        }
        ctx() = was + where;
        direct(c);
        vrt::count("same_storage.buffer.values");
    }
    ctx().clear();
    vrt::count(std::string("same_storage.buffer.cases.") + tn);
    if (big) vrt::count("same_storage.buffer.cases_of_1MiB");
    vrt::distinct(vrt::fnv1a(content[m - 1].data(), N * sizeof(T), vrt::fnv_str(tn, 44)));
}

template <typename T>
static void buffer_phase(const char *tn, std::vector<T> alpha)
{
    alpha.erase(std::remove(alpha.begin(), alpha.end(), T()), alpha.end());
    const std::string name = std::string("same_storage_buffer_") + tn;
    vrt::require(std::string("same_storage.buffer.cases.") + tn, std::max<uint64_t>(1, static_cast<uint64_t>(240 * std::min(1.0, vrt::opt().scale))));
    vrt::phase(name.c_str(), vrt::tier_count(240, 240 * 20), [&](uint64_t i, Rng &r) { buffer_case<T>(tn, alpha, i, r); });
}

} // namespace ss

// ---------------------------------------------------------------- soak phase
// More than 70000 consecutive calls of every entry-point family inside ONE case (one process, one thread) on strings of
// 64..300 bytes: families of 8 texts of one length (the base text, an equal one, a fold-equal one, one that differs in the
// middle, one that differs by a byte >= 0x80 in its last 1..7 bytes, one that differs at index 8..15, a proper prefix, one that
// differs in case only in its last 1..7 bytes), an equal string per text built elsewhere and kept alive (what a fresh object
// hashes to must be what that one hashed to), the left operand rebuilt for every call (at the address of its predecessor when
// the size is the same), the C-string operand in a per-family caller block rewritten in place.  Runs of 64..300 calls with
// the same (pure ASCII, equal) arguments are followed directly by one whose operand differs only at its very end.
namespace soak {

enum { MEMBERS = 8, FAMILIES = 24 };
struct Family {
    size_t len;
    bool ascii;
    S text[MEMBERS];
    int sign[MEMBERS][MEMBERS];
    bool feq[MEMBERS][MEMBERS];
    size_t H[MEMBERS], HI[MEMBERS];
    std::unique_ptr<vrt::Box<ST::string>> tw[MEMBERS];
    std::unique_ptr<Placed<char>> full, shorter;
};

static void one_case(uint64_t, Rng &r)
{
    const uint64_t NIT = vrt::thorough() ? 150000 : 72000;
    std::vector<Family> fam(FAMILIES);
    for (size_t f = 0; f < FAMILIES; ++f) {
        Family &F = fam[f];
        F.len = 64 + r.below(237);
        F.ascii = f % 3 == 0;
        S base = F.ascii ? S(F.len, 'x') : sc::background(r, F.len, static_cast<unsigned>(1 + r.below(5)));
        if (F.ascii) for (auto &c : base) c = static_cast<char>('a' + r.below(26));
        const size_t L = F.len, mid = 16 + r.below(L - 32), tail = 1 + r.below(7);
        base[mid] = 'm'; base[L - tail] = 'q'; base[8 + f % 8] = 'k';
        for (auto &t : F.text) t = base;
        for (size_t k = 16; k + 16 < L; k += 1 + r.below(9)) if (sc::is_letter(static_cast<unsigned char>(base[k]))) F.text[2][k] ^= 0x20;
        F.text[2][mid] = 'M';
        F.text[3][mid] = r.chance(1, 2) ? 'p' : 'c';
        F.text[4][L - tail] = static_cast<char>(0xC0 + r.below(0x40));
        F.text[5][8 + f % 8] = r.chance(1, 2) ? 'z' : 'K';
        F.text[6] = base.substr(0, L - 1 - r.below(9));
        F.text[7][L - tail] = 'Q';
        for (int x = 0; x < MEMBERS; ++x) {
            F.tw[x].reset(new vrt::Box<ST::string>(vrt::mk(F.text[x])));
            F.H[x] = ST::hash()(**F.tw[x]);
            F.HI[x] = ST::hash_i()(**F.tw[x]);
            for (int y = 0; y < MEMBERS; ++y) { F.sign[x][y] = ref::compare(F.text[x], F.text[y]); F.feq[x][y] = ref::folded(F.text[x]) == ref::folded(F.text[y]); }
        }
        F.full.reset(new Placed<char>(L, true, r.below(16)));
        F.shorter.reset(new Placed<char>(F.text[6].size(), true, r.below(16)));
    }
    uint64_t n_compare = 0, n_compare_i = 0, n_hash = 0, n_hash_i = 0, n_cstr = 0, n_n = 0, n_rebuilt_same_heap = 0, n_runs = 0, n_after_run = 0, n_block_rewrites = 0, n_static = 0;
    std::optional<vrt::Box<ST::string>> obj;
    size_t cur_f = FAMILIES, cur_x = 0;
    uint64_t t = 0;
    auto fail = [&](const char *what, size_t f, int x, int y, long got, long want, const std::string &extra) {
        vrt::violation(sfmt("C06:%s", what), sfmt("a=%s b=%s got=%ld want=%ld %s [soak: call group %llu of the case, texts %d and %d of a family of %zu-byte texts]", show(fam[f].text[x]).c_str(), show(fam[f].text[y]).c_str(),
                                                  got, want, extra.c_str(), static_cast<unsigned long long>(t), x, y, fam[f].len));
    };
#define SOAK(what, got, want, extra) do { const long g__ = static_cast<long>(got), w__ = static_cast<long>(want); if (g__ != w__) fail(what, f, x, y, g__, w__, extra); } while (0)
    // one group of calls: the object holds text x of family f (rebuilt when asked), the right operand is the string built
    // elsewhere for text y, the C string is the family's caller block holding text y
    auto group = [&](size_t f, int x, int y, bool rebuild) {
        Family &F = fam[f];
        if (rebuild || !obj || cur_f != f || cur_x != static_cast<size_t>(x)) {
            const void *old_heap = obj ? static_cast<const void *>((*obj)->c_str()) : nullptr;
            const bool same_size = obj && (*obj)->size() == F.text[x].size();
            if (obj) { if (same_size) vrt::placement_force_parks() = 4; obj.reset(); }
            obj.emplace(vrt::mk(F.text[x]));
            vrt::placement_force_parks() = 0;
            if (old_heap && (*obj)->c_str() == old_heap) ++n_rebuilt_same_heap;
            cur_f = f; cur_x = static_cast<size_t>(x);
        }
        const ST::string &o = **obj, &w = **F.tw[y];
        Placed<char> &blk = y == 6 ? *F.shorter : *F.full;
        if (memcmp(blk.p, F.text[y].data(), F.text[y].size()) != 0 || t == 0) { blk.put(F.text[y].data()); ++n_block_rewrites; }
        const int want = F.sign[x][y];
        const bool feq = F.feq[x][y];
        const bool hash_first = (t & 1) != 0;
        // ONE call of the entry point of the current stretch is the first and the last thing a group does, so that it runs
        // back to back on a predecessor and its successor
        const unsigned echo_kind = static_cast<unsigned>((t / 512) % 13);
        const size_t echo_n = 8 + (t / 512) % 60;
        auto echo = [&]() {
            const size_t ea = std::min(echo_n, F.text[x].size()), eb = std::min(echo_n, F.text[y].size());
            switch (echo_kind) {
            case 0: SOAK("compare:sign", sgn(o.compare(w)), want, "back to back"); break;
            case 1: SOAK("compare:antisymmetry", sgn(w.compare(o)), -want, "back to back"); break;
            case 2: SOAK("operator==", o == w, want == 0, "back to back"); break;
            case 3: SOAK("operator<", o < w, want < 0, "back to back"); break;
            case 4: SOAK("compare_i:zero-iff-fold-equal", o.compare_i(w) == 0, feq, "back to back"); break;
            case 5: SOAK("equal_i", ST::equal_i()(w, o), feq, "back to back"); break;
            case 6: SOAK("less_i:irreflexive-on-fold-equal", ST::less_i()(w, o) && feq, 0, "back to back"); break;
            case 7: SOAK("compare:cstr:caller-storage", sgn(o.compare(blk.p)), want, "back to back"); break;
            case 8: SOAK("compare_i:cstr:caller-storage:zero-iff-fold-equal", o.compare_i(blk.p) == 0, feq, "back to back"); break;
            case 9: SOAK("hash:equal-string-built-elsewhere", ST::hash()(o) == F.H[x], 1, "back to back"); break;
            case 10: SOAK("hash_i:equal-string-built-elsewhere", ST::hash_i()(o) == F.HI[x], 1, "back to back"); break;
            case 11: SOAK("compare_n:sign", sgn(o.compare_n(w, echo_n)), prefix_compare(F.text[x], ea, F.text[y], eb), sfmt("back to back, n=%zu", echo_n)); break;
            default: SOAK("compare_ni:cstr:caller-storage:zero-iff-fold-equal", o.compare_ni(blk.p, echo_n) == 0, prefix_fold_equal(F.text[x], ea, F.text[y], eb), sfmt("back to back, n=%zu", echo_n)); break;
            }
        };
        echo();
        if (hash_first) { SOAK("hash:equal-string-built-elsewhere", ST::hash()(o) == F.H[x], 1, ""); SOAK("hash_i:equal-string-built-elsewhere", ST::hash_i()(o) == F.HI[x], 1, ""); }
        SOAK("compare:sign", sgn(o.compare(w)), want, "");
        SOAK("compare:antisymmetry", sgn(w.compare(o)), -want, "");
        SOAK("operator==", o == w, want == 0, "");
        SOAK("operator!=", o != w, want != 0, "");
        SOAK("operator<", o < w, want < 0, "");
        const int ci = sgn(o.compare_i(w));
        SOAK("compare_i:zero-iff-fold-equal", ci == 0, feq, "");
        SOAK("compare_i:antisymmetry", sgn(w.compare_i(o)), -ci, "");
        SOAK("equal_i", ST::equal_i()(o, w), feq, "");
        SOAK("less_i", ST::less_i()(o, w), ci < 0, "");
        SOAK("compare:cstr:caller-storage", sgn(o.compare(blk.p)), want, "");
        SOAK("operator==:cstr:caller-storage", o == blk.p, want == 0, "");
        SOAK("compare_i:cstr:caller-storage:string-overload-agrees", sgn(o.compare_i(blk.p)), ci, "");
        SOAK("compare_i:char8_t:caller-storage:string-overload-agrees", sgn(o.compare_i(reinterpret_cast<const char8_t *>(blk.p))), ci, "");
        size_t n;
        switch (r.below(4)) { case 0: n = SMAX; break; case 1: n = F.len - r.below(10); break; case 2: n = 8 + r.below(9); break; default: n = r.below(F.len + 2); break; }
        const size_t na = std::min(n, F.text[x].size()), nb = std::min(n, F.text[y].size());
        const int wn = prefix_compare(F.text[x], na, F.text[y], nb);
        const bool fn = prefix_fold_equal(F.text[x], na, F.text[y], nb);
        SOAK("compare_n:sign", sgn(o.compare_n(w, n)), wn, sfmt("n=%zu", n));
        SOAK("compare_n:cstr:caller-storage", sgn(o.compare_n(blk.p, n)), wn, sfmt("n=%zu", n));
        SOAK("compare_ni:zero-iff-fold-equal", o.compare_ni(w, n) == 0, fn, sfmt("n=%zu", n));
        SOAK("compare_ni:cstr:caller-storage:zero-iff-fold-equal", o.compare_ni(blk.p, n) == 0, fn, sfmt("n=%zu", n));
        SOAK("buffer<char>:compare:static:caller-storage", sgn(ST::char_buffer::compare(o.c_str(), o.size(), blk.p, F.text[y].size())), want, "");
        SOAK("buffer<char>:compare_n:static:caller-storage", sgn(ST::char_buffer::compare(blk.p, F.text[y].size(), o.c_str(), o.size(), n)), -wn, sfmt("n=%zu", n));
        if (!hash_first) { SOAK("hash:equal-string-built-elsewhere", ST::hash()(o) == F.H[x], 1, ""); SOAK("hash_i:equal-string-built-elsewhere", ST::hash_i()(o) == F.HI[x], 1, ""); }
        if ((t & 63) == 0) { SOAK("hash:same-object-twice", ST::hash()(w) == F.H[y], 1, ""); SOAK("hash_i:same-object-twice", ST::hash_i()(w) == F.HI[y], 1, ""); }
        echo();
        vrt::evals(29);
        n_compare += 5; n_compare_i += 4; n_hash += 1; n_hash_i += 1; n_cstr += 4; n_n += 4; n_static += 2;
        ++t;
    };
#undef SOAK
    while (t < NIT) {
        if (r.chance(1, 700)) {
            // a run of identical calls on pure-ASCII, equal operands, then one that differs only at its very end - in the
            // same object storage (the successor has the same size) and in the same caller block
            size_t f = 3 * r.below(FAMILIES / 3);
            const int y = r.chance(3, 4) ? 1 : 0;
            const size_t run = 64 + r.below(237);
            vrt::cur_printf("soak: call group %llu: %zu groups on the same equal operands of %zu bytes\n", static_cast<unsigned long long>(t), run, fam[f].len);
            for (size_t k = 0; k < run; ++k) group(f, 0, y, false);
            static const int interesting[] = {4, 7, 4, 7, 3, 2};
            const int x2 = r.pick(interesting);
            group(f, x2, y, true);
            group(f, 0, r.chance(1, 2) ? x2 : 7, r.chance(1, 2));
            ++n_runs;
            n_after_run += 2;
            continue;
        }
        const size_t f = r.chance(1, 3) && cur_f < FAMILIES ? cur_f : r.below(FAMILIES);
        group(f, static_cast<int>(r.below(MEMBERS)), static_cast<int>(r.below(MEMBERS)), true);
    }
    obj.reset();
    vrt::count("soak.cases");
    vrt::count("soak.call_groups", t);
    vrt::count("soak.compare_calls", n_compare);
    vrt::count("soak.compare_i_calls", n_compare_i);
    vrt::count("soak.hash_calls", n_hash);
    vrt::count("soak.hash_i_calls", n_hash_i);
    vrt::count("soak.cstr_calls", n_cstr);
    vrt::count("soak.compare_n_calls", n_n);
    vrt::count("soak.static_buffer_compare_calls", n_static);
    vrt::count("soak.left_operand_rebuilt_in_the_heap_block_of_its_predecessor", n_rebuilt_same_heap);
    vrt::count("soak.runs_of_identical_calls", n_runs);
    vrt::count("soak.calls_directly_after_a_run", n_after_run);
    vrt::count("soak.caller_block_rewritten_in_place", n_block_rewrites);
    if (t > 70000) vrt::count("soak.cases_with_more_than_70000_consecutive_calls_per_family");
    vrt::distinct(vrt::fnv1a(fam[0].text[0].data(), fam[0].len, 45));
    if (vrt::want_sample("soak"))
        vrt::sample("soak", sfmt("%llu consecutive call groups in one process (each: compare / == / != / < / compare_i / equal_i / less_i / hash / hash_i / compare_n / compare_ni on ST::string operands, the const char* "
                                 "forms on a caller block rewritten in place, the static buffer compare) over 24 families of 8 texts of 64..300 bytes; %llu runs of 64..300 identical calls each followed by a call "
                                 "whose operand differs only at its very end", static_cast<unsigned long long>(t), static_cast<unsigned long long>(n_runs)));
}

} // namespace soak

static void history_phases()
{
    auto need = [](uint64_t n) { const double f = std::min(1.0, vrt::opt().scale); return std::max<uint64_t>(1, static_cast<uint64_t>(static_cast<double>(n) * f)); };
    const std::vector<char> ac = {'x', 'A', 'a', 0x7f, char(0x80), char(0xff), 1};
    const std::vector<wchar_t> aw = {L'x', 1, L'A', 0x7f, 0x80, 0xff, 0xd800, 0xffff, 0x10ffff};
    const std::vector<char16_t> a16 = {u'x', 1, u'A', 0x7f, 0x80, 0xff, 0xd800, 0x8000, 0xffff};
    const std::vector<char32_t> a32 = {U'x', 1, U'A', 0x7f, 0x80, 0xffff, 0x10ffff, 0x7fffffff, 0x80000000u, 0xffffffffu};

    // ---- alignment
    vrt::require("alignment.string.cases", need(260));
    vrt::require("alignment.string.pointer_operands", need(500000));
    vrt::require("alignment.string.first_difference_at_index_8..16", need(10000));
    vrt::require("alignment.string.first_difference_in_the_last_16", need(10000));
    vrt::require("alignment.string.fold_equal_pairs", need(3000));
    for (unsigned k = 0; k < 16; ++k) vrt::require(sfmt("alignment.string.operand_at_address_mod16=%02u", k), need(30000));
    for (unsigned v = 0; v < al::N_VARIANTS; ++v) vrt::require(sfmt("alignment.string.difference.%s", al::variant_name[v]), need(2000));
    vrt::require("alignment.buffer.pairs", need(20000));
    vrt::require("alignment.buffer.calls", need(1000000));
    vrt::note("alignment: operands of 16..80 units with identical first 8 bytes whose first (real / case-only / bit-0x20 / high-byte / length) difference sits at each index from 8 on (8..16 "
              "and the last 16 included for every length); the const char* / char8_t* operand (strings) and both (pointer, length) operands (buffers) at every start address modulo 16 in blocks that end where the "
              "data ends; results against the reference and against the overload that takes the object holding the same bytes");
    vrt::phase("alignment", vrt::tier_count(260, 260 * 16), al::string_case);
    al::buffer_phase<char>("char", ac);
    al::buffer_phase<wchar_t>("wchar_t", aw);
    al::buffer_phase<char16_t>("char16_t", a16);
    al::buffer_phase<char32_t>("char32_t", a32);

    // ---- same_storage
    vrt::require("same_storage.string.cases", need(800));
    vrt::require("same_storage.string.texts", need(3000));
    vrt::require("same_storage.string.pairs", need(7500));
    vrt::require("same_storage.string.successors_rebuilt", need(1800));
    vrt::require("same_storage.string.successors_assigned_over", need(300));
    vrt::require("same_storage.string.object_at_the_address_of_its_predecessor", need(1500));
    vrt::require("same_storage.string.heap_block_at_the_address_of_its_predecessor", need(1500));
    vrt::require("same_storage.string.different_text_in_the_same_heap_block", need(1000));
    for (unsigned k = 0; k < ss::N_DIRECT; ++k) vrt::require(sfmt("same_storage.string.last_call_on_predecessor_is_first_on_successor.%s", ss::direct_name[k]), need(25));
    vrt::require("same_storage.string.same_text_again", need(180));
    vrt::require("same_storage.string.fold_equal_successors", need(450));
    vrt::require("same_storage.string.cases_of_1MiB", need(12));
    vrt::require("same_storage.string.heap_block_of_1MiB_at_the_address_of_its_predecessor", need(10));
    vrt::require("same_storage.caller_block_rewritten_in_place", need(2000));
    vrt::require("same_storage.buffer.values", need(3200));
    vrt::require("same_storage.buffer.successors_rebuilt", need(1600));
    vrt::require("same_storage.buffer.successors_assigned_over", need(300));
    vrt::require("same_storage.buffer.object_at_the_address_of_its_predecessor", need(1400));
    vrt::require("same_storage.buffer.heap_block_at_the_address_of_its_predecessor", need(1400));
    vrt::require("same_storage.buffer.different_value_in_the_same_heap_block", need(900));
    vrt::require("same_storage.buffer.cases_of_1MiB", need(24));
    for (unsigned k = 0; k < ss::N_BDIRECT; ++k) vrt::require(sfmt("same_storage.buffer.last_call_on_predecessor_is_first_on_successor.%s", ss::bdirect_name[k]), need(25));
    vrt::note("same_storage: 3..6 texts / buffer values of identical size (64 .. 5000 units, some of 1 MiB) with the same first and last 16 units, one after the other in the same object block and "
              "heap block (forced re-issue) or assigned over, C-string and (pointer, length) operands in caller blocks rewritten in place; hash / hash_i / std::hash of each successor against "
              "an equal string built elsewhere, order and equality against a fixed partner through the per-pair monitors, operations in an order that changes from text to text");
    vrt::phase("same_storage", vrt::tier_count(864, 864 * 20), ss::string_case);
    ss::buffer_phase<char>("char", ac);
    ss::buffer_phase<wchar_t>("wchar_t", aw);
    ss::buffer_phase<char16_t>("char16_t", a16);
    ss::buffer_phase<char32_t>("char32_t", a32);

    // ---- soak
    const uint64_t ncases = vrt::tier_count(16, 64);
    vrt::require("soak.cases", need(ncases));
    vrt::require("soak.cases_with_more_than_70000_consecutive_calls_per_family", need(ncases));
    vrt::require("soak.hash_calls", need(ncases * 70000));
    vrt::require("soak.hash_i_calls", need(ncases * 70000));
    vrt::require("soak.compare_calls", need(ncases * 70000));
    vrt::require("soak.compare_i_calls", need(ncases * 70000));
    vrt::require("soak.cstr_calls", need(ncases * 70000));
    vrt::require("soak.left_operand_rebuilt_in_the_heap_block_of_its_predecessor", need(ncases * 5000));
    vrt::require("soak.runs_of_identical_calls", need(ncases * 20));
    vrt::require("soak.caller_block_rewritten_in_place", need(ncases * 20000));
    vrt::note("soak: more than 70000 consecutive call groups per case (one process) on strings of 64..300 bytes, every result against the reference / against an equal string built elsewhere");
    vrt::phase("soak", ncases, soak::one_case);
}

static void body()
{
    ambient::enable(3);
    vrt::require("string.pairs", 10000);
    vrt::require("string.fold_equal_pairs", 100);
    vrt::require("string.triples", 3000);
    vrt::require("huge.calls", 100);
    vrt::require("buffer.pairs_with_history", 4000);
    vrt::require("buffer.equal_values_with_history", 7000);
    vrt::require("buffer.pairs.char", 1000);
    vrt::require("buffer.pairs.wchar_t", 1000);
    vrt::require("buffer.pairs.char16_t", 1000);
    vrt::require("buffer.pairs.char32_t", 1000);
    vrt::require("casemap.strings", 100);
    vrt::require("string.locale_sensitive_pairs_under_hostile_locale", 1000);
    vrt::require("casemap.strings_under_hostile_locale", 20);

    S alpha;
    for (int c : {0x00, 0x01, 0x40, 0x41, 0x5A, 0x5B, 0x60, 0x61, 0x7A, 0x7B, 0x7F, 0x80, 0xC3, 0xFF}) alpha.push_back(static_cast<char>(c));
    const size_t L = vrt::thorough() ? 3 : 2;
    const uint64_t n = gen::count_strings(alpha.size(), L);
    vrt::note(sfmt("all ordered pairs of the %llu strings of length <= %zu over {00,01,'@','A','Z','[','`','a','z','{',7F,80,C3,FF}, every prefix limit n", static_cast<unsigned long long>(n), L));

    vrt::phase("string_pairs", n, [&](uint64_t i, Rng &) {
        S a, b;
        gen::nth_string(i, alpha, L, a);
        vrt::Box<ST::string> sa(vrt::mk(a));
        for (uint64_t j = 0; j < n; ++j) {
            gen::nth_string(j, alpha, L, b);
            vrt::Box<ST::string> sb(vrt::mk(b));
            string_pair(*sa, a, *sb, b, true);
            vrt::count("string.pairs");
            if (ref::folded(a) == ref::folded(b) && a != b) vrt::count("string.fold_equal_pairs");
        }
        case_map(*sa, a);
        vrt::count("casemap.strings");
        vrt::distinct(vrt::fnv1a(a.data(), a.size(), 31));
        if (vrt::want_sample("string_pairs") && a.size() == L) vrt::sample("string_pairs", sfmt("a=%s against all %llu strings b, n in 0..%zu and SIZE_MAX", show(a).c_str(), static_cast<unsigned long long>(n), L + 1));
    });

    // transitivity of the case-insensitive preorder (case-sensitive transitivity follows
    // from agreement with the reference total order on every pair)
    {
        const size_t L2 = vrt::thorough() ? 2 : 1;
        const uint64_t m = gen::count_strings(alpha.size(), L2);
        vrt::phase("ci_triples", m, [&](uint64_t i, Rng &) {
            std::vector<S> strs(m);
            std::vector<ST::string> sts;
            for (uint64_t k = 0; k < m; ++k) { gen::nth_string(k, alpha, L2, strs[k]); sts.push_back(vrt::mk(strs[k])); }
            std::vector<signed char> row(m), mat(m * m);
            for (uint64_t j = 0; j < m; ++j)
                for (uint64_t k = 0; k < m; ++k) mat[j * m + k] = static_cast<signed char>(sgn(sts[j].compare_i(sts[k])));
            for (uint64_t j = 0; j < m; ++j)
                for (uint64_t k = 0; k < m; ++k) {
                    vrt::evals();
                    if (mat[i * m + j] <= 0 && mat[j * m + k] <= 0 && mat[i * m + k] > 0)
                        vrt::violation("C06:compare_i:transitivity", sfmt("a=%s b=%s c=%s: a<=b, b<=c but a>c", show(strs[i]).c_str(), show(strs[j]).c_str(), show(strs[k]).c_str()));
                    // cs transitivity observed directly as well
                    if (sts[i].compare(sts[j]) <= 0 && sts[j].compare(sts[k]) <= 0 && sts[i].compare(sts[k]) > 0)
                        vrt::violation("C06:compare:transitivity", sfmt("a=%s b=%s c=%s", show(strs[i]).c_str(), show(strs[j]).c_str(), show(strs[k]).c_str()));
                }
            vrt::count("string.triples", m * m);
        });
    }

    // random pairs / triples up to length 40 sharing long prefixes, straddling the SSO limit
    vrt::phase("string_random", vrt::tier_count(1000000, 6000000), [&](uint64_t, Rng &r) {
        S p = gen::bytes_over(r, gen::pick_len(r) % 40, alpha);
        S a = p + gen::bytes_over(r, r.below(3), alpha), b = p + gen::bytes_over(r, r.below(3), alpha), c = p + gen::bytes_over(r, r.below(3), alpha);
        if (r.chance(1, 4)) b = r.chance(1, 2) ? ref::uppered(a) : ref::folded(a);
        if (r.chance(1, 6)) { a = gen::any_bytes(r, r.below(20)); b = a.substr(0, r.below(a.size() + 1)) + gen::any_bytes(r, r.below(3)); }
        vrt::Box<ST::string> sa(vrt::mk(a)), sb(vrt::mk(b)), sc(vrt::mk(c));
        string_pair(*sa, a, *sb, b, r.chance(1, 4));
        vrt::count("string.pairs");
        if (ref::folded(a) == ref::folded(b) && a != b) vrt::count("string.fold_equal_pairs");
        int ab = sgn(sa->compare_i(*sb)), bc = sgn(sb->compare_i(*sc)), ac = sgn(sa->compare_i(*sc));
        vrt::evals(3);
        if ((ab <= 0 && bc <= 0 && ac > 0) || (ab >= 0 && bc >= 0 && ac < 0))
            vrt::violation("C06:compare_i:transitivity", sfmt("a=%s b=%s c=%s", show(a).c_str(), show(b).c_str(), show(c).c_str()));
        vrt::count("string.triples");
        if (r.chance(1, 8)) { case_map(*sa, a); vrt::count("casemap.strings"); }
        vrt::distinct(vrt::fnv1a(b.data(), b.size(), vrt::fnv1a(a.data(), a.size(), 32)));
        if (vrt::want_sample("string_random") && a.size() > 17) vrt::sample("string_random", sfmt("a=%s b=%s c=%s", show(a).c_str(), show(b).c_str(), show(c).c_str()));
    });

    // case mapping over every single byte at every position of a short and a long string
    vrt::phase("casemap_bytes", 256, [&](uint64_t byte, Rng &) {
        for (size_t len : {1, 15, 16, 17, 40}) {
            for (size_t pos : {static_cast<size_t>(0), len / 2, len - 1}) {
                S a(len, 'm');
                a[pos] = static_cast<char>(byte);
                vrt::Box<ST::string> sa(vrt::mk(a));
                case_map(*sa, a);
                vrt::count("casemap.strings");
            }
        }
        vrt::distinct(vrt::fnv_u64(byte, 33));
    });

    // the bytes a hostile global locale treats differently (Latin-1 style letters 0xC0..0xFE and their bit-0x20 twins,
    // Turkish-style I / i): all ordered pairs of the strings of length <= 2 over them, one case in three under that locale
    {
        const S lal = "Ii\xc3\xe3\xdd\xfd\xdf\xffk";
        const uint64_t ln = gen::count_strings(lal.size(), 2);
        vrt::require("string.locale_sensitive_pairs", 5000);
        vrt::phase("string_pairs_locale_sensitive", ln * 3, [&](uint64_t i, Rng &) {
            S a, b;
            gen::nth_string(i % ln, lal, 2, a);
            vrt::Box<ST::string> sa(vrt::mk(a));
            for (uint64_t j = 0; j < ln; ++j) {
                gen::nth_string(j, lal, 2, b);
                vrt::Box<ST::string> sb(vrt::mk(b));
                string_pair(*sa, a, *sb, b, true);
                vrt::count("string.pairs");
                vrt::count("string.locale_sensitive_pairs");
                if (ambient::is_hostile()) vrt::count("string.locale_sensitive_pairs_under_hostile_locale");
            }
            case_map(*sa, a);
            vrt::count("casemap.strings");
            if (ambient::is_hostile()) vrt::count("casemap.strings_under_hostile_locale");
            vrt::distinct(vrt::fnv1a(a.data(), a.size(), 36));
        });
    }

    scale_phases();
    history_phases();

    buffer_phase<char>("char", std::vector<char>{0, 1, 'A', 'a', 0x7f, static_cast<char>(0x80), static_cast<char>(0xff)});
    buffer_phase<wchar_t>("wchar_t", std::vector<wchar_t>{0, 1, L'A', 0x7f, 0x80, 0xff, 0xd800, 0xffff, 0x10ffff});
    buffer_phase<char16_t>("char16_t", std::vector<char16_t>{0, 1, u'A', 0x7f, 0x80, 0xff, 0xd800, 0x8000, 0xffff});
    buffer_phase<char32_t>("char32_t", std::vector<char32_t>{0, 1, U'A', 0x7f, 0x80, 0xffff, 0x10ffff, 0x7fffffff, 0x80000000u, 0xffffffffu});
    huge_case_insensitive();
    vrt::alloc::check_pairing("order");
}

VRT_MAIN(body)
