// C06 - compare is a total order; operators, overloads and hashes agree.
#include "vrt.h"
#include <memory>
#include "vrt_alloc.h"
#include "vrt_st.h"
#include "ref_text.h"
#include "gen_text.h"

using vrt::Rng;
using vrt::sfmt;
typedef std::string S;
static const size_t SMAX = static_cast<size_t>(-1);

static std::string show(const S &s) { return vrt::hex(s.data(), s.size()); }
static int sgn(long v) { return v < 0 ? -1 : v > 0 ? 1 : 0; }
static S cut_at_nul(const S &s) { size_t z = s.find('\0'); return z == S::npos ? s : s.substr(0, z); }

static void bad(const char *what, const S &a, const S &b, const std::string &extra)
{
    vrt::violation(sfmt("C06:%s", what), sfmt("a=%s b=%s %s", show(a).c_str(), show(b).c_str(), extra.c_str()));
}

#define EXPECT_EQ(what, got, want, extra)                                                          \
    do {                                                                                            \
        long g__ = static_cast<long>(got), w__ = static_cast<long>(want);                           \
        vrt::evals();                                                                               \
        if (g__ != w__) bad(what, a, b, sfmt("got=%ld want=%ld %s", g__, w__, std::string(extra).c_str())); \
    } while (0)

// all agreement checks for one ordered pair of ST::strings
static void string_pair(const ST::string &sa, const S &a, const ST::string &sb, const S &b, bool with_n)
{
    const int want = ref::compare(a, b);
    const int c = sgn(sa.compare(sb));
    EXPECT_EQ("compare:sign", c, want, "");
    EXPECT_EQ("compare:antisymmetry", sgn(sb.compare(sa)), -c, "");
    EXPECT_EQ("operator==", sa == sb, want == 0, "");
    EXPECT_EQ("operator!=", sa != sb, want != 0, "");
    EXPECT_EQ("operator<", sa < sb, want < 0, "");
    EXPECT_EQ("compare:explicit-cs", sgn(sa.compare(sb, ST::case_sensitive)), want, "");
    // const char* overloads see b up to its first NUL
    const S bc = cut_at_nul(b);
    const int wantc = ref::compare(a, bc);
    EXPECT_EQ("compare:cstr", sgn(sa.compare(sb.c_str())), wantc, "");
    EXPECT_EQ("compare:char8_t", sgn(sa.compare(sb.u8_str())), wantc, "");
    EXPECT_EQ("operator==:cstr", sa == sb.c_str(), wantc == 0, "");
    EXPECT_EQ("operator!=:cstr", sa != sb.c_str(), wantc != 0, "");
    EXPECT_EQ("operator==:char8_t", sa == sb.u8_str(), wantc == 0, "");
    EXPECT_EQ("operator!=:char8_t", sa != sb.u8_str(), wantc != 0, "");
    // ... also when the C string handed in is the object's own c_str(): it still names only the text up to the first NUL
    {
        const S ac = cut_at_nul(a);
        const int wown = ref::compare(a, ac);
        EXPECT_EQ("compare:own-c_str", sgn(sa.compare(sa.c_str())), wown, "");
        EXPECT_EQ("operator==:own-c_str", sa == sa.c_str(), wown == 0, "");
        EXPECT_EQ("operator!=:own-c_str", sa != sa.c_str(), wown != 0, "");
        EXPECT_EQ("compare:own-u8_str", sgn(sa.compare(sa.u8_str())), wown, "");
        EXPECT_EQ("compare_i:own-c_str:zero-iff-fold-equal", sa.compare_i(sa.c_str()) == 0, ac.size() == a.size(), "");
        EXPECT_EQ("compare_n:own-c_str", sgn(sa.compare_n(sa.c_str(), a.size() + 1)), wown, "");
        EXPECT_EQ("compare:self", sa.compare(sa), 0, "");
        // the same object on both sides of every comparison
        EXPECT_EQ("compare_i:self", sa.compare_i(sa), 0, "");
        EXPECT_EQ("operator==:self", sa == sa, true, "");
        EXPECT_EQ("operator!=:self", sa != sa, false, "");
        EXPECT_EQ("operator<:self", sa < sa, false, "");
        EXPECT_EQ("equal_i:self", ST::equal_i()(sa, sa), true, "");
        EXPECT_EQ("less_i:self", ST::less_i()(sa, sa), false, "");
        EXPECT_EQ("compare_n:self", sa.compare_n(sa, a.size() / 2 + 1), 0, "");
        EXPECT_EQ("compare_ni:self", sa.compare_ni(sa, a.size() + 1), 0, "");
    }
    // case-insensitive: zero exactly for fold-equal, antisymmetric, overloads agree
    const S fa = ref::folded(a), fb = ref::folded(b);
    const int ci = sgn(sa.compare_i(sb));
    EXPECT_EQ("compare_i:zero-iff-fold-equal", ci == 0, fa == fb, "");
    EXPECT_EQ("compare_i:antisymmetry", sgn(sb.compare_i(sa)), -ci, "");
    EXPECT_EQ("compare:ci-param", sgn(sa.compare(sb, ST::case_insensitive)), ci, "");
    EXPECT_EQ("less_i", ST::less_i()(sa, sb), ci < 0, "");
    EXPECT_EQ("equal_i", ST::equal_i()(sa, sb), ci == 0, "");
    if (bc.size() == b.size()) {
        EXPECT_EQ("compare_i:cstr", sgn(sa.compare_i(sb.c_str())), ci, "");
        EXPECT_EQ("compare_i:char8_t", sgn(sa.compare_i(sb.u8_str())), ci, "");
        EXPECT_EQ("compare:cstr-ci-param", sgn(sa.compare(sb.c_str(), ST::case_insensitive)), ci, "");
    } else {
        EXPECT_EQ("compare_i:cstr:zero-iff-fold-equal", sa.compare_i(sb.c_str()) == 0, fa == ref::folded(bc), "");
    }
    // deprecated null_t comparisons mean "is empty"
    EXPECT_EQ("operator==(null_t) [deprecated]", sa == ST::null_t(), a.empty(), "");
    EXPECT_EQ("operator!=(null_t) [deprecated]", sa != ST::null_t(), !a.empty(), "");
    EXPECT_EQ("null_t==string [deprecated]", ST::null_t() == sb, b.empty(), "");
    EXPECT_EQ("null_t!=string [deprecated]", ST::null_t() != sb, !b.empty(), "");
    // hashes
    if (want == 0) EXPECT_EQ("hash:equal-strings", ST::hash()(sa) == ST::hash()(sb), 1, "");
    if (fa == fb) EXPECT_EQ("hash_i:fold-equal-strings", ST::hash_i()(sa) == ST::hash_i()(sb), 1, "");
    if (with_n) {
        size_t lim = std::max(a.size(), b.size()) + 1;
        for (size_t n = 0; n <= lim + 1; ++n) {
            size_t nn = n == lim + 1 ? SMAX : n;
            const S pa = a.substr(0, std::min(nn, a.size())), pb = b.substr(0, std::min(nn, b.size()));
            const int wn = ref::compare(pa, pb);
            std::string ex = sfmt("n=%zu", nn);
            EXPECT_EQ("compare_n:sign", sgn(sa.compare_n(sb, nn)), wn, ex);
            EXPECT_EQ("compare_n:antisymmetry", sgn(sb.compare_n(sa, nn)), -wn, ex);
            const S pbc = bc.substr(0, std::min(nn, bc.size()));
            EXPECT_EQ("compare_n:cstr", sgn(sa.compare_n(sb.c_str(), nn)), ref::compare(pa, pbc), ex);
            EXPECT_EQ("compare_n:char8_t", sgn(sa.compare_n(sb.u8_str(), nn)), ref::compare(pa, pbc), ex);
            const int cn = sgn(sa.compare_ni(sb, nn));
            EXPECT_EQ("compare_ni:zero-iff-fold-equal", cn == 0, ref::folded(pa) == ref::folded(pb), ex);
            EXPECT_EQ("compare_ni:antisymmetry", sgn(sb.compare_ni(sa, nn)), -cn, ex);
            EXPECT_EQ("compare_n:ci-param", sgn(sa.compare_n(sb, nn, ST::case_insensitive)), cn, ex);
            if (bc.size() == b.size()) {
                EXPECT_EQ("compare_ni:cstr", sgn(sa.compare_ni(sb.c_str(), nn)), cn, ex);
                EXPECT_EQ("compare_ni:char8_t", sgn(sa.compare_ni(sb.u8_str(), nn)), cn, ex);
                EXPECT_EQ("compare_n:cstr-ci-param", sgn(sa.compare_n(sb.c_str(), nn, ST::case_insensitive)), cn, ex);
            }
        }
    }
}

static void case_map(const ST::string &sa, const S &a)
{
    const S &b = a;
    ST::string up = sa.to_upper(), lo = sa.to_lower();
    EXPECT_EQ("to_upper", vrt::str_of(up) == ref::uppered(a), 1, "got=" + vrt::hex(up.c_str(), up.size()));
    EXPECT_EQ("to_lower", vrt::str_of(lo) == ref::folded(a), 1, "got=" + vrt::hex(lo.c_str(), lo.size()));
    EXPECT_EQ("to_upper:terminator", up.c_str()[up.size()], 0, "");
    EXPECT_EQ("to_lower:terminator", lo.c_str()[lo.size()], 0, "");
    EXPECT_EQ("hash_i:of-upper", ST::hash_i()(up) == ST::hash_i()(sa), 1, "");
    EXPECT_EQ("hash_i:of-lower", ST::hash_i()(lo) == ST::hash_i()(sa), 1, "");
    EXPECT_EQ("compare_i:with-upper", sa.compare_i(up), 0, "");
    // hash depends on the contents only: same bytes reached by another route
    ST::string viaconcat = ST::string::from_validated(a.data(), a.size() / 2) + ST::string::from_validated(a.data() + a.size() / 2, a.size() - a.size() / 2);
    EXPECT_EQ("hash:content-only", ST::hash()(viaconcat) == ST::hash()(sa), 1, "");
    EXPECT_EQ("std::hash", std::hash<ST::string>()(sa) == std::hash<ST::string>()(viaconcat), 1, "");
}

// ---------------------------------------------------------------- buffers
template <typename T>
static int ref_cmp(const std::basic_string<T> &a, const std::basic_string<T> &b)
{
    size_t n = std::min(a.size(), b.size());
    for (size_t i = 0; i < n; ++i) {
        if (std::char_traits<T>::lt(a[i], b[i])) return -1;
        if (std::char_traits<T>::lt(b[i], a[i])) return 1;
    }
    return a.size() < b.size() ? -1 : a.size() > b.size() ? 1 : 0;
}
template <typename T>
static std::basic_string<T> cut0(const std::basic_string<T> &s)
{
    size_t z = s.find(T());
    return z == std::basic_string<T>::npos ? s : s.substr(0, z);
}

// an object that holds value v, reached through history `kind` (0..15)
template <typename T>
static ST::buffer<T> *with_history(const std::basic_string<T> &v, unsigned kind)
{
    typedef ST::buffer<T> B;
    static const std::basic_string<T> shortres(5, T('z')), longres(40, T('y'));
    B *o = new B((kind & 1) ? shortres.data() : longres.data(), (kind & 1) ? shortres.size() : longres.size());
    switch ((kind >> 1) & 3) {
    case 0: *o = B(v.data(), v.size()); break;                                   // move assignment over the residue
    case 1: { B src(v.data(), v.size()); *o = src; break; }                      // copy assignment over the residue
    case 2: o->allocate(v.size()); if (!v.empty()) memcpy(o->data(), v.data(), v.size() * sizeof(T)); break;
    default:
        if (v.empty()) { if (kind & 8) o->clear(); else { B taken(std::move(*o)); (void)taken; } }   // cleared / moved-from: the empty value
        else if (kind & 8) { B mid(v.data(), v.size()); B taken(std::move(*o)); *o = std::move(mid); }   // moved-from, then move-assigned
        else { B taken(std::move(*o)); o->allocate(v.size(), v[0]); memcpy(o->data(), v.data(), v.size() * sizeof(T)); }
        break;
    }
    return o;
}

template <typename T>
static void equal_values_with_history(const char *tn)
{
    typedef ST::buffer<T> B;
    typedef std::basic_string<T> BS;
    const size_t limit = (sizeof(B) - 16) / sizeof(T);
    for (size_t len : {size_t(0), size_t(1), size_t(2), limit - 1, limit, limit + 1, size_t(40)}) {
        BS v;
        for (size_t k = 0; k < len; ++k) v += static_cast<T>('a' + k % 26);
        vrt::Box<B> fresh(v.data(), v.size());
        for (unsigned ka = 0; ka < 16; ++ka)
            for (unsigned kb = 0; kb < 16; ++kb) {
                std::unique_ptr<B> x(with_history<T>(v, ka)), y(with_history<T>(v, kb));
                auto bad = [&](const char *what) {
                    vrt::violation(sfmt("C06:buffer<%s>:history:%s", tn, what), sfmt("two objects holding the same %zu-unit value, histories %u and %u", len, ka, kb));
                };
                vrt::evals(8);
                if (x->compare(*y) != 0 || y->compare(*x) != 0) bad("compare-of-equal-values");
                if (!(*x == *y) || !(*y == *x)) bad("operator==-of-equal-values");
                if (*x != *y) bad("operator!=-of-equal-values");
                if (*x < *y || *y < *x) bad("operator<-of-equal-values");
                if (!(*x == *fresh) || *fresh != *y || fresh->compare(*x) != 0) bad("against-a-fresh-object");
                if (x->compare_n(*y, len + 1) != 0) bad("compare_n-of-equal-values");
                vrt::count("buffer.equal_values_with_history");
            }
    }
}

template <typename T>
static void buffer_pair(const char *tn, const std::basic_string<T> &a, const std::basic_string<T> &b)
{
    typedef ST::buffer<T> B;
    typedef std::basic_string<T> BS;
    vrt::Box<B> ba(a.data(), a.size()), bb(b.data(), b.size());
    auto fail = [&](const char *what, long got, long want, const std::string &ex) {
        vrt::violation(sfmt("C06:buffer<%s>:%s", tn, what),
                       sfmt("a=%s b=%s got=%ld want=%ld %s", vrt::hex(a.data(), a.size(), sizeof(T)).c_str(),
                            vrt::hex(b.data(), b.size(), sizeof(T)).c_str(), got, want, ex.c_str()));
    };
#define BEQ(what, got, want, ex) do { long g__ = static_cast<long>(got), w__ = static_cast<long>(want); vrt::evals(); if (g__ != w__) fail(what, g__, w__, ex); } while (0)
    const int want = ref_cmp(a, b);
    BEQ("compare:sign", sgn(ba->compare(*bb)), want, "");
    BEQ("compare:antisymmetry", sgn(bb->compare(*ba)), -want, "");
    BEQ("compare:static", sgn(B::compare(a.data(), a.size(), b.data(), b.size())), want, "");
    BEQ("operator==", *ba == *bb, want == 0, "");
    BEQ("operator!=", *ba != *bb, want != 0, "");
    BEQ("operator<", *ba < *bb, want < 0, "");
    BEQ("compare:self", ba->compare(*ba), 0, "");
    BEQ("operator==:self", *ba == *ba, true, "");
    BEQ("operator!=:self", *ba != *ba, false, "");
    BEQ("operator<:self", *ba < *ba, false, "");
    BEQ("operator==(null_t) [deprecated]", *ba == ST::null_t(), a.empty(), "");
    BEQ("operator!=(null_t) [deprecated]", *ba != ST::null_t(), !a.empty(), "");
    BEQ("null_t==buffer [deprecated]", ST::null_t() == *bb, b.empty(), "");
    BEQ("null_t!=buffer [deprecated]", ST::null_t() != *bb, !b.empty(), "");
    const BS bc = cut0(b);
    BEQ("compare:cstr", sgn(ba->compare(bb->c_str())), ref_cmp(a, bc), "");
    size_t lim = std::max(a.size(), b.size()) + 1;
    for (size_t n = 0; n <= lim + 1; ++n) {
        size_t nn = n == lim + 1 ? SMAX : n;
        BS pa = a.substr(0, std::min(nn, a.size())), pb = b.substr(0, std::min(nn, b.size())), pbc = bc.substr(0, std::min(nn, bc.size()));
        std::string ex = sfmt("n=%zu", nn);
        BEQ("compare_n:sign", sgn(ba->compare_n(*bb, nn)), ref_cmp(pa, pb), ex);
        BEQ("compare_n:static", sgn(B::compare(a.data(), a.size(), b.data(), b.size(), nn)), ref_cmp(pa, pb), ex);
        BEQ("compare_n:cstr", sgn(ba->compare_n(bb->c_str(), nn)), ref_cmp(pa, pbc), ex);
    }
    // The same two values held by objects with a history (a value assigned over another one, a cleared or re-allocated
    // object, the moved-from source of a move): order and equality are functions of the value alone.
    {
        const uint64_t h = vrt::fnv1a(b.data(), b.size() * sizeof(T), vrt::fnv1a(a.data(), a.size() * sizeof(T), 0x41));
        std::unique_ptr<B> ha(with_history<T>(a, static_cast<unsigned>(h % 16))), hb(with_history<T>(b, static_cast<unsigned>((h / 16) % 16)));
        std::string ex = sfmt("objects with a history (kinds %u, %u)", static_cast<unsigned>(h % 16), static_cast<unsigned>((h / 16) % 16));
        BEQ("history:compare", sgn(ha->compare(*hb)), want, ex);
        BEQ("history:operator==", *ha == *hb, want == 0, ex);
        BEQ("history:operator!=", *ha != *hb, want != 0, ex);
        BEQ("history:operator<", *ha < *hb, want < 0, ex);
        BEQ("history:operator==(fresh)", *ha == *bb, want == 0, ex);
        BEQ("history:operator!=(fresh)", *ba != *hb, want != 0, ex);
        BEQ("history:compare(fresh)", sgn(ba->compare(*hb)), want, ex);
        BEQ("history:compare_n", sgn(ha->compare_n(*hb, lim)), want, ex);
        vrt::count("buffer.pairs_with_history");
    }
    vrt::count(std::string("buffer.pairs.") + tn);
#undef BEQ
}

// huge lengths through the static pointer+length compare: only min(lsize,rsize)
// units are touched, so no memory of that size is needed
template <typename T>
static void huge_lengths(const char *tn)
{
    typedef ST::buffer<T> B;
    static const uint64_t diffs[] = {0x7FFFFFFFull, 0x80000000ull, 0x80000001ull, 0xFFFFFFFFull, 0x100000000ull, 0x100000001ull,
                                     0x180000000ull, 0x200000000ull, 0x7FFFFFFFFFFFFFFFull, 0x8000000000000000ull, 0xFFFFFFFF00000000ull};
    const T text[4] = {T('a'), T('b'), T(0), T(0x7f)};
    for (size_t k = 0; k <= 4; ++k) {
        vrt::Exact<T> l(text, k), r(text, k);
        for (uint64_t d : diffs) {
            size_t big = k + static_cast<size_t>(d);
            if (big < k) continue;
            auto chk = [&](const char *what, int got, int want, size_t n) {
                vrt::evals();
                vrt::count("huge.calls");
                if (got != want)
                    vrt::violation(sfmt("C06:buffer<%s>:huge-length:%s", tn, what),
                                   sfmt("common prefix %zu units, lengths %zu vs %zu (difference 0x%llx) n=%zu got=%d want=%d", k, k, big,
                                        static_cast<unsigned long long>(d), n, got, want));
            };
            chk("shorter-first", sgn(B::compare(l.data(), k, r.data(), big)), -1, SMAX);
            chk("longer-first", sgn(B::compare(l.data(), big, r.data(), k)), 1, SMAX);
            // prefix limits: n <= k compares equal prefixes; n > k still orders by length
            for (size_t n : {static_cast<size_t>(0), k, k + 1, static_cast<size_t>(d), big, SMAX}) {
                size_t ln = std::min(k, n), rn = std::min(big, n);
                int want = ln < rn ? -1 : ln > rn ? 1 : 0;
                if (std::min(ln, rn) > k) continue;      // would read past the common prefix
                chk("compare_n:shorter-first", sgn(B::compare(l.data(), k, r.data(), big, n)), want, n);
                chk("compare_n:longer-first", sgn(B::compare(l.data(), big, r.data(), k, n)), -want, n);
            }
        }
    }
}

template <typename T>
static std::basic_string<T> wide_nth(uint64_t i, const std::vector<T> &alpha, size_t maxlen)
{
    std::basic_string<T> out;
    uint64_t k = alpha.size(), block = 1;
    for (size_t len = 0; len <= maxlen; ++len) {
        if (i < block) {
            out.assign(len, alpha[0]);
            for (size_t p = len; p-- > 0;) { out[p] = alpha[i % k]; i /= k; }
            return out;
        }
        i -= block;
        block *= k;
    }
    return out;
}

template <typename T>
static void buffer_phase(const char *tn, const std::vector<T> &alpha)
{
    const size_t L = vrt::thorough() ? 3 : 2;
    const uint64_t n = gen::count_strings(alpha.size(), L);
    std::string pname = std::string("buffer_") + tn;
    vrt::phase(pname.c_str(), n, [&](uint64_t i, Rng &) {
        auto a = wide_nth<T>(i, alpha, L);
        for (uint64_t j = 0; j < n; ++j) buffer_pair<T>(tn, a, wide_nth<T>(j, alpha, L));
        vrt::distinct(vrt::fnv1a(a.data(), a.size() * sizeof(T), vrt::fnv_str(tn)));
    });
    std::string rname = std::string("buffer_random_") + tn;
    vrt::phase(rname.c_str(), vrt::tier_count(30000, 300000), [&](uint64_t, Rng &r) {
        // long shared prefixes straddling the small-buffer limit
        size_t pre = gen::pick_len(r) % 40;
        std::basic_string<T> p;
        for (size_t k = 0; k < pre; ++k) p += alpha[r.below(alpha.size())];
        std::basic_string<T> a = p, b = p;
        for (size_t k = r.below(3); k-- > 0;) a += alpha[r.below(alpha.size())];
        for (size_t k = r.below(3); k-- > 0;) b += alpha[r.below(alpha.size())];
        buffer_pair<T>(tn, a, b);
        vrt::distinct(vrt::fnv1a(b.data(), b.size() * sizeof(T), vrt::fnv1a(a.data(), a.size() * sizeof(T), vrt::fnv_str(tn))));
    });
    if (vrt::opt().worker == 0 || vrt::opt().single) {
        std::string ename = std::string("equal_values_with_history_") + tn;
        vrt::phase(ename.c_str(), 1, [&](uint64_t, Rng &) { equal_values_with_history<T>(tn); });
        std::string hname = std::string("huge_") + tn;
        vrt::phase(hname.c_str(), 1, [&](uint64_t, Rng &) { huge_lengths<T>(tn); });
    }
}

// Lengths that differ by 2^31 through the public case-insensitive entry points need a real string of 2 GiB (only the
// common prefix is read): thorough tier, one case.
static void huge_case_insensitive()
{
    if (!vrt::thorough() || vrt::opt().scale < 1.0) return;
    vrt::require("huge.case_insensitive_checks", 8);
    vrt::phase("huge_case_insensitive", 1, [&](uint64_t, Rng &) {
        vrt::case_cpu_budget() = 900;
        const size_t big = (size_t(1) << 31) + 5;
        vrt::cur_printf("a string of %zu bytes against its 5-byte case-folded prefix\n", big);
        ST::char_buffer buf;
        buf.allocate(big, 'a');
        const ST::string L = ST::string::from_validated(std::move(buf));
        const ST::string P("AAAAA"), p("aaaaa");
        auto chk = [&](const char *what, long got, long want) {
            vrt::evals();
            vrt::count("huge.case_insensitive_checks");
            if (got != want) vrt::violation(sfmt("C06:huge-length:%s", what), sfmt("2^31+5 bytes of 'a' vs \"AAAAA\": got %ld want %ld", got, want));
        };
        chk("compare_i:longer-first", sgn(L.compare_i(P)), 1);
        chk("compare_i:shorter-first", sgn(P.compare_i(L)), -1);
        chk("compare(ci):longer-first", sgn(L.compare(P, ST::case_insensitive)), 1);
        chk("less_i", ST::less_i()(P, L), 1);
        chk("less_i:reversed", ST::less_i()(L, P), 0);
        chk("equal_i", ST::equal_i()(L, P), 0);
        chk("compare_ni:within-prefix", sgn(L.compare_ni(P, 5)), 0);
        chk("compare_ni:beyond-prefix", sgn(L.compare_ni(P, 6)), 1);
        chk("compare:longer-first", sgn(L.compare(p)), 1);
        chk("compare:shorter-first", sgn(p.compare(L)), -1);
        chk("operator<", p < L, 1);
        chk("compare_i:cstr", sgn(L.compare_i("AAAAA")), 1);
        vrt::case_cpu_budget() = 30;
    });
}

static void body()
{
    vrt::require("string.pairs", 10000);
    vrt::require("string.fold_equal_pairs", 100);
    vrt::require("string.triples", 3000);
    vrt::require("huge.calls", 100);
    vrt::require("buffer.pairs_with_history", 4000);
    vrt::require("buffer.equal_values_with_history", 7000);
    vrt::require("buffer.pairs.char", 1000);
    vrt::require("buffer.pairs.wchar_t", 1000);
    vrt::require("buffer.pairs.char16_t", 1000);
    vrt::require("buffer.pairs.char32_t", 1000);
    vrt::require("casemap.strings", 100);

    S alpha;
    for (int c : {0x00, 0x01, 0x40, 0x41, 0x5A, 0x5B, 0x60, 0x61, 0x7A, 0x7B, 0x7F, 0x80, 0xC3, 0xFF}) alpha.push_back(static_cast<char>(c));
    const size_t L = vrt::thorough() ? 3 : 2;
    const uint64_t n = gen::count_strings(alpha.size(), L);
    vrt::note(sfmt("all ordered pairs of the %llu strings of length <= %zu over {00,01,'@','A','Z','[','`','a','z','{',7F,80,C3,FF}, every prefix limit n", static_cast<unsigned long long>(n), L));

    vrt::phase("string_pairs", n, [&](uint64_t i, Rng &) {
        S a, b;
        gen::nth_string(i, alpha, L, a);
        vrt::Box<ST::string> sa(vrt::mk(a));
        for (uint64_t j = 0; j < n; ++j) {
            gen::nth_string(j, alpha, L, b);
            vrt::Box<ST::string> sb(vrt::mk(b));
            string_pair(*sa, a, *sb, b, true);
            vrt::count("string.pairs");
            if (ref::folded(a) == ref::folded(b) && a != b) vrt::count("string.fold_equal_pairs");
        }
        case_map(*sa, a);
        vrt::count("casemap.strings");
        vrt::distinct(vrt::fnv1a(a.data(), a.size(), 31));
        if (vrt::want_sample("string_pairs") && a.size() == L) vrt::sample("string_pairs", sfmt("a=%s against all %llu strings b, n in 0..%zu and SIZE_MAX", show(a).c_str(), static_cast<unsigned long long>(n), L + 1));
    });

    // transitivity of the case-insensitive preorder (case-sensitive transitivity follows
    // from agreement with the reference total order on every pair)
    {
        const size_t L2 = vrt::thorough() ? 2 : 1;
        const uint64_t m = gen::count_strings(alpha.size(), L2);
        vrt::phase("ci_triples", m, [&](uint64_t i, Rng &) {
            std::vector<S> strs(m);
            std::vector<ST::string> sts;
            for (uint64_t k = 0; k < m; ++k) { gen::nth_string(k, alpha, L2, strs[k]); sts.push_back(vrt::mk(strs[k])); }
            std::vector<signed char> row(m), mat(m * m);
            for (uint64_t j = 0; j < m; ++j)
                for (uint64_t k = 0; k < m; ++k) mat[j * m + k] = static_cast<signed char>(sgn(sts[j].compare_i(sts[k])));
            for (uint64_t j = 0; j < m; ++j)
                for (uint64_t k = 0; k < m; ++k) {
                    vrt::evals();
                    if (mat[i * m + j] <= 0 && mat[j * m + k] <= 0 && mat[i * m + k] > 0)
                        vrt::violation("C06:compare_i:transitivity", sfmt("a=%s b=%s c=%s: a<=b, b<=c but a>c", show(strs[i]).c_str(), show(strs[j]).c_str(), show(strs[k]).c_str()));
                    // cs transitivity observed directly as well
                    if (sts[i].compare(sts[j]) <= 0 && sts[j].compare(sts[k]) <= 0 && sts[i].compare(sts[k]) > 0)
                        vrt::violation("C06:compare:transitivity", sfmt("a=%s b=%s c=%s", show(strs[i]).c_str(), show(strs[j]).c_str(), show(strs[k]).c_str()));
                }
            vrt::count("string.triples", m * m);
        });
    }

    // random pairs / triples up to length 40 sharing long prefixes, straddling the SSO limit
    vrt::phase("string_random", vrt::tier_count(1000000, 6000000), [&](uint64_t, Rng &r) {
        S p = gen::bytes_over(r, gen::pick_len(r) % 40, alpha);
        S a = p + gen::bytes_over(r, r.below(3), alpha), b = p + gen::bytes_over(r, r.below(3), alpha), c = p + gen::bytes_over(r, r.below(3), alpha);
        if (r.chance(1, 4)) b = r.chance(1, 2) ? ref::uppered(a) : ref::folded(a);
        if (r.chance(1, 6)) { a = gen::any_bytes(r, r.below(20)); b = a.substr(0, r.below(a.size() + 1)) + gen::any_bytes(r, r.below(3)); }
        vrt::Box<ST::string> sa(vrt::mk(a)), sb(vrt::mk(b)), sc(vrt::mk(c));
        string_pair(*sa, a, *sb, b, r.chance(1, 4));
        vrt::count("string.pairs");
        if (ref::folded(a) == ref::folded(b) && a != b) vrt::count("string.fold_equal_pairs");
        int ab = sgn(sa->compare_i(*sb)), bc = sgn(sb->compare_i(*sc)), ac = sgn(sa->compare_i(*sc));
        vrt::evals(3);
        if ((ab <= 0 && bc <= 0 && ac > 0) || (ab >= 0 && bc >= 0 && ac < 0))
            vrt::violation("C06:compare_i:transitivity", sfmt("a=%s b=%s c=%s", show(a).c_str(), show(b).c_str(), show(c).c_str()));
        vrt::count("string.triples");
        if (r.chance(1, 8)) { case_map(*sa, a); vrt::count("casemap.strings"); }
        vrt::distinct(vrt::fnv1a(b.data(), b.size(), vrt::fnv1a(a.data(), a.size(), 32)));
        if (vrt::want_sample("string_random") && a.size() > 17) vrt::sample("string_random", sfmt("a=%s b=%s c=%s", show(a).c_str(), show(b).c_str(), show(c).c_str()));
    });

    // case mapping over every single byte at every position of a short and a long string
    vrt::phase("casemap_bytes", 256, [&](uint64_t byte, Rng &) {
        for (size_t len : {1, 15, 16, 17, 40}) {
            for (size_t pos : {static_cast<size_t>(0), len / 2, len - 1}) {
                S a(len, 'm');
                a[pos] = static_cast<char>(byte);
                vrt::Box<ST::string> sa(vrt::mk(a));
                case_map(*sa, a);
                vrt::count("casemap.strings");
            }
        }
        vrt::distinct(vrt::fnv_u64(byte, 33));
    });

    buffer_phase<char>("char", std::vector<char>{0, 1, 'A', 'a', 0x7f, static_cast<char>(0x80), static_cast<char>(0xff)});
    buffer_phase<wchar_t>("wchar_t", std::vector<wchar_t>{0, 1, L'A', 0x7f, 0x80, 0xff, 0xd800, 0xffff, 0x10ffff});
    buffer_phase<char16_t>("char16_t", std::vector<char16_t>{0, 1, u'A', 0x7f, 0x80, 0xff, 0xd800, 0x8000, 0xffff});
    buffer_phase<char32_t>("char32_t", std::vector<char32_t>{0, 1, U'A', 0x7f, 0x80, 0xffff, 0x10ffff, 0x7fffffff, 0x80000000u, 0xffffffffu});
    huge_case_insensitive();
    vrt::alloc::check_pairing("order");
}

VRT_MAIN(body)
